"""Model classes for the third-party objects the verified code touches (Biopython 1.81
locations). Written in the restricted Python subset: pyvc parses THIS file with `ast` and
executes the bodies symbolically; `pyvc/conformance.py` executes the same definitions natively
and compares them with the installed library on generated values (DESIGN.md §2.3).

Nothing here models code of /repo — the repository's own classes are read from /repo.
"""
# pylint: disable=all


class _SimpleLocation:
    """Bio.SeqFeature.SimpleLocation (positions are ints; fuzziness is not modelled)."""

    def __init__(self, start, end, strand=None):
        if start > end:
            raise ValueError("End location must be greater than or equal to start location")
        self.start = start
        self.end = end
        self.strand = strand

    @property
    def parts(self):
        return [self]

    @property
    def operator(self):
        return None

    def __len__(self):
        return self.end - self.start

    def __contains__(self, value):
        if value < self.start or value >= self.end:
            return False
        return True

    def __eq__(self, other):
        if not isinstance(other, _SimpleLocation):
            return False
        return self.start == other.start and self.end == other.end and self.strand == other.strand


class _CompoundLocation:
    """Bio.SeqFeature.CompoundLocation."""

    def __init__(self, parts, operator="join"):
        self.operator = operator
        self.parts = list(parts)
        if len(parts) < 2:
            raise ValueError("CompoundLocation should have at least 2 parts")

    @property
    def start(self):
        return min(loc.start for loc in self.parts)

    @property
    def end(self):
        return max(loc.end for loc in self.parts)

    @property
    def strand(self):
        if len({loc.strand for loc in self.parts}) == 1:
            return self.parts[0].strand
        return None

    def __len__(self):
        return sum(len(loc) for loc in self.parts)

    def __contains__(self, value):
        for loc in self.parts:
            if value in loc:
                return True
        return False

    def __eq__(self, other):
        if not isinstance(other, _CompoundLocation):
            return False
        if len(self.parts) != len(other.parts):
            return False
        if self.operator != other.operator:
            return False
        for self_part, other_part in zip(self.parts, other.parts):
            if self_part != other_part:
                return False
        return True


class SeqFeature:
    """Bio.SeqFeature.SeqFeature as a plain holder of location, type, id and qualifiers (the attributes the
    verified functions read and write; nothing else of the class is modelled)."""

    def __init__(self, location=None, type="", id="<unknown id>", qualifiers=None):  # pylint: disable=redefined-builtin
        self.location = location
        self.type = type
        self.id = id
        self.qualifiers = {} if qualifiers is None else qualifiers


class RuleWithSuperiors:
    """the one attribute of a DetectionRule that remove_redundant_protoclusters reads (used to build rule tables in sidecars)"""

    def __init__(self, superiors):
        self.superiors = superiors
