"""Indexing, slicing, membership, attribute access, sets/dicts/sequences, quantified generators."""
from __future__ import annotations

import ast
from typing import Any, Callable, Optional

import z3

from . import dsl
from .core import PyExc, Unsupported, PathPruned, sub_explore
from .expr import Frame, GenV
from .ops import conc_bool, conc_int, as_int_term, as_num_term, is_num, mk
from .values import (BoolV, IntV, RealV, StrV, NoneV, NONE, TupleV, ListV, SeqV, SetV, DictV, ObjV,
                     ClassV, FuncV, BoundV, BuiltinV, ModuleV, RangeV, SuperV, V, ElemType, StrSort)


class ContainerMixin:
    # ---- concrete iteration -------------------------------------------------------------------------
    def iterate_concrete(self, value: V, line: int = 0) -> list[V]:
        if isinstance(value, (ListV, TupleV)):
            return list(value.items)
        if isinstance(value, DictV) and value.entries is not None:
            return [k for k, _ in value.entries]
        if isinstance(value, SetV) and value.items is not None:
            items = []
            for item, cond in value.items:
                c = conc_bool(cond)
                if c is None:
                    if self.ctx.branch(cond):
                        items.append(item)
                elif c:
                    items.append(item)
            if len(items) > 1:
                self.ctx.assumptions_used.add(
                    "iteration over a set uses one fixed order (order-sensitivity is the subject of C17 only)")
            return items
        if isinstance(value, RangeV):
            start, stop = conc_int(value.start), conc_int(value.stop)
            if start is not None and stop is not None:
                return [IntV(i) for i in range(start, stop, value.step)]
        if isinstance(value, StrV) and value.s is not None:
            return [StrV(s=ch) for ch in value.s]
        if isinstance(value, ObjV):
            fn = self.find_method(value.cls, "__iter__")
            if fn is not None:
                return self.iterate_concrete(self.call_function(fn, [value], {}), line)
        raise Unsupported(f"iteration over {value!r} needs a loop invariant / is not supported (line {line})")

    def concretize_index(self, idx: V, length: int, line: int) -> int:
        """A symbolic index into a concrete-length list: fork over the feasible positions."""
        c = conc_int(idx)
        if c is not None:
            return c
        term = as_int_term(idx)
        in_range = z3.And(term >= -length, term < length)
        self.check_safe(in_range, "IndexError", line)
        candidates = list(range(-length, length))
        choice = self.ctx.decide(len(candidates))
        value = candidates[choice]
        cond = term == value
        if not self.ctx.feasible(cond):
            raise PathPruned()
        self.ctx.assume(cond)
        return value

    def normal_index(self, term: Any, n: Any) -> Any:
        """Python index normalisation; the `idx + len` case is dropped when idx < 0 is impossible
        (specs use non-negative indices by convention; in code it is checked with the solver)."""
        term = z3.simplify(term)
        if z3.is_int_value(term):
            return term if term.as_long() >= 0 else z3.simplify(term + n)
        if self.ctx.spec_depth or self.ctx.quant_depth:
            return term
        if not self.ctx.feasible(term < 0):
            return term
        if not self.ctx.feasible(term >= 0):
            return z3.simplify(term + n)
        return z3.If(term < 0, term + n, term)

    # ---- indexing -----------------------------------------------------------------------------------
    def index(self, base: V, idx: V, line: int = 0) -> V:
        if isinstance(base, (ListV, TupleV)):
            i = self.concretize_index(idx, len(base.items), line)
            if not -len(base.items) <= i < len(base.items):
                raise PyExc("IndexError", "list index out of range", line)
            return base.items[i]
        if isinstance(base, SeqV):
            term = as_int_term(idx)
            real = self.normal_index(term, base.n)
            self.check_safe(z3.And(real >= 0, real < base.n), "IndexError", line)
            return self.unpack(base.sel(z3.simplify(real)), base.et)
        if isinstance(base, DictV):
            return self.dict_get(base, idx, line)
        if isinstance(base, StrV):
            i = conc_int(idx)
            if base.s is not None and i is not None:
                if not -len(base.s) <= i < len(base.s):
                    raise PyExc("IndexError", "string index out of range", line)
                return StrV(s=base.s[i])
            return self.opaque_str("char")
        if isinstance(base, ObjV):
            fn = self.find_method(base.cls, "__getitem__")
            if fn is not None:
                return self.call_function(fn, [base, idx], {})
        raise Unsupported(f"indexing {base!r}")

    def slice(self, base: V, lower: Optional[V], upper: Optional[V], step: Optional[V], line: int) -> V:
        if isinstance(base, (ListV, TupleV)):
            n = len(base.items)

            def conc(bound: Optional[V]) -> Optional[int]:
                if bound is None or isinstance(bound, NoneV):
                    return None
                c = conc_int(bound)
                if c is not None:
                    return c
                term = as_int_term(bound)
                candidates = list(range(-n - 1, n + 2))
                choice = self.ctx.decide(len(candidates))
                value = candidates[choice]
                if value == -n - 1:
                    cond = term <= value
                elif value == n + 1:
                    cond = term >= value
                else:
                    cond = term == value
                if not self.ctx.feasible(cond):
                    raise PathPruned()
                self.ctx.assume(cond)
                return value
            lo, hi = conc(lower), conc(upper)
            st = conc_int(step) if step is not None and not isinstance(step, NoneV) else None
            items = base.items[slice(lo, hi, st)]
            return ListV(items) if isinstance(base, ListV) else TupleV(items)
        if isinstance(base, SeqV):
            if step is not None and not isinstance(step, NoneV):
                raise Unsupported("stepped slice of a symbolic sequence")
            n = base.n

            def norm(bound: Optional[V], default: Any) -> Any:
                if bound is None or isinstance(bound, NoneV):
                    return default
                term = as_int_term(bound)
                term = z3.If(term < 0, term + n, term)
                return z3.If(term < 0, 0, z3.If(term > n, n, term))
            lo = z3.simplify(norm(lower, z3.IntVal(0)))
            hi = z3.simplify(norm(upper, n))
            new_n = z3.simplify(z3.If(hi > lo, hi - lo, 0))
            return SeqV(base.arr, new_n, base.et, z3.simplify(lo + base.off), base.fn)
        if isinstance(base, StrV):
            if base.s is not None:
                lo = conc_int(lower) if lower is not None and not isinstance(lower, NoneV) else None
                hi = conc_int(upper) if upper is not None and not isinstance(upper, NoneV) else None
                if (lower is None or isinstance(lower, NoneV) or lo is not None) and \
                        (upper is None or isinstance(upper, NoneV) or hi is not None):
                    return StrV(s=base.s[slice(lo, hi)])
            # a slice of an unknown string: a deterministic uninterpreted function of (string, lo, hi)
            if step is None or isinstance(step, NoneV):
                lo_t = as_int_term(lower) if lower is not None and not isinstance(lower, NoneV) else z3.IntVal(0)
                hi_t = as_int_term(upper) if upper is not None and not isinstance(upper, NoneV) else z3.IntVal(-1)
                fn = z3.Function("str_slice", StrSort, z3.IntSort(), z3.IntSort(), StrSort)
                return StrV(t=fn(self.ctx.str_term(base), z3.simplify(lo_t), z3.simplify(hi_t)))
            return self.opaque_str("slice")
        raise Unsupported(f"slicing {base!r}")

    # ---- membership ---------------------------------------------------------------------------------
    def contains(self, container: V, item: V, line: int = 0) -> Any:
        if isinstance(container, (ListV, TupleV)):
            return self.or_([self.eq(x, item) for x in container.items])
        if isinstance(container, SeqV):
            i = z3.Int(self.ctx.fresh_name("in"))
            packed = self.pack(item, container.et)
            return z3.Exists([i], z3.And(i >= 0, i < container.n, container.sel(i) == packed))
        if isinstance(container, SetV):
            if container.items is not None:
                return self.or_([self.and_([cond, self.eq(x, item)]) for x, cond in container.items])
            return z3.Select(container.arr, self.pack(item, container.et))
        if isinstance(container, DictV):
            if container.entries is not None:
                return self.or_([self.eq(k, item) for k, _ in container.entries])
            return self.contains(container.keys, item, line)
        if isinstance(container, RangeV):
            term = as_int_term(item)
            start, stop = as_int_term(container.start), as_int_term(container.stop)
            return z3.And(term >= start, term < stop, (term - start) % container.step == 0)
        if isinstance(container, StrV):
            if container.s is not None and isinstance(item, StrV) and item.s is not None:
                return item.s in container.s
            return z3.Bool(self.ctx.fresh_name("substr"))
        if isinstance(container, ObjV):
            fn = self.find_method(container.cls, "__contains__")
            if fn is not None:
                return self.truth(self.call_function(fn, [container, item], {}))
        raise Unsupported(f"membership in {container!r}")

    # ---- sets ---------------------------------------------------------------------------------------
    def make_set(self, values: list[V]) -> SetV:
        result = SetV(items=[])
        for value in values:
            self.set_add(result, value)
        return result

    def set_add(self, target: SetV, value: V, cond: Any = True) -> None:
        if target.items is None:
            packed = self.pack(value, target.et)
            c = conc_bool(cond)
            new = z3.Store(target.arr, packed, z3.BoolVal(True))
            target.arr = new if c is True else z3.If(cond, new, target.arr)
            return
        already = self.or_([self.and_([c, self.eq(x, value)]) for x, c in target.items])
        present = self.and_([cond, self.not_(already)])
        if conc_bool(present) is False:
            return
        target.items.append((value, present if not isinstance(present, bool) else z3.BoolVal(present)))

    def set_len(self, target: SetV) -> V:
        if target.items is None:
            raise Unsupported("len of a characteristic-array set")
        total: Any = z3.IntVal(0)
        for _, cond in target.items:
            total = total + z3.If(cond, 1, 0)
        return IntV(z3.simplify(total))

    def set_to_array(self, target: SetV, et: ElemType) -> Any:
        if target.arr is not None:
            return target.arr
        arr = z3.K(et.sort, z3.BoolVal(False))
        for item, cond in target.items:
            arr = z3.If(cond, z3.Store(arr, self.pack(item, et), z3.BoolVal(True)), arr)
        return arr

    # ---- dicts --------------------------------------------------------------------------------------
    def dict_set(self, target: DictV, key: V, value: V) -> None:
        if target.entries is None:
            packed_key = self.pack(key, target.keys.et)
            packed_val = self.pack(value, target.vt)
            present = self.contains(target.keys, key)
            if not self.ctx.branch(present):
                self.seq_append(target.keys, key)
            target.vals = z3.Store(target.vals, packed_key, packed_val)
            return
        for pos, (k, _) in enumerate(target.entries):
            same = self.eq(k, key)
            c = conc_bool(same)
            if c is True or (c is None and self.ctx.branch(same)):
                target.entries[pos] = (k, value)
                return
        target.entries.append((key, value))

    def dict_lookup(self, target: DictV, key: V) -> Optional[V]:
        """The value stored under key, or None when absent (forks on symbolic key equality)."""
        if target.entries is not None:
            for k, v in target.entries:
                same = self.eq(k, key)
                c = conc_bool(same)
                if c is True or (c is None and self.ctx.branch(same)):
                    return v
            return None
        if target.total or self.ctx.spec_depth or self.ctx.quant_depth:
            # precondition of the contract: every key that is looked up is present
            # (spec functions are total: the value under an absent key is unconstrained)
            return self.unpack(z3.Select(target.vals, self.pack(key, target.keys.et)), target.vt)
        present = self.contains(target.keys, key)
        if self.ctx.branch(present):
            return self.unpack(z3.Select(target.vals, self.pack(key, target.keys.et)), target.vt)
        return None

    def dict_get(self, target: DictV, key: V, line: int) -> V:
        found = self.dict_lookup(target, key)
        if found is not None:
            return found
        if target.default_factory is not None:
            value = self.call(target.default_factory, [], {}, line)
            self.dict_set(target, key, value)
            return value
        raise PyExc("KeyError", "key", line)

    # ---- symbolic sequences ---------------------------------------------------------------------------
    def seq_from_list(self, items: list[V], et: ElemType) -> SeqV:
        arr = z3.K(z3.IntSort(), self.pack(items[0], et)) if items else \
            z3.Const(self.ctx.fresh_name("empty[]"), z3.ArraySort(z3.IntSort(), et.sort))
        for i, item in enumerate(items):
            arr = z3.Store(arr, i, self.pack(item, et))
        return SeqV(arr, z3.IntVal(len(items)), et)

    def seq_concat(self, a: V, b: V) -> V:
        if isinstance(a, ListV) and isinstance(b, ListV):
            return ListV(a.items + b.items)
        et = a.et if isinstance(a, SeqV) else b.et
        sa = a if isinstance(a, SeqV) else self.seq_from_list(a.items, et)
        sb = b if isinstance(b, SeqV) else self.seq_from_list(b.items, et)
        return SeqV(None, z3.simplify(sa.n + sb.n), et,
                    fn=lambda j, sa=sa.clone(), sb=sb.clone(): z3.If(j < sa.n, sa.sel(j), sb.sel(z3.simplify(j - sa.n))))

    def seq_append(self, target: SeqV, value: V) -> None:
        target.put(target.n, self.pack(value, target.et))
        target.n = z3.simplify(target.n + 1)

    # ---- quantified evaluation over symbolic iterables ------------------------------------------------
    def bound_element(self, source: V, i: Any) -> tuple[V, Any]:
        """(element at ghost position i, range condition on i)."""
        if isinstance(source, SeqV):
            return self.unpack(source.sel(i), source.et), z3.And(i >= 0, i < source.n)
        if isinstance(source, RangeV):
            start, stop = as_int_term(source.start), as_int_term(source.stop)
            value = start + i * source.step
            return IntV(value), z3.And(i >= 0, value < stop)
        if isinstance(source, DictV) and source.entries is None:
            return self.bound_element(source.keys, i)
        if getattr(source, "kind", "") == "enumerate":
            elem, rng = self.bound_element(source.source, i)
            return TupleV([IntV(i), elem]), rng
        if getattr(source, "kind", "") == "dict_items":
            key, rng = self.bound_element(source.source.keys, i)
            value = self.unpack(z3.Select(source.source.vals, source.source.keys.sel(i)), source.source.vt)
            return TupleV([key, value]), rng
        raise Unsupported(f"quantification over {source!r}")

    def gen_terms(self, gen: GenV, i: Any, want: str = "value") -> tuple[Any, Any, Any]:
        """Evaluates a generator body at ghost position i.
        Returns (range∧filters condition, element value V (merged), side obligations)."""
        if isinstance(gen.source, GenV):
            raise Unsupported("generator over generator")
        element, in_range = self.bound_element(gen.source, i)

        def body() -> V:
            scope = Frame(dict(), gen.frame.module, gen.frame.func, gen.frame, gen.frame.owner)
            self.assign_target(gen.target, element, scope)
            keep: Any = True
            for cond in gen.ifs:
                keep = self.and_([keep, self.truth(self.eval(cond, scope))])
            value = self.eval(gen.elt, scope)
            return TupleV([BoolV(keep) if isinstance(keep, bool) else BoolV(keep), value])

        merged = self.eval_bound(body, in_range, i)
        keep_term = merged.items[0].t
        return z3.And(in_range, keep_term), merged.items[1], None

    def eval_bound(self, thunk: Callable[[], V], in_range: Any, i: Any) -> V:
        """Evaluate thunk with a bound ghost variable: nested exploration merged into one value;
        obligations raised inside are proved universally over the bound variable."""
        ctx = self.ctx
        ctx.quant_depth += 1
        saved = ctx.quant_obligs
        ctx.quant_obligs = []
        saved_base = ctx.quant_base
        ctx.quant_base = len(ctx.pc)
        try:
            def run() -> V:
                ctx.assume(in_range)
                return thunk()
            results = sub_explore(ctx, run)
            pending = ctx.quant_obligs
        finally:
            ctx.quant_depth -= 1
            ctx.quant_obligs = saved
            ctx.quant_base = saved_base
        if not results:
            raise PathPruned()
        value = self.merge_results(results)
        for goal, kind, line, label in pending:
            quantified = z3.ForAll([i], goal)
            ctx.prove(quantified, kind, line, label)
        return value

    def merge_results(self, results: list[tuple[list[Any], V]]) -> V:
        value = results[-1][1]
        for conds, other in reversed(results[:-1]):
            cond = z3.And(conds) if conds else z3.BoolVal(True)
            value = self.ite(cond, other, value)
        return value

    def gen_any(self, gen: GenV, is_all: bool) -> Any:
        i = z3.Int(self.ctx.fresh_name("q"))
        cond, value, _ = self.gen_terms(gen, i)
        t = self.truth(value)
        t = z3.BoolVal(t) if isinstance(t, bool) else t
        if is_all:
            return z3.ForAll([i], z3.Implies(cond, t))
        return z3.Exists([i], z3.And(cond, t))

    def gen_extreme(self, gen: GenV, want_min: bool, line: int) -> V:
        i = z3.Int(self.ctx.fresh_name("q"))
        cond, value, _ = self.gen_terms(gen, i)
        if not is_num(value):
            raise Unsupported("min/max over non-numeric generator")
        term = as_num_term(value)
        self.check_safe(z3.Exists([i], cond), "ValueError", line)
        m = z3.Const(self.ctx.fresh_name("min" if want_min else "max"), term.sort())
        bound = (m <= term) if want_min else (m >= term)
        self.ctx.assume(z3.ForAll([i], z3.Implies(cond, bound)))
        self.ctx.assume(z3.Exists([i], z3.And(cond, m == term)))
        return mk(m)

    def gen_sum(self, gen: GenV, line: int) -> V:
        i = z3.Int(self.ctx.fresh_name("q"))
        cond, value, _ = self.gen_terms(gen, i)
        term = as_num_term(value)
        n = self.source_len(gen.source)
        prefix = z3.Function(self.ctx.fresh_name("psum"), z3.IntSort(), term.sort())
        zero = z3.IntVal(0) if term.sort() == z3.IntSort() else z3.RealVal(0)
        self.ctx.assume(prefix(0) == zero)
        keep = z3.substitute(cond, (i, i))  # same term; kept for clarity
        self.ctx.assume(z3.ForAll([i], z3.Implies(z3.And(i >= 0, i < n),
                                                  prefix(i + 1) == prefix(i) + z3.If(keep, term, zero))))
        return mk(prefix(n))

    def source_len(self, source: V) -> Any:
        if isinstance(source, SeqV):
            return source.n
        if isinstance(source, RangeV):
            return self.range_len(source)
        if isinstance(source, DictV) and source.entries is None:
            return source.keys.n
        if getattr(source, "kind", "") == "enumerate":
            return source.source.n
        if getattr(source, "kind", "") == "dict_items":
            return source.source.keys.n
        raise Unsupported("length of symbolic source")

    def gen_to_seq(self, gen: GenV, line: int) -> SeqV:
        if gen.ifs:
            return self.gen_filter_to_seq(gen, line)
        i = z3.Int(self.ctx.fresh_name("q"))
        _, value, _ = self.gen_terms(gen, i)
        et = self.elem_type_of(value)
        arr = z3.Lambda([i], self.pack(value, et))
        return SeqV(arr, self.source_len(gen.source), et)

    def gen_filter_to_seq(self, gen: GenV, line: int) -> SeqV:
        """[elt for x in source if cond] over a symbolic source of length n. With
               c(0) = 0,  c(m + 1) = c(m) + (1 if keep(m) else 0)        (kept among the first m)
        the result `out` has length c(n) and   keep(m) -> out[c(m)] == elt(m);
        src(j) names the source position of out[j]:  0 <= src(j) < n, keep(src(j)), c(src(j)) == j.
        These are facts of the list comprehension (order kept, nothing lost, nothing invented); they are
        assumed, with c, src and out fresh uninterpreted symbols."""
        ctx = self.ctx
        i = z3.Int(ctx.fresh_name("q"))
        cond, value, _ = self.gen_terms(gen, i)
        in_range = self.bound_element(gen.source, i)[1]
        et = self.elem_type_of(value)
        n = self.source_len(gen.source)
        cnt = z3.Function(ctx.fresh_name("kept"), z3.IntSort(), z3.IntSort())
        src = z3.Function(ctx.fresh_name("src"), z3.IntSort(), z3.IntSort())
        out = z3.Const(ctx.fresh_name("filtered[]"), z3.ArraySort(z3.IntSort(), et.sort))
        packed = self.pack(value, et)
        j = z3.Int(ctx.fresh_name("q"))
        ctx.assume(cnt(0) == 0)
        ctx.assume(z3.ForAll([i], z3.Implies(in_range, z3.And(
            cnt(i + 1) == cnt(i) + z3.If(cond, 1, 0), cnt(i) >= 0, cnt(i + 1) <= i + 1))))
        ctx.assume(z3.ForAll([i], z3.Implies(cond, z3.And(z3.Select(out, cnt(i)) == packed, src(cnt(i)) == i,
                                                          cnt(i) < cnt(n)))))
        keep_at_src = z3.substitute(cond, (i, src(j)))
        ctx.assume(z3.ForAll([j], z3.Implies(z3.And(j >= 0, j < cnt(n)), z3.And(
            src(j) >= 0, src(j) < n, keep_at_src, cnt(src(j)) == j,
            z3.Select(out, j) == z3.substitute(packed, (i, src(j)))))))
        ctx.assume(z3.And(cnt(n) >= 0, cnt(n) <= n))
        return SeqV(out, cnt(n), et)

    def gen_to_set(self, gen: GenV, line: int) -> SetV:
        i = z3.Int(self.ctx.fresh_name("q"))
        cond, value, _ = self.gen_terms(gen, i)
        et = self.elem_type_of(value)
        x = z3.Const(self.ctx.fresh_name("x"), et.sort)
        arr = z3.Lambda([x], z3.Exists([i], z3.And(cond, self.pack(value, et) == x)))
        return SetV(arr=arr, et=et)

    def elem_type_of(self, value: V) -> ElemType:
        if isinstance(value, BoolV):
            return self.elem_type(dsl.Bool)
        if isinstance(value, IntV):
            return self.elem_type(dsl.Int)
        if isinstance(value, RealV):
            return self.elem_type(dsl.Real)
        if isinstance(value, StrV):
            return self.elem_type(dsl.Str)
        if isinstance(value, ObjV):
            for et in self.ctx.datatypes.values():
                if et.rec.cls == value.cls and set(et.rec.fields) <= set(value.fields) | {"_"}:
                    return et
            desc_fields = {}
            for name, fval in value.fields.items():
                if isinstance(fval, IntV):
                    desc_fields[name] = dsl.Int
                elif isinstance(fval, BoolV):
                    desc_fields[name] = dsl.Bool
                elif isinstance(fval, RealV):
                    desc_fields[name] = dsl.Real
                elif isinstance(fval, StrV):
                    desc_fields[name] = dsl.Str
                else:
                    raise Unsupported(f"cannot store object with field {name}={fval!r} in a symbolic sequence")
            return self.elem_type(dsl.Rec(value.cls, label=f"{value.cls}_auto", **desc_fields))
        raise Unsupported(f"no element type for {value!r}")
