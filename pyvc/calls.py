"""Name resolution, attribute access, calls (inline / by contract / spec), construction."""
from __future__ import annotations

import ast
from typing import Any, Optional

import z3

from . import dsl
from .core import PyExc, Unsupported, PathPruned, sub_explore
from .expr import Frame, GenV
from .ops import conc_bool, conc_int, as_int_term, is_num, mk
from .stmt import BUILTIN_EXC
from .values import (UninterpV, RecurV, RefV, BoolV, IntV, RealV, StrV, NoneV, NONE, TupleV, ListV, SeqV, SetV, DictV, ObjV,
                     ClassV, FuncV, BoundV, BuiltinV, ModuleV, RangeV, SuperV, V)

BUILTIN_NAMES = {
    "len", "min", "max", "abs", "int", "bool", "str", "float", "isinstance", "issubclass", "sorted",
    "any", "all", "sum", "enumerate", "zip", "range", "reversed", "set", "frozenset", "list", "tuple",
    "dict", "type", "hasattr", "getattr", "setattr", "print", "repr", "id", "iter", "next", "map",
    "filter", "open", "round", "divmod", "super", "object", "callable", "hash",
    # dsl helpers
    "implies", "iff", "forall", "exists", "count", "isnone", "forall_str",
    # well-known imports
    "xor", "defaultdict", "deepcopy",
}
KNOWN_MODULES = {"logging", "os", "dataclasses", "string", "json", "itertools", "glob", "shutil",
                 "re", "sys", "warnings", "operator", "collections", "copy", "bisect", "math"}
MAX_INLINE_DEPTH = 14


class CallMixin:
    # ---- globals --------------------------------------------------------------------------------------
    def module_info(self, relname: str) -> Any:
        if relname in self.world.modules:
            return self.world.modules[relname]
        for model in self.world.models:
            if model.relname == relname:
                return model
        return self.world.load(relname)

    def lookup_global(self, name: str, module: str, node: Any = None, seen: Optional[set] = None) -> V:
        seen = seen or set()
        key = (module, name)
        if key in self.global_cache:
            return self.global_cache[key]
        if key in seen:
            raise Unsupported(f"cyclic import resolution for {name}")
        seen.add(key)
        mod = self.module_info(module)
        result: Optional[V] = None
        if name in mod.functions:
            result = FuncV(mod.functions[name], module, name, is_spec=module.startswith("sidecar:"))
        elif name in mod.classes:
            result = ClassV(name)
            result.module = module
        elif name in mod.consts:
            frame = Frame({}, module)
            try:
                result = self.eval(mod.consts[name], frame)
            except (Unsupported, PyExc):
                if not module.startswith("sidecar:"):
                    raise
                result = None
        elif name in mod.aliases:
            orig = mod.aliases[name]
            target_module, level = mod.alias_modules[name]
            path = self.world.resolve_import_path(mod, target_module, level)
            if module.startswith("sidecar:") and target_module and target_module.startswith("contracts."):
                import importlib
                rel = f"sidecar:{target_module}"
                if rel not in self.world.modules:
                    self.world.load_sidecar(importlib.import_module(target_module).__file__, rel)
                result = self.lookup_global(orig, rel, node, seen)
            elif path is not None:
                self.world.load(path)
                target = self.world.modules[path]
                if orig in target.functions or orig in target.classes or orig in target.consts \
                        or orig in target.aliases:
                    result = self.lookup_global(orig, path, node, seen)
                else:
                    # `from package import module`
                    sub = self.world.resolve_import_path(mod, (target_module + "." if target_module else "") + orig, level)
                    if sub is not None:
                        result = ModuleV(sub)
            if result is None:
                # outside /repo: a model class (by local or original name) or a known builtin
                for cand in (name, orig):
                    for model in self.world.models:
                        if cand in model.classes:
                            result = ClassV(cand)
                            result.module = model.relname
                            break
                        if cand in model.functions:
                            result = FuncV(model.functions[cand], model.relname, cand)
                            break
                    if result is not None:
                        break
                if result is None and orig in BUILTIN_NAMES:
                    result = BuiltinV(orig)
                if result is None and orig in KNOWN_MODULES:
                    result = ModuleV(orig)
                if result is None:
                    result = BuiltinV(f"ext:{orig}")
        elif name in mod.import_modules:
            result = ModuleV(mod.import_modules[name])
        elif name in BUILTIN_EXC:
            result = ClassV(name)
            result.module = "builtins"
        elif name in BUILTIN_NAMES:
            result = BuiltinV(name)
        elif name in ("True", "False", "None"):
            result = {"True": BoolV(True), "False": BoolV(False), "None": NONE}[name]
        elif name == "__name__":
            result = StrV(s=module)
        if module.startswith("sidecar:") and (result is None or name in mod.consts):
            import importlib
            pyobj = getattr(importlib.import_module(module.split(":", 1)[1]), name, None)
            if isinstance(pyobj, dsl.Recurrence):
                result = RecurV(pyobj)
            if isinstance(pyobj, dsl.Uninterpreted):
                result = UninterpV(pyobj)
        if result is None and module.startswith("sidecar:"):
            # real classes of the repository may be constructed inside `derived` builders
            try:
                info = self.world.find_class(name)
            except KeyError:
                info = None
            if info is not None:
                result = ClassV(name)
                result.module = info.module
        if result is None and module.startswith("sidecar:") and getattr(self, "spec_fallback_module", None):
            # a specification may name the module-level tables of the file under verification (read from the real source)
            target = self.world.load(self.spec_fallback_module)
            if name in target.consts or name in target.functions:
                return self.lookup_global(name, self.spec_fallback_module)
        if result is None:
            if module.startswith("sidecar:"):
                # dsl type descriptors etc. referenced from specs are not values of the verified world
                raise Unsupported(f"name {name} not available inside specs")
            raise PyExc("NameError", name, getattr(node, "lineno", 0))
        self.global_cache[key] = result
        return result

    # ---- classes ----------------------------------------------------------------------------------------
    def class_info(self, name: str, prefer: Optional[str] = None) -> Any:
        try:
            return self.world.find_class(name, prefer)
        except KeyError as err:
            raise Unsupported(str(err)) from err

    def mro(self, name: str) -> list[Any]:
        if name not in self.mro_cache:
            try:
                self.mro_cache[name] = self.world.mro(name, self.class_pref.get(name))
            except KeyError as err:
                raise Unsupported(str(err)) from err
        return self.mro_cache[name]

    def find_method(self, cls_name: str, name: str, after: Optional[str] = None) -> Optional[FuncV]:
        stub = self.stubs.get(f"{cls_name}.{name}")
        if stub is not None and after is None:
            return stub if isinstance(stub, dsl.External) else self.sidecar_function(stub)
        started = after is None
        for cls in self.mro(cls_name):
            if not started:
                if cls.name == after:
                    started = True
                continue
            stub = self.stubs.get(f"{cls.name}.{name}")
            if stub is not None:
                return stub if isinstance(stub, dsl.External) else self.sidecar_function(stub)
            if name in cls.methods:
                return FuncV(cls.methods[name], cls.module, f"{cls.name}.{name}", owner=cls.name)
        return None

    def getattr(self, obj: V, name: str, line: int = 0) -> V:
        if isinstance(obj, ObjV):
            if name in obj.fields:
                return obj.fields[name]
            if obj.cls == "FileHandle":
                return BoundV(obj, name)
            stub = self.stubs.get(f"{obj.cls}.{name}")
            if isinstance(stub, dsl.External):
                return BoundV(obj, stub)
            if stub is not None:
                fn = self.sidecar_function(stub)
                if getattr(stub, "is_property", False):
                    return self.call_function(fn, [obj], {})
                return BoundV(obj, fn)
            for cls in self.mro(obj.cls):
                stub = self.stubs.get(f"{cls.name}.{name}")
                if isinstance(stub, dsl.External):
                    return BoundV(obj, stub)
                if stub is not None:
                    fn = self.sidecar_function(stub)
                    if getattr(stub, "is_property", False):
                        return self.call_function(fn, [obj], {})
                    return BoundV(obj, fn)
                if name in cls.props:
                    fn = FuncV(cls.props[name], cls.module, f"{cls.name}.{name}", owner=cls.name)
                    return self.call_function(fn, [obj], {})
                if name in cls.methods:
                    fn = FuncV(cls.methods[name], cls.module, f"{cls.name}.{name}", owner=cls.name)
                    if name in cls.staticmethods:
                        return fn
                    if name in cls.classmethods:
                        klass = ClassV(obj.cls)
                        return BoundV(klass, fn)
                    return BoundV(obj, fn)
                if name in cls.consts and not (cls.is_dataclass and any(a[0] == name for a in cls.annotated)):
                    return self.class_const(cls, name)
            if name == "__class__":
                return ClassV(obj.cls)
            fn = self.find_method(obj.cls, "__getattr__")
            if fn is not None:
                return self.call_function(fn, [obj, StrV(s=name)], {})
            if name == "__dict__":
                return DictV(entries=[(StrV(s=k), v) for k, v in obj.fields.items()])
            raise PyExc("AttributeError", f"{obj.cls}.{name}", line)
        if isinstance(obj, RefV):
            return self.ref_getattr(obj, name, line)
        if isinstance(obj, ClassV):
            if obj.name in BUILTIN_EXC:
                raise Unsupported(f"attribute {name} of builtin class {obj.name}")
            for cls in self.mro(obj.name):
                if name in cls.methods:
                    fn = FuncV(cls.methods[name], cls.module, f"{cls.name}.{name}", owner=cls.name)
                    if name in cls.staticmethods:
                        return fn
                    if name in cls.classmethods:
                        return BoundV(obj, fn)
                    return fn
                if name in cls.consts:
                    return self.class_const(cls, name)
            if name == "__name__":
                return StrV(s=obj.name)
            raise PyExc("AttributeError", f"{obj.name}.{name}", line)
        if isinstance(obj, ModuleV):
            if obj.name.endswith(".py"):
                return self.lookup_global(name, obj.name)
            return BuiltinV(f"{obj.name}.{name}")
        if isinstance(obj, SuperV):
            fn = self.find_method(obj.obj.cls, name, after=obj.after)
            if fn is None:
                if name == "__init__":
                    return BuiltinV("noop")
                raise PyExc("AttributeError", f"super().{name}", line)
            return BoundV(obj.obj, fn)
        if isinstance(obj, BuiltinV):
            return BuiltinV(f"{obj.name}.{name}")
        if isinstance(obj, (ListV, SeqV, SetV, DictV, StrV, TupleV, IntV, RealV, GenV)):
            if isinstance(obj, IntV) and name in ("real", "numerator"):
                return obj
            return BoundV(obj, name)
        if isinstance(obj, NoneV):
            raise PyExc("AttributeError", f"None.{name}", line)
        raise Unsupported(f"attribute {name} of {obj!r}")

    def ref_getattr(self, obj: RefV, name: str, line: int) -> V:
        desc = obj.desc
        cls = desc.cls
        if name in desc.fields:
            return self.ref_field(obj.t, f"{cls}.{name}", desc.fields[name])
        stub = self.stubs.get(f"{cls}.{name}")
        if stub is not None:
            if isinstance(stub, dsl.External):
                return BoundV(obj, stub)
            fn = self.sidecar_function(stub)
            if getattr(stub, "is_property", False):
                return self.call_function(fn, [obj], {})
            return BoundV(obj, fn)
        raise Unsupported(f"attribute {name} of opaque {cls} is not declared in the contract (line {line})")

    def ref_field(self, term: Any, fname: str, fdesc: Any) -> V:
        """Value of an immutable field function of an opaque object."""
        ctx = self.ctx
        sort = term.sort()
        if isinstance(fdesc, dsl.Opt):
            flag = z3.Function(f"{fname}.isnone", sort, z3.BoolSort())
            if ctx.branch(flag(term)):
                return NONE
            return self.ref_field(term, fname, fdesc.inner)
        if isinstance(fdesc, dsl.Const):
            return self.from_python(fdesc.value)
        if isinstance(fdesc, dsl.SeqOf):
            et = self.elem_type(fdesc.elem)
            arr = z3.Function(f"{fname}[]", sort, z3.ArraySort(z3.IntSort(), et.sort))(term)
            n = z3.Function(f"len({fname})", sort, z3.IntSort())(term)
            ctx.assume(n >= 0)
            return SeqV(arr, n, et)
        if isinstance(fdesc, dsl.DictOf):
            kt, vt = self.elem_type(fdesc.key), self.elem_type(fdesc.value)
            karr = z3.Function(f"{fname}.keys[]", sort, z3.ArraySort(z3.IntSort(), kt.sort))(term)
            n = z3.Function(f"len({fname})", sort, z3.IntSort())(term)
            ctx.assume(n >= 0)
            if getattr(fdesc, 'distinct', False):
                i, j = z3.Int(ctx.fresh_name("q")), z3.Int(ctx.fresh_name("q"))
                ctx.assume(z3.ForAll([i, j], z3.Implies(z3.And(0 <= i, i < j, j < n),
                                                        z3.Select(karr, i) != z3.Select(karr, j))))
            vals = z3.Function(f"{fname}.vals", sort, z3.ArraySort(kt.sort, vt.sort))(term)
            return DictV(keys=SeqV(karr, n, kt), vals=vals, vt=vt)
        et = self.elem_type(fdesc)
        value = z3.Function(fname, sort, et.sort)(term)
        return self.unpack(value, et)

    # ---- ghost recurrences -------------------------------------------------------------------------------------
    def recurrence_value(self, rec: Any, key: tuple, index: Any) -> V:
        """The value R(index, params) as an application of the uninterpreted function(s) of this recurrence.
        key = (shape of the parameters (which are None), parameter terms): the terms are ARGUMENTS of the
        function, so equal parameter values give equal ghost values whatever their syntactic form."""
        shape, terms = key
        sorts = [t.sort() for t in terms]
        desc = rec.returns
        if isinstance(desc, dsl.SeqOf):
            et = self.elem_type(desc.elem)
            felem = z3.Function(f"ghost:{rec.name}:{shape}[]", *sorts, z3.IntSort(), z3.IntSort(), et.sort)
            flen = z3.Function(f"ghost:{rec.name}:{shape}.len", *sorts, z3.IntSort(), z3.IntSort())
            return SeqV(None, flen(*terms, index), et,
                        fn=lambda j, felem=felem, index=index, terms=terms: felem(*terms, index, j))
        et = self.elem_type(desc)
        fn = z3.Function(f"ghost:{rec.name}:{shape}", *sorts, z3.IntSort(), et.sort)
        if et.kind in ("int", "bool", "real", "str"):
            return self.unpack(fn(*terms, index), et)
        raise Unsupported(f"recurrence {rec.name} of type {desc!r}")

    def values_equal(self, a: V, b: V) -> Any:
        if isinstance(a, SeqV) or isinstance(b, SeqV):
            if isinstance(a, ListV):
                a = self.seq_from_list(a.items, b.et) if a.items else SeqV(b.arr, z3.IntVal(0), b.et, b.off, b.fn)
            if isinstance(b, ListV):
                b = self.seq_from_list(b.items, a.et) if b.items else SeqV(a.arr, z3.IntVal(0), a.et, a.off, a.fn)
            if a.et.sort != b.et.sort:
                raise Unsupported("equality of sequences with different element encodings")
            # equal as lists: same length, same elements below the length
            i = z3.Int(self.ctx.fresh_name("q"))
            return z3.And(a.n == b.n, z3.ForAll([i], z3.Implies(z3.And(0 <= i, i < a.n), a.sel(i) == b.sel(i))))
        t = self.eq(a, b)
        return t if not isinstance(t, bool) else z3.BoolVal(t)

    def call_recurrence(self, rec: Any, args: list[V], line: int) -> V:
        ctx = self.ctx
        index = as_int_term(args[0])
        params = args[1:]
        shape = []
        terms = []
        for p in params:
            if isinstance(p, BoolV):
                shape.append("b")
                terms.append(p.t)
            elif isinstance(p, IntV):
                shape.append("i")
                terms.append(z3.simplify(p.t))
            elif isinstance(p, StrV):
                shape.append("s")
                terms.append(ctx.str_term(p))
            elif isinstance(p, RealV):
                shape.append("r")
                terms.append(p.t)
            elif isinstance(p, NoneV):
                shape.append("N")
            elif isinstance(p, SeqV) and p.arr is not None and isinstance(p.off, int) and p.off == 0:
                # an (array-backed) input sequence: the array and its length are arguments of the ghost function
                shape.append("q")
                terms.append(p.arr)
                terms.append(z3.simplify(p.n))
            else:
                raise Unsupported(f"recurrence {rec.name}: parameter of unsupported kind {p!r}")
        key = ("".join(shape), tuple(terms))
        done_key = (rec.name, key[0], tuple(str(t.sexpr()) for t in terms))
        init_fv = self.sidecar_function(rec.init)
        step_fv = self.sidecar_function(rec.step)
        done = ctx.recur_done.setdefault(done_key, set())
        value = self.recurrence_value(rec, key, z3.simplify(index))
        if ctx.quant_depth and not getattr(self, "small_instances", 0):
            # the index mentions a bound variable: no instantiation here (instances come from the
            # ground uses of the recurrence on the path)
            return value
        pending = []
        if "init" not in done:
            done.add("init")
            pending.append(("init", None))
        wanted = [z3.simplify(index - 1), z3.simplify(index)]
        if getattr(self, "small_instances", 0):
            # counterexample search on small inputs: the defining equations at every index that can occur
            wanted += [z3.IntVal(j) for j in range(self.small_instances)]
        for j in wanted:
            tag = str(j.sexpr())
            if tag not in done:
                done.add(tag)
                pending.append(("step", j))
        for kind, j in pending:
            if kind == "init":
                first = self.pure_call(init_fv, list(params))
                ctx.ghost_axioms.append(self.values_equal(self.recurrence_value(rec, key, z3.IntVal(0)), first))
            else:
                cj = conc_int(IntV(j))
                if cj is not None and cj < 0:
                    continue
                prev = self.recurrence_value(rec, key, j)
                try:
                    nxt = self.pure_call(step_fv, [prev, IntV(j)] + list(params))
                except PathPruned:
                    if getattr(self, "small_instances", 0):
                        continue     # an eagerly added instance outside the domain of the step function
                    raise
                fact = self.values_equal(self.recurrence_value(rec, key, z3.simplify(j + 1)), nxt)
                ctx.ghost_axioms.append(z3.Implies(j >= 0, fact))
        return value

    def call_external(self, ext: Any, label: str, args: list[V], line: int) -> V:
        ctx = self.ctx
        ctx.assumptions_used.add(f"assumed contract of external callee {label}: may raise {ext.raises or 'nothing'}, "
                                 f"{'effect ' + ext.effect if ext.effect else 'no file-system effect'}")
        if ctx.quant_depth or ctx.spec_depth:
            raise Unsupported(f"external callee {label} under a quantifier/spec")
        for pos, etype in enumerate(ext.raises):
            if ctx.decide(2) == 1:
                raise PyExc(etype, f"external {label}", line)
        if ext.effect:
            self.effect(ext.effect, args[0] if args else NONE)
        if ext.returns is None:
            return NONE
        ctx.havoc_used = True
        result = self.fresh_resolved(ext.returns, ctx.fresh_name(f"ext_{label}"))
        if ext.ensures is not None:
            funcv = self.sidecar_function(ext.ensures)
            wanted = [a.arg for a in funcv.node.args.args]
            entry = dict(getattr(self, "entry_values", {}) or {})
            if getattr(ext, "over_contract_params", False) and all(w == "result" or w in entry for w in wanted):
                # the assumed postcondition speaks about the contract's own (ghost) parameters
                entry["result"] = result
                t = self.truth(self.eval_named(ext.ensures, entry))
            else:
                t = self.truth(self.pure_call(funcv, list(args), {"result": result}))
            ctx.assume(t if not isinstance(t, bool) else z3.BoolVal(t))
        return result

    def class_const(self, cls: Any, name: str) -> V:
        key = (cls.module, cls.name, name)
        if key not in self.global_cache:
            if cls.is_enum:
                expr = cls.consts[name]
                if isinstance(expr, ast.Call) and getattr(expr.func, "id", getattr(expr.func, "attr", "")) == "auto":
                    # enum.auto(): 1, 2, 3, ... in definition order
                    value = IntV(list(cls.consts).index(name) + 1)
                else:
                    value = self.eval(expr, Frame({}, cls.module))
                member = ObjV(cls.name, {"name": StrV(s=name), "value": value, "_name_": StrV(s=name)})
                self.global_cache[key] = member
            else:
                frame = Frame({}, cls.module, owner=cls.name)
                # class bodies may refer to earlier constants of the same class
                for other, expr in cls.consts.items():
                    if other == name:
                        break
                    try:
                        frame.env[other] = self.eval(expr, frame)
                    except (Unsupported, PyExc):
                        pass
                self.global_cache[key] = self.eval(cls.consts[name], frame)
        return self.global_cache[key]

    def has_attr(self, obj: V, name: str) -> bool:
        if isinstance(obj, ObjV):
            if name in obj.fields:
                return True
            for cls in self.mro(obj.cls):
                if name in cls.props or name in cls.methods or name in cls.consts:
                    return True
            return False
        raise Unsupported(f"hasattr on {obj!r}")

    def setattr(self, obj: V, name: str, value: V, line: int = 0) -> None:
        if isinstance(obj, ObjV):
            for cls in self.mro(obj.cls):
                if name in cls.setters:
                    fn = FuncV(cls.setters[name], cls.module, f"{cls.name}.{name}.setter", owner=cls.name)
                    self.call_function(fn, [obj, value], {})
                    return
                if name in cls.props and name not in obj.fields:
                    raise PyExc("AttributeError", f"can't set {name}", line)
            fn = self.find_method(obj.cls, "__setattr__")
            if fn is not None:
                raise Unsupported(f"class {obj.cls} defines __setattr__")
            obj.fields[name] = value
            return
        raise Unsupported(f"attribute store on {obj!r}")

    # ---- calls ----------------------------------------------------------------------------------------------
    def e_Call(self, node: ast.Call, frame: Frame) -> V:
        if isinstance(node.func, ast.Name) and node.func.id == "super" and not node.args:
            self_obj = frame.lookup("self")
            if frame.owner is None or not isinstance(self_obj, ObjV):
                fr = frame
                while fr is not None and (fr.owner is None or not isinstance(fr.lookup("self"), ObjV)):
                    fr = fr.parent
                if fr is None:
                    raise Unsupported("super() outside a method")
                return SuperV(fr.lookup("self"), fr.owner)
            return SuperV(self_obj, frame.owner)
        # logging calls are dropped (DESIGN §2.1)
        if isinstance(node.func, ast.Attribute) and isinstance(node.func.value, ast.Name) \
                and node.func.value.id in ("logging", "warnings") and frame.lookup(node.func.value.id) is None:
            return NONE
        if isinstance(node.func, ast.Name) and node.func.id == "implies" and len(node.args) == 2 \
                and frame.lookup("implies") is None:
            premise = self.truth(self.eval(node.args[0], frame))
            if conc_bool(premise) is False:
                return BoolV(True)
            conclusion = self.truth(self.eval(node.args[1], frame))
            return BoolV(self.or_([self.not_(premise), conclusion]))
        func = self.eval(node.func, frame)
        args: list[V] = []
        for arg in node.args:
            if isinstance(arg, ast.Starred):
                args.extend(self.iterate_concrete(self.eval(arg.value, frame), node.lineno))
            else:
                args.append(self.eval(arg, frame))
        kwargs: dict[str, V] = {}
        for kw in node.keywords:
            if kw.arg is None:
                extra = self.eval(kw.value, frame)
                if not isinstance(extra, DictV) or extra.entries is None:
                    raise Unsupported("** of symbolic dict")
                for key, value in extra.entries:
                    if not isinstance(key, StrV) or key.s is None:
                        raise Unsupported("** with symbolic keys")
                    kwargs[key.s] = value
            else:
                kwargs[kw.arg] = self.eval(kw.value, frame)
        return self.call(func, args, kwargs, node.lineno, frame)

    def call(self, func: V, args: list[V], kwargs: dict[str, V], line: int = 0, frame: Optional[Frame] = None) -> V:
        if isinstance(func, BuiltinV):
            return self.call_builtin(func.name, args, kwargs, line, frame)
        if isinstance(func, FuncV):
            return self.call_function(func, args, kwargs, line)
        if isinstance(func, BoundV):
            if isinstance(func.func, dsl.External):
                return self.call_external(func.func, f"{getattr(getattr(func.obj, 'desc', None), 'cls', '?')}.method",
                                          [func.obj] + args + [v for _, v in sorted(kwargs.items())], line)
            if isinstance(func.func, FuncV):
                return self.call_function(func.func, [func.obj] + args, kwargs, line)
            return self.call_method_builtin(func.obj, func.func, args, kwargs, line)
        if isinstance(func, ClassV):
            return self.construct(func, args, kwargs, line)
        if isinstance(func, RecurV):
            return self.call_recurrence(func.rec, args, line)
        if isinstance(func, UninterpV):
            decl = func.decl
            ets = [self.elem_type(a) for a in decl.args]
            ret = self.elem_type(decl.returns)
            fn = z3.Function(f"abstract:{decl.name}", *[et.sort for et in ets], ret.sort)
            return self.unpack(fn(*[self.pack(v, et) for v, et in zip(args, ets)]), ret)
        raise Unsupported(f"call of {func!r} (line {line})")

    def bind(self, fv: FuncV, args: list[V], kwargs: dict[str, V], line: int) -> dict[str, V]:
        spec = fv.node.args
        env: dict[str, V] = {}
        params = list(spec.posonlyargs) + list(spec.args)
        defaults = [None] * (len(params) - len(spec.defaults)) + list(spec.defaults)
        kwargs = dict(kwargs)
        if len(args) > len(params) and spec.vararg is None:
            raise PyExc("TypeError", f"too many arguments for {fv.qualname}", line)
        for i, param in enumerate(params):
            if i < len(args):
                env[param.arg] = args[i]
            elif param.arg in kwargs:
                env[param.arg] = kwargs.pop(param.arg)
            elif defaults[i] is not None:
                env[param.arg] = self.eval(defaults[i], Frame({}, fv.module, parent=fv.closure, owner=fv.owner))
            else:
                raise PyExc("TypeError", f"missing argument {param.arg} for {fv.qualname}", line)
        if spec.vararg is not None:
            env[spec.vararg.arg] = TupleV(args[len(params):])
        for param, default in zip(spec.kwonlyargs, spec.kw_defaults):
            if param.arg in kwargs:
                env[param.arg] = kwargs.pop(param.arg)
            elif default is not None:
                env[param.arg] = self.eval(default, Frame({}, fv.module, parent=fv.closure, owner=fv.owner))
            else:
                raise PyExc("TypeError", f"missing keyword argument {param.arg}", line)
        if spec.kwarg is not None:
            env[spec.kwarg.arg] = DictV(entries=[(StrV(s=k), v) for k, v in kwargs.items()])
        elif kwargs:
            raise PyExc("TypeError", f"unexpected keyword {sorted(kwargs)} for {fv.qualname}", line)
        return env

    def call_function(self, fv: FuncV, args: list[V], kwargs: dict[str, V], line: int = 0) -> V:
        stub = self.stubs.get(fv.qualname)
        if stub is not None and not fv.is_spec:
            if isinstance(stub, dsl.External):
                return self.call_external(stub, fv.qualname, args, line)
            return self.pure_call(self.sidecar_function(stub), args, kwargs)
        if fv.is_spec:
            return self.pure_call(fv, args, kwargs)
        if not fv.is_spec and self.ctx.spec_depth == 0 or (not fv.is_spec and self.spec_uses_contracts):
            con = self.contracts_by_target.get(fv.target)
            if con is not None and not isinstance(fv.node, ast.Lambda):
                return self.call_contract(con, fv, args, kwargs, line)
        return self.inline(fv, args, kwargs, line)

    def inline(self, fv: FuncV, args: list[V], kwargs: dict[str, V], line: int = 0) -> V:
        if self.depth > MAX_INLINE_DEPTH:
            raise Unsupported(f"inlining depth exceeded at {fv.qualname} (recursion without contract?)")
        env = self.bind(fv, args, kwargs, line)
        frame = Frame(env, fv.module, fv, parent=fv.closure, owner=fv.owner)
        if not fv.is_spec and not fv.module.startswith(("model:", "sidecar:")) and self.depth > 0:
            self.ctx.inlined.add(fv.target)
        self.depth += 1
        try:
            if isinstance(fv.node, ast.Lambda):
                return self.eval(fv.node.body, frame)
            if any(isinstance(n, (ast.Yield, ast.YieldFrom)) for n in ast.walk(fv.node)):
                raise Unsupported(f"generator function {fv.qualname}")
            signal = self.exec_block(fv.node.body, frame)
        finally:
            self.depth -= 1
        if signal is not None and signal[0] == "return":
            return signal[1]
        return NONE

    def pure_call(self, fv: FuncV, args: list[V], kwargs: Optional[dict[str, V]] = None) -> V:
        """Evaluate a spec function to ONE (ite-merged) value; no obligations, no outer forks."""
        ctx = self.ctx
        ctx.spec_depth += 1
        try:
            def run() -> V:
                try:
                    return self.inline(fv, args, kwargs or {})
                except PyExc as exc:
                    raise Unsupported(f"spec {fv.qualname} raised {exc.etype} ({exc.info}, line {exc.line})") from exc
            results = sub_explore(ctx, run)
        finally:
            ctx.spec_depth -= 1
        if not results:
            raise PathPruned()
        return self.merge_results(results)

    def sidecar_function(self, fn: Any) -> FuncV:
        """FuncV for a Python function object defined in a sidecar (located by name in its AST)."""
        if isinstance(fn, FuncV):
            return fn
        code = getattr(fn, "__code__", None)
        key = ("sidecar-fn", getattr(fn, "__module__", ""), getattr(fn, "__qualname__", repr(fn)),
               code.co_firstlineno if code else 0, code.co_varnames[:code.co_argcount] if code else ())
        if key in self.global_cache:
            return self.global_cache[key]
        module_name = fn.__module__
        relname = f"sidecar:{module_name}"
        mod = self.world.modules.get(relname)
        if mod is None:
            import importlib
            pymod = importlib.import_module(module_name)
            mod = self.world.load_sidecar(pymod.__file__, relname)
        qual = fn.__qualname__.split(".")
        node = None
        if len(qual) == 1 and qual[0] in mod.functions:
            node = mod.functions[qual[0]]
        elif len(qual) == 2 and qual[0] in mod.classes:
            cls = mod.classes[qual[0]]
            node = cls.methods.get(qual[1])
        if node is None and qual[-1] == "<lambda>":
            code = fn.__code__
            wanted = list(code.co_varnames[:code.co_argcount])
            for cand in ast.walk(mod.tree):
                if isinstance(cand, ast.Lambda) and cand.lineno == code.co_firstlineno \
                        and [a.arg for a in cand.args.args] == wanted:
                    node = cand
                    break
        if node is None:
            raise Unsupported(f"cannot locate source of spec function {fn.__qualname__}")
        result = FuncV(node, relname, fn.__qualname__, is_spec=True)
        self.global_cache[key] = result
        return result

    # ---- modular calls ------------------------------------------------------------------------------------------
    def call_contract(self, con: Any, fv: FuncV, args: list[V], kwargs: dict[str, V], line: int) -> V:
        ctx = self.ctx
        env = self.bind(fv, args, kwargs, line)
        names = [a.arg for a in list(fv.node.args.posonlyargs) + list(fv.node.args.args) + list(fv.node.args.kwonlyargs)]
        bound = {name: env[name] for name in names if name in env}
        label = con.cname
        ctx.assumptions_used.add(f"callee contract used: {con.target} ({label})")
        requires = con.__dict__.get("requires")
        if requires is not None:
            pre = self.truth(self.eval_named(requires, bound))
            ctx.prove(pre, "callee-pre", line, label)
        for etype, cond_fn in (con.__dict__.get("raises") or {}).items():
            cond = self.truth(self.eval_named(cond_fn, bound))
            if ctx.quant_depth or ctx.spec_depth:
                continue
            if ctx.branch(cond):
                raise PyExc(etype, f"by contract of {label}", line)
        functional = con.__dict__.get("functional")
        if functional is not None:
            spec_fn = functional if callable(functional) else dsl.SPECS[functional]
            spec_fv = self.sidecar_function(spec_fn)
            return self.pure_call(spec_fv, [bound[n] for n in names if n in bound][:len(spec_fv.node.args.args)])
        if ctx.quant_depth:
            raise Unsupported(f"non-functional contract {label} used under a quantifier")
        returns = con.__dict__.get("returns")
        if returns is None:
            raise Unsupported(f"contract {label} has no `returns`/`functional`: cannot be used modularly")
        result = self.fresh_resolved(returns, ctx.fresh_name(f"ret_{label}"))
        ctx.havoc_used = True
        ensures = con.__dict__.get("ensures")
        extra = dict(bound)
        extra["result"] = result
        extra["old"] = ObjV("_Old", dict(bound))
        clauses = ensures.items() if isinstance(ensures, dict) else ([("", ensures)] if ensures else [])
        # what was proved of the callee excludes its open known-finding classes: assume no more
        guards: dict[Any, list] = {}
        for fid, entry in (con.__dict__.get("known") or {}).items():
            if self.open_findings is None or fid in self.open_findings:
                klass_fn, labels = entry if isinstance(entry, tuple) else (entry, None)
                outside = self.not_(self.truth(self.eval_named(klass_fn, bound)))
                outside = outside if not isinstance(outside, bool) else z3.BoolVal(outside)
                for label in (labels if labels is not None else [None]):
                    guards.setdefault(label, []).append(outside)
        for label, fn in clauses:
            t = self.truth(self.eval_named(fn, extra))
            t = t if not isinstance(t, bool) else z3.BoolVal(t)
            conds = guards.get(None, []) + guards.get(label, [])
            if conds:
                t = z3.Implies(z3.And(conds), t)
            ctx.assume(t)
        return result

    def eval_named(self, fn: Any, values: dict[str, V]) -> V:
        funcv = self.sidecar_function(fn)
        names = [a.arg for a in funcv.node.args.args]
        args = []
        for name in names:
            if name not in values:
                raise Unsupported(f"spec {funcv.qualname}: no value for parameter {name}")
            args.append(values[name])
        return self.pure_call(funcv, args)

    def fresh_resolved(self, desc: Any, name: str, is_input: bool = False) -> V:
        """Fresh value for a descriptor, forking over Opt/OneOf/ListOf alternatives."""
        model = self.concrete_model if is_input else None
        if model is not None:
            from .native_replay import has_keys, matches
            if isinstance(desc, dsl.Opt):
                return self.fresh_resolved(desc.inner, name, is_input) if has_keys(name, model) else NONE
            if isinstance(desc, dsl.OneOf):
                for alt in desc.alts:
                    if matches(alt, name, model):
                        return self.fresh_resolved(alt, name, is_input)
                return self.fresh_resolved(desc.alts[0], name, is_input)
            if isinstance(desc, dsl.ListOf):
                items = []
                while has_keys(f"{name}[{len(items)}]", model):
                    items.append(self.fresh_resolved(desc.elem, f"{name}[{len(items)}]", is_input))
                return TupleV(items) if desc.as_tuple else ListV(items)
            if desc in (dsl.Int, dsl.Bool, dsl.Real, dsl.Str):
                return self.from_python(model.get(name, {dsl.Int: 0, dsl.Bool: False, dsl.Real: 0.0, dsl.Str: "s"}[desc]))
            if isinstance(desc, dsl.SeqOf):
                items = []
                while has_keys(f"{name}[{len(items)}]", model) and len(items) < int(model.get(f"len({name})", 99)):
                    items.append(self.fresh_resolved(desc.elem, f"{name}[{len(items)}]", is_input))
                return self.seq_from_list(items, self.elem_type(desc.elem))
            if isinstance(desc, dsl.DictOf) and getattr(desc, "total", False) and desc.key is dsl.Str:
                import json as _json
                kt, vt = self.elem_type(desc.key), self.elem_type(desc.value)
                default = self.from_python(model.get(f"{name}.default", 0))
                vals = z3.K(kt.sort, self.pack(default, vt))
                prefix = name + "["
                for key, value in model.items():
                    if key.startswith(prefix) and key.endswith("]") and not key.endswith("[]"):
                        text = StrV(s=_json.loads(key[len(prefix):-1]))
                        vals = z3.Store(vals, self.pack(text, kt), self.pack(self.from_python(value), vt))
                result = DictV(keys=self.seq_from_list([], kt), vals=vals, vt=vt)
                result.total = True
                return result
        if isinstance(desc, dsl.Opt):
            if self.ctx.decide(2) == 0:
                return NONE
            return self.fresh_resolved(desc.inner, name, is_input)
        if isinstance(desc, dsl.OneOf):
            return self.fresh_resolved(desc.alts[self.ctx.decide(len(desc.alts))], name, is_input)
        if isinstance(desc, dsl.ListOf):
            length = desc.lo + self.ctx.decide(desc.hi - desc.lo + 1)
            items = [self.fresh_resolved(desc.elem, f"{name}[{i}]", is_input) for i in range(length)]
            return TupleV(items) if desc.as_tuple else ListV(items)
        if isinstance(desc, dsl.DictEntries):
            size = desc.lo + self.ctx.decide(desc.hi - desc.lo + 1)
            keys = [self.fresh_resolved(desc.key, f"{name}.key[{i}]", is_input) for i in range(size)]
            for i in range(size):
                for j in range(i):
                    t = self.eq(keys[i], keys[j])
                    self.ctx.assume(z3.Not(t) if not isinstance(t, bool) else z3.BoolVal(not t))
            return DictV(entries=[(keys[i], self.fresh_resolved(desc.value, f"{name}.val[{i}]", is_input))
                                  for i in range(size)])
        if isinstance(desc, dsl.FiniteSet):
            size = desc.lo + self.ctx.decide(desc.hi - desc.lo + 1)
            items = [self.fresh_resolved(desc.elem, f"{name}{{{i}}}", is_input) for i in range(size)]
            for i in range(size):
                for j in range(i):
                    t = self.eq(items[i], items[j])
                    self.ctx.assume(z3.Not(t) if not isinstance(t, bool) else z3.BoolVal(not t))
            return SetV(items=[(item, z3.BoolVal(True)) for item in items])
        if isinstance(desc, dsl.Rec):
            fields = {fname: self.fresh_resolved(ftype, f"{name}.{fname}", is_input)
                      for fname, ftype in desc.fields.items()}
            return ObjV(desc.cls, fields)
        return self.fresh(desc, name, is_input)

    # ---- construction ---------------------------------------------------------------------------------------------
    def construct(self, klass: ClassV, args: list[V], kwargs: dict[str, V], line: int) -> V:
        name = klass.name
        if name in BUILTIN_EXC:
            return ObjV(name, {})
        info = self.class_info(name, getattr(klass, "module", None))
        if info is None:
            raise Unsupported(f"construction of unknown class {name}")
        if info.is_enum:
            raise Unsupported("enum lookup by value")
        obj = ObjV(name, {})
        if info.is_dataclass:
            self.dataclass_init(obj, info, args, kwargs, line)
            return obj
        init = self.find_method(name, "__init__")
        if init is None:
            if self.exc_is(name, "Exception") or self.exc_is(name, "BaseException"):
                return obj
            if args or kwargs:
                raise Unsupported(f"class {name} has no modelled __init__")
            return obj
        self.call_function(init, [obj] + args, kwargs, line)
        return obj

    def dataclass_init(self, obj: ObjV, info: Any, args: list[V], kwargs: dict[str, V], line: int) -> None:
        fields = []
        for cls in reversed(self.mro(info.name)):
            if cls.is_dataclass:
                for fname, default, annotation in cls.annotated:
                    fields = [f for f in fields if f[0] != fname]
                    fields.append((fname, default, annotation, cls))
        initvars = []
        kwargs = dict(kwargs)
        pos = 0
        for fname, default, annotation, cls in fields:
            ann = ast.unparse(annotation)
            is_initvar = "InitVar" in ann
            init = True
            factory = None
            if default is not None and isinstance(default, ast.Call) and "field" in ast.unparse(default.func):
                for kw in default.keywords:
                    if kw.arg == "init" and isinstance(kw.value, ast.Constant):
                        init = bool(kw.value.value)
                    if kw.arg == "default_factory":
                        factory = kw.value
                    if kw.arg == "default":
                        default = kw.value
                if factory is not None or not any(kw.arg == "default" for kw in default.keywords if isinstance(default, ast.Call)):
                    if isinstance(default, ast.Call):
                        default = None
            value: Optional[V] = None
            if init and fname in kwargs:
                value = kwargs.pop(fname)
            elif init and pos < len(args):
                value = args[pos]
                pos += 1
            elif factory is not None:
                value = self.call(self.eval(factory, Frame({}, cls.module)), [], {}, line)
            elif default is not None:
                value = self.eval(default, Frame({}, cls.module))
            else:
                raise PyExc("TypeError", f"missing dataclass field {fname}", line)
            if is_initvar:
                initvars.append(value)
            else:
                obj.fields[fname] = value
        if kwargs:
            raise PyExc("TypeError", f"unexpected dataclass arguments {sorted(kwargs)}", line)
        post = self.find_method(info.name, "__post_init__")
        if post is not None:
            self.call_function(post, [obj] + initvars, {}, line)
