"""Developer helper: python3-vt -m pyvc.devrun <ContractName> [...]"""
import importlib, json, os, pkgutil, sys
sys.path.insert(0, os.path.dirname(os.path.dirname(os.path.abspath(__file__))))
from pyvc import dsl
from pyvc.verify import verify_contract
import contracts
for m in pkgutil.iter_modules(contracts.__path__):
    if not m.name.startswith("_") and m.name != "native":
        importlib.import_module(f"contracts.{m.name}")
by_target = {c.target: c for c in dsl.CONTRACTS.values() if not getattr(c, "variant", False)}
models = [os.path.join(os.path.dirname(__file__), "models.py")]
repo = os.environ.get("VERIF_REPO", "/repo")
for name in sys.argv[1:]:
    con = dsl.CONTRACTS[name]
    res = verify_contract(repo, con, by_target, models, 10000)
    obs = res.pop("obligations")
    print(json.dumps(res, indent=1))
    from collections import Counter
    print(Counter((o["kind"], o["status"]) for o in obs))
    for o in obs:
        if o["status"] != "discharged":
            o.pop("smt2", None)
            if os.environ.get("DEV_SHORT"):
                print(o["status"], o["name"], str(o.get("detail", ""))[:int(os.environ["DEV_SHORT"])].replace("\n", " "))
            else:
                print(json.dumps(o))
