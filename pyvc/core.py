"""pyvc core: path exploration by re-execution, solver plumbing, obligations."""
from __future__ import annotations

import json
import time
from typing import Any, Callable, Optional

import z3

from .values import (BoolV, IntV, RealV, StrV, NoneV, NONE, TupleV, ListV, SeqV, SetV, DictV,
                     ObjV, V, StrSort, ElemType)


def has_quantifier(expr: Any) -> bool:
    """True when the term contains a quantifier or a lambda (kept out of the light solver)."""
    if not z3.is_expr(expr):
        return False
    seen: set[int] = set()
    todo = [expr]
    while todo:
        cur = todo.pop()
        key = cur.get_id()
        if key in seen:
            continue
        seen.add(key)
        if z3.is_quantifier(cur):
            return True
        todo.extend(cur.children())
    return False


class Unsupported(Exception):
    """The function left the supported subset: no obligation is generated, never a violation."""


class PyExc(Exception):
    """A Python exception raised by the symbolically executed code."""
    def __init__(self, etype: str, info: str = "", line: int = 0) -> None:
        super().__init__(etype, info)
        self.etype, self.info, self.line = etype, info, line


class PathPruned(Exception):
    """The current path condition is unsatisfiable (or the path was cut on purpose)."""


class Oblig:
    def __init__(self, name: str, kind: str, line: int) -> None:
        self.name, self.kind, self.line = name, kind, line
        self.status = "undecided"      # discharged | failed | undecided
        self.model: dict[str, Any] = {}
        self.seconds = 0.0
        self.backend = "z3"
        self.detail = ""
        self.input_only = True          # no havoc'd (loop / callee) symbols on the path
        self.smt2: Optional[str] = None

    def to_json(self) -> dict[str, Any]:
        return {"name": self.name, "kind": self.kind, "line": self.line, "status": self.status,
                "model": self.model, "seconds": round(self.seconds, 4), "backend": self.backend,
                "detail": self.detail, "input_only": self.input_only}


FEAS_TIMEOUT_MS = 1500
PROVE_TIMEOUT_MS = 10000


class Ctx:
    """State of one (function, configuration) verification task across all its paths."""

    def __init__(self, prove_timeout_ms: int = PROVE_TIMEOUT_MS) -> None:
        self.solver = z3.Solver()
        self.solver.set("timeout", FEAS_TIMEOUT_MS)
        self.light = z3.Solver()
        self.pc: list[Any] = []
        self.trace: list[list[int]] = []     # [choice, n_alternatives]
        self.pos = 0
        self.counter = 0
        self.spec_depth = 0
        self.quant_depth = 0
        self.quant_obligs: list[Any] = []
        self.quant_base = 0
        self.obligations: dict[tuple, Oblig] = {}
        self.site_counts: dict[str, int] = {}
        self.strlits: dict[str, Any] = {}
        self.str_preds: dict[tuple, Any] = {}
        self.input_symbols: dict[str, Any] = {}
        self.havoc_used = False
        self.prove_timeout_ms = prove_timeout_ms
        self.cross_check_every = 0      # keep the SMT2 text of every n-th discharged obligation (0: none)
        self.cross_check_kept = 0
        self.discharged_seen = 0
        self.solver_s = 0.0
        self.paths = 0
        self.name_prefix = ""
        self.assumptions_used: set[str] = set()
        self.inlined: set[str] = set()
        self.covers: list[tuple[str, bool]] = []
        self.datatypes: dict[str, ElemType] = {}
        self.axioms: list[Any] = []          # global axioms (string literal distinctness)
        self.deadline = 0.0
        self._axioms_added = 0
        self._ghost_added = 0
        self.ghost_axioms: list[Any] = []    # defining equations of ghost recurrences (per path)
        self.recur_done: dict[Any, set] = {}

    # ---- symbols --------------------------------------------------------------------------
    def fresh_name(self, hint: str) -> str:
        self.counter += 1
        return f"{hint}!{self.counter}"

    def strlit(self, text: str) -> Any:
        if text not in self.strlits:
            const = z3.Const(f"str:{text}", StrSort)
            for other in self.strlits.values():
                self.axioms.append(const != other)
            for (kind, affix), func in self.str_preds.items():
                self.axioms.append(func(const) == z3.BoolVal(getattr(text, kind)(affix)))
            self.strlits[text] = const
        return self.strlits[text]

    def str_pred(self, kind: str, affix: str, value: StrV) -> Any:
        """`value.startswith(affix)` / `.endswith(affix)` for an opaque string: an uninterpreted
        predicate per literal affix, functional in the string and exact on every string literal"""
        key = (kind, affix)
        if key not in self.str_preds:
            func = z3.Function(f"str.{kind}:{affix}", StrSort, z3.BoolSort())
            for text, const in self.strlits.items():
                self.axioms.append(func(const) == z3.BoolVal(getattr(text, kind)(affix)))
            self.str_preds[key] = func
        return self.str_preds[key](self.str_term(value))

    def str_term(self, value: StrV) -> Any:
        if value.t is not None:
            return value.t
        return self.strlit(value.s)

    # ---- path condition --------------------------------------------------------------------
    def reset_path(self) -> None:
        self.solver = z3.Solver()
        self.solver.set("timeout", FEAS_TIMEOUT_MS)
        # quantifier-free part of the path condition: used for feasibility (pruning) only; an
        # over-approximation there merely explores paths that the full solver later shows vacuous
        self.light = z3.Solver()
        self.light.set("timeout", FEAS_TIMEOUT_MS)
        self.pc = []
        self.pos = 0
        self.counter = 0
        self.site_counts = {}
        self.havoc_used = False
        self.input_symbols = {}
        self.spec_depth = 0
        self.quant_depth = 0
        self.quant_obligs = []
        self._axioms_added = 0
        self._ghost_added = 0
        self.ghost_axioms = []
        self.recur_done = {}

    def _sync_axioms(self) -> None:
        while self._axioms_added < len(self.axioms):
            self.solver.add(self.axioms[self._axioms_added])
            self.light.add(self.axioms[self._axioms_added])
            self._axioms_added += 1
        while self._ghost_added < len(self.ghost_axioms):
            fact = self.ghost_axioms[self._ghost_added]
            self.solver.add(fact)
            if not has_quantifier(fact):
                self.light.add(fact)
            self._ghost_added += 1

    def assume(self, cond: Any) -> None:
        cond = z3.simplify(cond) if z3.is_expr(cond) else z3.BoolVal(bool(cond))
        if z3.is_true(cond):
            return
        if z3.is_and(cond):
            for child in cond.children():
                self.assume(child)
            return
        self.pc.append(cond)
        self.solver.add(cond)
        if not has_quantifier(cond):
            self.light.add(cond)

    def _check(self, *extra: Any, timeout_ms: int = FEAS_TIMEOUT_MS) -> Any:
        self._sync_axioms()
        self.solver.set("timeout", timeout_ms)
        started = time.time()
        res = self.solver.check(*extra)
        self.solver_s += time.time() - started
        return res

    def feasible(self, cond: Any) -> bool:
        """False only when pc ∧ cond is definitely unsatisfiable (decided on the quantifier-free part)."""
        self._sync_axioms()
        if has_quantifier(cond):
            return self._check(cond) != z3.unsat
        started = time.time()
        res = self.light.check(cond)
        self.solver_s += time.time() - started
        return res != z3.unsat

    def decide(self, n_alternatives: int, feasible_fn: Optional[Callable[[int], bool]] = None) -> int:
        """n-way choice point recorded in the trace (depth-first by re-execution)."""
        if self.pos < len(self.trace):
            choice = self.trace[self.pos][0]
            self.pos += 1
            return choice
        choice = 0
        self.trace.append([choice, n_alternatives])
        self.pos += 1
        return choice

    def branch(self, cond: Any) -> bool:
        """Fork on a boolean term; prunes infeasible sides. Returns the side taken."""
        if isinstance(cond, bool):
            return cond
        cond = z3.simplify(cond)
        if z3.is_true(cond):
            return True
        if z3.is_false(cond):
            return False
        if self.deadline and time.time() > self.deadline:
            raise Unsupported("time budget of this contract exhausted (undecided, not a violation)")
        if self.pos < len(self.trace):
            choice, nalt = self.trace[self.pos]
            self.pos += 1
            # nalt == 1: forced side stored in choice as 0 (True) / 1 (False)
            side = choice == 0
            self.assume(cond if side else z3.Not(cond))
            return side
        can_true = self.feasible(cond)
        can_false = self.feasible(z3.Not(cond))
        if not can_true and not can_false:
            raise PathPruned()
        if can_true and can_false:
            self.trace.append([0, 2])
            self.pos += 1
            self.assume(cond)
            return True
        side = can_true
        # forced: single alternative, remember which (encoded so backtracking skips it)
        self.trace.append([0 if side else 1, 1 if side else 2])
        # for a forced False we store [1,2] which is already "last alternative"
        self.pos += 1
        self.assume(cond if side else z3.Not(cond))
        return side

    # ---- obligations ------------------------------------------------------------------------
    def site(self, label: str) -> str:
        count = self.site_counts.get(label, 0)
        self.site_counts[label] = count + 1
        return f"{label}#{count}" if count else label

    def prove(self, goal: Any, kind: str, line: int, label: str = "", assume_after: bool = True) -> Oblig:
        """Obligation pc ⇒ goal at this program point of this path."""
        if self.spec_depth:
            return Oblig("spec", kind, line)
        if self.quant_depth:
            if isinstance(goal, bool):
                goal = z3.BoolVal(goal)
            extra = self.pc[self.quant_base:]
            wrapped = z3.Implies(z3.And(extra), goal) if extra else goal
            self.quant_obligs.append((wrapped, kind, line, label))
            self.assume(goal)
            return Oblig("quant", kind, line)
        if isinstance(goal, bool):
            goal = z3.BoolVal(goal)
        goal = z3.simplify(goal)
        site = self.site(f"{kind}@{line}{(':' + label) if label else ''}")
        key = (tuple(c for c, _ in self.trace[:self.pos]), site)
        if key in self.obligations:
            ob = self.obligations[key]
        else:
            path_id = "".join(str(c) for c, _ in self.trace[:self.pos]) or "-"
            ob = Oblig(f"{self.name_prefix}/{site}[p{path_id}]", kind, line)
            ob.input_only = not self.havoc_used
            self.obligations[key] = ob
            if z3.is_true(goal):
                ob.status = "discharged"
                ob.backend = "trivial"
            else:
                started = time.time()
                # the solver's luck varies a lot on some queries (symbolic modulus: 0.7 s .. > 60 s by random seed):
                # several shorter attempts with different seeds before one long one
                budget = self.prove_timeout_ms
                attempts = [(budget, 0)] if budget < 20000 else [(budget // 4, 0), (budget // 4, 1), (budget // 4, 2)]
                attempts.append((budget, 3))
                if getattr(self, "single_attempt", False):
                    attempts = [(budget, 0)]
                res = z3.unknown
                for attempt_ms, seed in attempts:
                    self.solver.set("random_seed", seed)
                    res = self._check(z3.Not(goal), timeout_ms=attempt_ms)
                    if res != z3.unknown:
                        break
                self.solver.set("random_seed", 0)
                ob.seconds = time.time() - started
                if res == z3.unsat:
                    ob.status = "discharged"
                    # thorough tier: a sample of the discharged obligations is re-asked of the second solver
                    self.discharged_seen += 1
                    if self.cross_check_every and self.discharged_seen % self.cross_check_every == 1 \
                            and self.cross_check_kept < 25:
                        try:
                            tmp = z3.Solver()
                            tmp.add(*self.axioms)
                            tmp.add(*self.ghost_axioms)
                            tmp.add(*self.pc)
                            tmp.add(z3.Not(goal))
                            ob.smt2 = tmp.to_smt2()
                            self.cross_check_kept += 1
                        except Exception:  # pylint: disable=broad-except
                            ob.smt2 = None
                elif res == z3.sat:
                    ob.status = "failed"
                    ob.model = self.model_values()
                    ob.detail = f"goal: {str(goal)[:300]}"
                elif self._refute_small(goal, ob):
                    pass
                else:
                    ob.status = "undecided"
                    ob.detail = f"z3: {self.solver.reason_unknown()}"
                    try:
                        tmp = z3.Solver()
                        tmp.add(*self.axioms)
                        tmp.add(*self.ghost_axioms)
                        tmp.add(*self.pc)
                        tmp.add(z3.Not(goal))
                        ob.smt2 = tmp.to_smt2()
                    except Exception:  # pylint: disable=broad-except
                        ob.smt2 = None
        if assume_after and ob.status != "failed":
            self.assume(goal)
        elif assume_after:
            # continue the path as if it held, so later obligations are independent
            self.assume(goal)
        return ob

    def _refute_small(self, goal: Any, ob: Oblig) -> bool:
        """An obligation the solver left open is retried with every input sequence limited to two
        elements: a model found there is a genuine counterexample (a restriction of the inputs can
        only lose models); finding none decides nothing."""
        lengths = [term for name, term in self.input_symbols.items() if name.startswith("len(")]
        if not lengths:
            return False
        reason = self.solver.reason_unknown()
        started = time.time()
        res = self._check(z3.Not(goal), *[term <= 2 for term in lengths], timeout_ms=min(5000, self.prove_timeout_ms))
        ob.seconds += time.time() - started
        if res != z3.sat:
            self.solver.set("timeout", FEAS_TIMEOUT_MS)
            return False
        ob.status = "failed"
        ob.model = self.model_values()
        ob.detail = f"goal: {str(goal)[:300]} (open for z3 in general [{reason}]; refuted with input sequences of <= 2 elements)"
        return True

    def model_values(self) -> dict[str, Any]:
        try:
            model = self.solver.model()
        except z3.Z3Exception:
            return {}
        out: dict[str, Any] = {}
        self._decoded_strings: dict[str, Any] = {}
        for name, term in self.input_symbols.items():
            try:
                if name.endswith("[]") and z3.is_array(term) and f"len({name[:-2]})" in self.input_symbols:
                    # a symbolic input sequence: spell out its elements (records field by field)
                    length = model.eval(self.input_symbols[f"len({name[:-2]})"], model_completion=True)
                    if z3.is_int_value(length) and 0 <= length.as_long() <= 24:
                        for k in range(length.as_long()):
                            self._model_element(model, f"{name[:-2]}[{k}]",
                                                model.eval(z3.Select(term, k), model_completion=True), out)
                        continue
                val = model.eval(term, model_completion=True)
                if z3.is_int_value(val):
                    out[name] = val.as_long()
                elif z3.is_true(val) or z3.is_false(val):
                    out[name] = z3.is_true(val)
                elif z3.is_rational_value(val):
                    out[name] = float(val.numerator_as_long()) / float(val.denominator_as_long())
                elif val.sort() == StrSort:
                    out[name] = self._model_string(model, val)
                else:
                    out[name] = str(val)
            except Exception:  # pylint: disable=broad-except
                out[name] = "?"
        # value maps of symbolic dicts keyed by strings: spell out the entries of every string of the model
        for name, term in self.input_symbols.items():
            try:
                if name.endswith(".vals") and z3.is_array(term) and term.sort().domain() == StrSort:
                    base = name[:-5]
                    for text, sval in list(self._decoded_strings.items()):
                        self._model_element(model, f"{base}[{json.dumps(text)}]",
                                            model.eval(z3.Select(term, sval), model_completion=True), out)
                    other = z3.Const("str:!other", StrSort)
                    self._model_element(model, f"{base}.default",
                                        model.eval(z3.Select(term, other), model_completion=True), out)
            except Exception:  # pylint: disable=broad-except
                pass
        return out

    def _model_element(self, model: Any, name: str, val: Any, out: dict[str, Any]) -> None:
        for et in self.datatypes.values():
            if et.kind == "rec" and et.sort == val.sort():
                for fname, accessor in et.accessors.items():
                    self._model_element(model, f"{name}.{fname}", model.eval(accessor(val), model_completion=True), out)
                return
        if z3.is_int_value(val):
            out[name] = val.as_long()
        elif z3.is_true(val) or z3.is_false(val):
            out[name] = z3.is_true(val)
        elif z3.is_rational_value(val):
            out[name] = float(val.numerator_as_long()) / float(val.denominator_as_long())
        elif val.sort() == StrSort:
            out[name] = self._model_string(model, val)
        else:
            out[name] = str(val)

    def _model_string(self, model: Any, val: Any) -> str:
        """A Python string for an abstract string value: the literal it equals, or a fresh token
        carrying the affixes the model's startswith/endswith predicates require"""
        for text, const in self.strlits.items():
            if model.eval(const, model_completion=True).eq(val):
                self._decoded_strings[text] = val
                return text
        pre = suf = ""
        for (kind, affix), func in self.str_preds.items():
            if z3.is_true(model.eval(func(val), model_completion=True)):
                if kind == "startswith" and len(affix) > len(pre):
                    pre = affix
                elif kind == "endswith" and len(affix) > len(suf):
                    suf = affix
        text = pre + "~" + str(val).rsplit("!", 1)[-1] + "~" + suf
        self._decoded_strings[text] = val
        return text

    def cover(self, label: str) -> None:
        """Vacuity guard: the current path condition must be satisfiable."""
        res = self._check()
        self.covers.append((label, res != z3.unsat))


def explore(ctx: Ctx, run_path: Callable[[], Any], max_paths: int = 4000) -> list[Any]:
    """Depth-first enumeration of paths by re-execution. run_path returns an outcome object."""
    outcomes = []
    ctx.trace = []
    while True:
        ctx.reset_path()
        try:
            outcome = run_path()
            outcomes.append(outcome)
        except PathPruned:
            pass
        ctx.paths += 1
        if ctx.paths > max_paths:
            raise Unsupported(f"more than {max_paths} paths")
        # backtrack: drop exhausted choice points, advance the last open one
        trace = ctx.trace[:ctx.pos] if ctx.pos < len(ctx.trace) else ctx.trace
        while trace and trace[-1][0] >= trace[-1][1] - 1:
            trace.pop()
        if not trace:
            return outcomes
        trace[-1][0] += 1
        ctx.trace = trace


def sub_explore(ctx: Ctx, thunk: Callable[[], Any], max_paths: int = 600) -> list[tuple[list[Any], Any]]:
    """Nested exploration for pure (spec) evaluation: returns [(extra path conds, value)]."""
    saved_trace, saved_pos = ctx.trace, ctx.pos
    base = len(ctx.pc)
    results: list[tuple[list[Any], Any]] = []
    sub_trace: list[list[int]] = []
    count = 0
    try:
        while True:
            ctx.trace, ctx.pos = sub_trace, 0
            ctx._sync_axioms()
            added = (ctx._axioms_added, ctx._ghost_added)
            ctx.solver.push()
            ctx.light.push()
            try:
                value = thunk()
                results.append((list(ctx.pc[base:]), value))
            except PathPruned:
                pass
            finally:
                del ctx.pc[base:]
                ctx.solver.pop()
                ctx.light.pop()
                ctx._axioms_added, ctx._ghost_added = added
            count += 1
            if count > max_paths:
                raise Unsupported("spec evaluation: too many paths")
            trace = ctx.trace[:ctx.pos] if ctx.pos < len(ctx.trace) else ctx.trace
            while trace and trace[-1][0] >= trace[-1][1] - 1:
                trace.pop()
            if not trace:
                break
            trace[-1][0] += 1
            sub_trace = trace
    finally:
        ctx.trace, ctx.pos = saved_trace, saved_pos
    return results
