"""CPython cross-check of the pyvc translator (DESIGN §2.8): for every contract whose arguments can be
rebuilt natively, random concrete inputs are (1) run on the REAL function under /venv/bin/python with the
contract evaluated natively and (2) executed by pyvc with the same concrete values. Outcome kind
(return / raise T) and the truth of the contract must agree. A disagreement means the engine (or a model
class) does not implement Python's semantics: checker error, never a verdict.

usage: python3-vt -m pyvc.crosscheck [n_per_contract] [contract ...]"""
from __future__ import annotations

import json
import os
import random
import subprocess
import sys

VERIF = os.path.dirname(os.path.dirname(os.path.abspath(__file__)))
sys.path.insert(0, VERIF)

from pyvc import dsl  # noqa: E402
from pyvc.driver import MODELS, VENV_PY, load_contracts  # noqa: E402


def gen_model(desc, name, rng, out, small=12):
    leaf = name.rsplit(".", 1)[-1]
    if desc is dsl.Int and leaf == "strand":
        out[name] = rng.choice([1, 1, -1, -1, 0])
    elif desc is dsl.Int and leaf in ("wrap_point", "length", "record_length", "circular_origin"):
        out[name] = rng.randint(24, 40)
    elif desc is dsl.Int and leaf in ("offset", "cutoff", "minimum_length", "distance"):
        out[name] = rng.randint(-3, 25)
    elif desc is dsl.Str and leaf == "seq":
        out[name] = "".join(rng.choice("ATGATGTAACC") for _ in range(rng.randint(0, 30)))
    elif isinstance(desc, dsl.Rec) and any(f.endswith("start") for f in desc.fields) \
            and any(f.endswith("end") for f in desc.fields):
        lo = rng.randint(0, 20)
        hi = lo + rng.randint(1, 9) if rng.random() < 0.93 else lo - rng.randint(0, 2)
        for fname, ftype in desc.fields.items():
            if ftype is dsl.Int and fname.endswith("start"):
                out[f"{name}.{fname}"] = lo + (rng.randint(0, 2) if fname != "start" and not fname.endswith("query_start") and fname != "hit_start" else 0)
            elif ftype is dsl.Int and fname.endswith("end"):
                out[f"{name}.{fname}"] = hi
            else:
                gen_model(ftype, f"{name}.{fname}", rng, out, small)
    elif desc is dsl.Int:
        out[name] = rng.randint(-2, small)
    elif desc is dsl.Bool:
        out[name] = rng.random() < 0.5
    elif desc is dsl.Real:
        out[name] = rng.randint(0, 40) / 4.0
    elif desc is dsl.Str:
        out[name] = rng.choice(["a", "b", "c"])
    elif isinstance(desc, dsl.Const):
        pass
    elif isinstance(desc, dsl.Opt):
        if rng.random() < 0.6:
            gen_model(desc.inner, name, rng, out, small)
    elif isinstance(desc, dsl.OneOf):
        gen_model(rng.choice(desc.alts), name, rng, out, small)
    elif isinstance(desc, dsl.ListOf):
        for i in range(rng.randint(desc.lo, desc.hi)):
            gen_model(desc.elem, f"{name}[{i}]", rng, out, small)
    elif isinstance(desc, dsl.SeqOf):
        length = rng.randint(0, 3)
        out[f"len({name})"] = length
        for i in range(length):
            gen_model(desc.elem, f"{name}[{i}]", rng, out, small)
    elif isinstance(desc, dsl.DictOf) and getattr(desc, "total", False) and desc.key is dsl.Str and desc.value is dsl.Int:
        for key in ("a", "b", "c", "s"):
            out[f'{name}[{json.dumps(key)}]'] = rng.randint(1, 30)
        out[f"{name}.default"] = rng.randint(1, 30)
    elif isinstance(desc, dsl.Rec):
        for fname, ftype in desc.fields.items():
            gen_model(ftype, f"{name}.{fname}", rng, out, small)
    else:
        raise KeyError(f"no native generator for {desc!r}")


def eligible(con) -> bool:
    if con.__dict__.get("derived") or con.__dict__.get("ghost_params") or con.__dict__.get("no_crosscheck") \
            or con.__dict__.get("stubs") or con.__dict__.get("on_raise"):
        return False   # abstract worlds / external callees / file-system effects: never run natively here
    if con.__dict__.get("loops") and (con.__dict__.get("known") or any(
            d is dsl.Str for d in (con.__dict__.get("params") or {}).values())):
        return False   # loops over strings / split known classes: not compared here
    try:
        rng = random.Random(1)
        for name, desc in (con.__dict__.get("params") or {}).items():
            gen_model(desc, name, rng, {})
        return True
    except KeyError:
        return False


def native_outcomes(repo, cname, models):
    env = dict(os.environ)
    env["PYTHONPATH"] = os.pathsep.join([repo, VERIF, env.get("PYTHONPATH", "")])
    env["PYTHONDONTWRITEBYTECODE"] = "1"
    proc = subprocess.run([VENV_PY, "-m", "pyvc.native_replay", "--batch"], cwd=VERIF, env=env,
                          input=json.dumps({"contract": cname, "models": models}), capture_output=True, text=True,
                          timeout=600, check=False)
    try:
        return json.loads(proc.stdout.strip().splitlines()[-1])
    except (ValueError, IndexError):
        return {"error": (proc.stdout + proc.stderr)[-2000:]}


def main() -> int:
    from pyvc.verify import verify_contract
    repo = os.environ.get("VERIF_REPO", "/repo")
    count = int(sys.argv[1]) if len(sys.argv) > 1 else 200
    wanted = sys.argv[2:]
    contracts = load_contracts()
    by_target = {c.target: c for c in contracts.values() if not c.__dict__.get("variant", False)}
    report = {"contracts": {}, "disagreements": [], "compared": 0}
    for cname, con in sorted(contracts.items()):
        if wanted and cname not in wanted:
            continue
        if not eligible(con):
            continue
        rng = random.Random(hash(cname) % 100000)
        models = []
        for _ in range(count):
            model = {}
            for name, desc in con.params.items():
                gen_model(desc, name, rng, model)
            models.append(model)
        native = native_outcomes(repo, cname, models)
        if "error" in native:
            report["contracts"][cname] = {"error": native["error"][-400:]}
            continue
        compared = 0
        for model, nat in zip(models, native["outcomes"]):
            if nat["status"] in ("precondition-false", "unbuildable", "error"):
                continue
            if compared >= 25:
                break
            # contracts with loop invariants are executed with their loops run as they are (search mode): this
            # cross-checks the translator on loops, appends and comprehensions as well
            res = verify_contract(repo, con, by_target, MODELS, 5000, concrete_model=model,
                                  mode="small" if con.__dict__.get("loops") else "main")
            if res["out_of_subset"] or res.get("engine_error"):
                report["contracts"].setdefault(cname, {})["engine"] = (res["out_of_subset"] or res.get("engine_error"))[:300]
                break
            compared += 1
            failed = [o for o in res["obligations"] if o["status"] == "failed"]
            undecided = [o for o in res["obligations"] if o["status"] == "undecided"]
            engine_kinds = sorted(res["outcomes"])
            engine_ok = not failed
            native_ok = nat["status"] == "ok"
            native_kind = nat.get("outcome", "?")
            kind_agrees = any(k == native_kind or (k.startswith("raise") and native_kind.startswith("raise")
                                                   and k.split()[-1] in nat.get("mro", [])) for k in engine_kinds)
            if undecided:
                continue
            if engine_ok != native_ok or not kind_agrees:
                report["disagreements"].append({"contract": cname, "model": model, "native": nat,
                                                "engine_outcomes": engine_kinds,
                                                "engine_failed": [o["name"] for o in failed][:3]})
        report["contracts"].setdefault(cname, {})["compared"] = compared
        report["compared"] += compared
    print(json.dumps(report, indent=1))
    return 1 if report["disagreements"] else 0


if __name__ == "__main__":
    sys.exit(main())
