"""Loads the REAL sources of /repo on every run (no cache between runs) and the model classes.

World = set of parsed modules. Each module gives: top-level functions, classes (with methods,
class constants, bases, decorators), module constants (literal-evaluated lazily by the engine),
import aliases. Functions are addressed as "<repo-relative file>::<qualname>".
"""
from __future__ import annotations

import ast
import hashlib
import os
from typing import Any, Optional


class ClassInfo:
    def __init__(self, name: str, module: str, node: ast.ClassDef, bases: list[str]) -> None:
        self.name, self.module, self.node, self.bases = name, module, node, bases
        self.methods: dict[str, ast.FunctionDef] = {}
        self.props: dict[str, ast.FunctionDef] = {}
        self.setters: dict[str, ast.FunctionDef] = {}
        self.classmethods: set[str] = set()
        self.staticmethods: set[str] = set()
        self.consts: dict[str, ast.expr] = {}
        self.annotated: list[tuple[str, Optional[ast.expr], ast.expr]] = []  # dataclass fields
        self.is_dataclass = False
        self.dataclass_kw: dict[str, Any] = {}
        self.is_enum = False
        self.is_int_enum = False
        for dec in node.decorator_list:
            text = ast.unparse(dec)
            if "dataclass" in text:
                self.is_dataclass = True
        for item in node.body:
            if isinstance(item, ast.FunctionDef):
                decs = [ast.unparse(d) for d in item.decorator_list]
                if "property" in decs:
                    self.props[item.name] = item
                elif any(d.endswith(".setter") for d in decs):
                    self.setters[item.name] = item
                else:
                    self.methods[item.name] = item
                    if "classmethod" in decs:
                        self.classmethods.add(item.name)
                    if "staticmethod" in decs:
                        self.staticmethods.add(item.name)
            elif isinstance(item, ast.Assign) and len(item.targets) == 1 \
                    and isinstance(item.targets[0], ast.Name):
                self.consts[item.targets[0].id] = item.value
            elif isinstance(item, ast.AnnAssign) and isinstance(item.target, ast.Name):
                self.annotated.append((item.target.id, item.value, item.annotation))
                if item.value is not None:
                    self.consts[item.target.id] = item.value


class ModuleInfo:
    def __init__(self, path: str, relname: str, source: str) -> None:
        self.path, self.relname, self.source = path, relname, source
        self.tree = ast.parse(source)
        self.functions: dict[str, ast.FunctionDef] = {}
        self.classes: dict[str, ClassInfo] = {}
        self.consts: dict[str, ast.expr] = {}
        self.aliases: dict[str, str] = {}      # local name -> imported original name
        self.import_modules: dict[str, str] = {}  # local name -> module name
        self.alias_modules: dict[str, tuple] = {}  # local name -> (module, level)
        for item in self.tree.body:
            if isinstance(item, ast.FunctionDef):
                self.functions[item.name] = item
            elif isinstance(item, ast.ClassDef):
                bases = []
                for base in item.bases:
                    if isinstance(base, ast.Name):
                        bases.append(base.id)
                    elif isinstance(base, ast.Attribute):
                        bases.append(base.attr)
                    elif isinstance(base, ast.Subscript) and isinstance(base.value, ast.Name):
                        bases.append(base.value.id)
                info = ClassInfo(item.name, relname, item, bases)
                info.is_enum = any(b in ("Enum", "IntEnum") for b in bases)
                info.is_int_enum = "IntEnum" in bases
                self.classes[item.name] = info
            elif isinstance(item, ast.Assign) and len(item.targets) == 1 \
                    and isinstance(item.targets[0], ast.Name):
                self.consts[item.targets[0].id] = item.value
            elif isinstance(item, ast.AnnAssign) and isinstance(item.target, ast.Name) and item.value:
                self.consts[item.target.id] = item.value
            elif isinstance(item, ast.ImportFrom):
                for alias in item.names:
                    self.aliases[alias.asname or alias.name] = alias.name
                    self.alias_modules[alias.asname or alias.name] = (item.module, item.level)
            elif isinstance(item, ast.Import):
                for alias in item.names:
                    self.import_modules[alias.asname or alias.name.split(".")[0]] = alias.name

    def find(self, qualname: str) -> tuple[ast.FunctionDef, Optional[str]]:
        """Returns (function node, owner class name or None)."""
        parts = qualname.split(".")
        if len(parts) == 1:
            if parts[0] in self.functions:
                return self.functions[parts[0]], None
            raise KeyError(qualname)
        cls = self.classes[parts[0]]
        name = parts[1]
        kind = parts[2] if len(parts) > 2 else None
        if kind == "setter":
            return cls.setters[name], cls.name
        for table in (cls.methods, cls.props):
            if name in table:
                return table[name], cls.name
        raise KeyError(qualname)


class World:
    """All modules visible to one verification run."""

    def __init__(self, repo: str, model_paths: list[str]) -> None:
        self.repo = repo
        self.modules: dict[str, ModuleInfo] = {}
        self.models: list[ModuleInfo] = []
        self._class_index = None
        for path in model_paths:
            with open(path, encoding="utf-8") as handle:
                self.models.append(ModuleInfo(path, "model:" + os.path.basename(path), handle.read()))

    def load(self, relname: str) -> ModuleInfo:
        if relname not in self.modules:
            path = os.path.join(self.repo, relname)
            with open(path, encoding="utf-8") as handle:
                self.modules[relname] = ModuleInfo(path, relname, handle.read())
        return self.modules[relname]

    def resolve_import_path(self, mod: "ModuleInfo", module: Optional[str], level: int) -> Optional[str]:
        """Repo-relative file for an import seen in `mod`, or None when outside /repo."""
        if mod.relname.startswith(("sidecar:", "model:")):
            return None
        if level:
            base = os.path.dirname(mod.relname)
            for _ in range(level - 1):
                base = os.path.dirname(base)
            parts = base.split("/") if base else []
        else:
            parts = []
        if module:
            parts = parts + module.split(".")
        cand = "/".join(parts)
        for rel in (cand + ".py", cand + "/__init__.py"):
            if os.path.isfile(os.path.join(self.repo, rel)):
                return rel
        return None

    def load_sidecar(self, path: str, relname: str) -> ModuleInfo:
        if relname not in self.modules:
            with open(path, encoding="utf-8") as handle:
                self.modules[relname] = ModuleInfo(path, relname, handle.read())
        return self.modules[relname]

    def all_modules(self) -> list[ModuleInfo]:
        return list(self.modules.values()) + self.models

    def find_class(self, name: str, prefer: Optional[str] = None) -> Optional[ClassInfo]:
        """Class by simple name: the preferred module first, then repo modules, then models."""
        if prefer and prefer in self.modules and name in self.modules[prefer].classes:
            return self.modules[prefer].classes[name]
        hits = [m.classes[name] for m in self.modules.values()
                if name in m.classes and not m.relname.startswith("sidecar:")]
        if len(hits) == 1:
            return hits[0]
        if len(hits) > 1:
            # same simple name in several loaded files: ambiguous unless preferred
            raise KeyError(f"ambiguous class {name}: {[h.module for h in hits]}")
        for model in self.models:
            if name in model.classes:
                return model.classes[name]
        # not loaded yet: consult the index of class definitions of the repository
        index = self.class_index()
        files = [f for f in index.get(name, []) if "/test" not in f]
        if prefer and prefer in files:
            files = [prefer]
        if len(files) == 1:
            return self.load(files[0]).classes.get(name)
        if len(files) > 1:
            raise KeyError(f"ambiguous class {name}: {files}")
        return None

    def class_index(self) -> dict[str, list[str]]:
        if self._class_index is None:
            import re
            self._class_index = {}
            pattern = re.compile(r"^class (\w+)", re.M)
            base = os.path.join(self.repo, "antismash")
            for root, _dirs, files in os.walk(base):
                for fname in files:
                    if not fname.endswith(".py"):
                        continue
                    path = os.path.join(root, fname)
                    try:
                        with open(path, encoding="utf-8") as handle:
                            text = handle.read()
                    except OSError:
                        continue
                    rel = os.path.relpath(path, self.repo)
                    for match in pattern.finditer(text):
                        self._class_index.setdefault(match.group(1), []).append(rel)
        return self._class_index

    def find_function(self, name: str, prefer: Optional[str] = None) -> Optional[tuple[ModuleInfo, ast.FunctionDef]]:
        if prefer and prefer in self.modules and name in self.modules[prefer].functions:
            return self.modules[prefer], self.modules[prefer].functions[name]
        hits = [(m, m.functions[name]) for m in self.modules.values()
                if name in m.functions and not m.relname.startswith("sidecar:")]
        if len(hits) == 1:
            return hits[0]
        if len(hits) > 1:
            raise KeyError(f"ambiguous function {name}: {[h[0].relname for h in hits]}")
        for model in self.models:
            if name in model.functions:
                return model, model.functions[name]
        return None

    def mro(self, name: str, prefer: Optional[str] = None) -> list[ClassInfo]:
        """C3 linearisation over the classes known to the world (unknown bases are skipped)."""
        def lin(cls: ClassInfo) -> list[ClassInfo]:
            parents = [self.find_class(b, cls.module) for b in cls.bases]
            parents = [p for p in parents if p is not None]
            seqs = [lin(p) for p in parents] + [list(parents)]
            result = [cls]
            while True:
                seqs = [s for s in seqs if s]
                if not seqs:
                    return result
                for seq in seqs:
                    cand = seq[0]
                    if not any(cand in s[1:] for s in seqs):
                        break
                else:
                    raise TypeError(f"inconsistent MRO for {cls.name}")
                result.append(cand)
                for seq in seqs:
                    if seq and seq[0] is cand:
                        del seq[0]
        cls = self.find_class(name, prefer)
        if cls is None:
            return []
        return lin(cls)

    def is_subclass(self, name: str, base: str) -> bool:
        if name == base:
            return True
        try:
            return any(c.name == base for c in self.mro(name))
        except KeyError:
            return False


def function_digest(node: ast.AST) -> str:
    return hashlib.sha256(ast.dump(node, include_attributes=False).encode()).hexdigest()[:16]


def loops_of(node: ast.FunctionDef) -> list[ast.AST]:
    """for/while loops of a function in source order (nested defs excluded: they get their own)."""
    found: list[ast.AST] = []

    def visit(n: ast.AST) -> None:
        for child in ast.iter_child_nodes(n):
            if isinstance(child, (ast.FunctionDef, ast.Lambda, ast.ClassDef)):
                visit_nested(child)
                continue
            if isinstance(child, (ast.For, ast.While)):
                found.append(child)
            visit(child)

    def visit_nested(n: ast.AST) -> None:
        # loops inside nested defs are numbered after being reached in source order too
        for child in ast.iter_child_nodes(n):
            if isinstance(child, (ast.For, ast.While)):
                found.append(child)
            if isinstance(child, (ast.FunctionDef, ast.Lambda, ast.ClassDef)):
                visit_nested(child)
            else:
                visit(child)
    visit(node)
    found.sort(key=lambda n: (n.lineno, n.col_offset))
    # de-duplicate (visit + visit_nested can both reach a node)
    unique: list[ast.AST] = []
    for loop in found:
        if not any(loop is u for u in unique):
            unique.append(loop)
    return unique
