"""Primitive operations on symbolic values (Python semantics for the supported subset)."""
from __future__ import annotations

from typing import Any, Optional

import z3

from . import dsl
from .core import Ctx, PyExc, Unsupported, PathPruned
from .values import (RefV, BoolV, IntV, RealV, StrV, NoneV, NONE, TupleV, ListV, SeqV, SetV, DictV, ObjV,
                     ClassV, FuncV, BoundV, BuiltinV, RangeV, V, StrSort, ElemType)


def conc_int(v: V) -> Optional[int]:
    if isinstance(v, IntV):
        t = z3.simplify(v.t)
        if z3.is_int_value(t):
            return t.as_long()
    if isinstance(v, BoolV):
        t = z3.simplify(v.t)
        if z3.is_true(t):
            return 1
        if z3.is_false(t):
            return 0
    return None


def conc_bool(t: Any) -> Optional[bool]:
    if isinstance(t, bool):
        return t
    t = z3.simplify(t)
    if z3.is_true(t):
        return True
    if z3.is_false(t):
        return False
    return None


def as_int_term(v: V) -> Any:
    if isinstance(v, IntV):
        return v.t
    if isinstance(v, BoolV):
        return z3.If(v.t, z3.IntVal(1), z3.IntVal(0))
    raise Unsupported(f"expected int, got {v!r}")


def as_num_term(v: V) -> Any:
    if isinstance(v, RealV):
        return v.t
    return as_int_term(v)


def is_num(v: V) -> bool:
    return isinstance(v, (IntV, BoolV, RealV))


def mk(term: Any) -> V:
    """Wrap a z3 term by sort."""
    sort = term.sort()
    if sort == z3.IntSort():
        return IntV(z3.simplify(term))
    if sort == z3.BoolSort():
        return BoolV(z3.simplify(term))
    if sort == z3.RealSort():
        return RealV(z3.simplify(term))
    if sort == StrSort:
        return StrV(t=term)
    raise Unsupported(f"cannot wrap term of sort {sort}")


class Ops:
    """Mixin with value-level semantics; needs self.ctx (Ctx) and self.world."""
    ctx: Ctx

    # ---- element types / packing ------------------------------------------------------------
    def elem_type(self, desc: Any) -> ElemType:
        if desc is dsl.Int:
            return ElemType(z3.IntSort(), "int")
        if desc is dsl.Bool:
            return ElemType(z3.BoolSort(), "bool")
        if desc is dsl.Real:
            return ElemType(z3.RealSort(), "real")
        if desc is dsl.Str:
            return ElemType(StrSort, "str")
        if isinstance(desc, dsl.Rec):
            key = desc.label
            if key not in self.ctx.datatypes:
                dt = z3.Datatype(f"Rec_{key}")
                fields = []
                for fname, ftype in desc.fields.items():
                    fet = self.elem_type(ftype)
                    fields.append((fname, fet.sort))
                dt.declare("mk", *fields)
                sort = dt.create()
                accessors = {fname: getattr(sort, fname) for fname in desc.fields}
                self.ctx.datatypes[key] = ElemType(sort, "rec", rec=desc, accessors=accessors,
                                                   constructor=sort.mk)
            return self.ctx.datatypes[key]
        if isinstance(desc, dsl.TupleOf):
            key = f"tuple:{desc!r}"
            if key not in self.ctx.datatypes:
                dt = z3.Datatype(f"Tup_{len(self.ctx.datatypes)}")
                ets = [self.elem_type(e) for e in desc.elems]
                dt.declare("mk", *[(f"_{i}", et.sort) for i, et in enumerate(ets)])
                sort = dt.create()
                self.ctx.datatypes[key] = ElemType(sort, "tuple", rec=desc, constructor=sort.mk,
                                                   accessors={i: (getattr(sort, f"_{i}"), et) for i, et in enumerate(ets)})
            return self.ctx.datatypes[key]
        if isinstance(desc, dsl.Union):
            key = f"union:{desc!r}"
            if key not in self.ctx.datatypes:
                dt = z3.Datatype(f"Union_{len(self.ctx.datatypes)}")
                ets = [self.elem_type(a) for a in desc.alts]
                for i, et in enumerate(ets):
                    dt.declare(f"alt{i}", (f"payload{i}", et.sort))
                sort = dt.create()
                self.ctx.datatypes[key] = ElemType(sort, "union", rec=desc, accessors={
                    i: (getattr(sort, f"alt{i}"), getattr(sort, f"is_alt{i}"), getattr(sort, f"payload{i}"), et)
                    for i, et in enumerate(ets)})
            return self.ctx.datatypes[key]
        if isinstance(desc, dsl.ListOf) and desc.lo == desc.hi:
            key = f"fixedlist:{desc!r}"
            if key not in self.ctx.datatypes:
                dt = z3.Datatype(f"Fixed_{len(self.ctx.datatypes)}")
                et = self.elem_type(desc.elem)
                dt.declare("mk", *[(f"_{i}", et.sort) for i in range(desc.lo)])
                sort = dt.create()
                self.ctx.datatypes[key] = ElemType(sort, "fixedlist", rec=desc, constructor=sort.mk,
                                                   accessors={i: (getattr(sort, f"_{i}"), et) for i in range(desc.lo)})
            return self.ctx.datatypes[key]
        if isinstance(desc, dsl.Const):
            return ElemType(z3.BoolSort(), "const", rec=desc)
        if isinstance(desc, dsl.SeqOf):
            key = f"seq:{desc.elem!r}"
            if key not in self.ctx.datatypes:
                self.ctx.datatypes[key] = ElemType(z3.DeclareSort(f"SeqRef_{len(self.ctx.datatypes)}"), "seq", rec=desc)
            return self.ctx.datatypes[key]
        if isinstance(desc, dsl.SetOf):
            inner = self.elem_type(desc.elem)
            return ElemType(z3.ArraySort(inner.sort, z3.BoolSort()), "set", rec=desc, accessors={"inner": inner})
        if isinstance(desc, dsl.Ref):
            key = f"ref:{desc.cls}"
            if key not in self.ctx.datatypes:
                self.ctx.datatypes[key] = ElemType(z3.DeclareSort(f"Ref_{desc.cls}"), "ref", rec=desc)
            et = self.ctx.datatypes[key]
            if et.rec is not desc:
                et = ElemType(et.sort, "ref", rec=desc)
            return et
        if isinstance(desc, dsl.Opt):
            inner = self.elem_type(desc.inner)
            return ElemType(inner.sort, "opt", rec=desc, accessors={"inner": inner})
        if isinstance(desc, dsl.DictOf):
            key = f"dict:{desc.key!r}:{desc.value!r}"
            if key not in self.ctx.datatypes:
                self.ctx.datatypes[key] = ElemType(z3.DeclareSort(f"DictRef_{len(self.ctx.datatypes)}"), "dict", rec=desc)
            return self.ctx.datatypes[key]
        raise Unsupported(f"no element encoding for {desc!r}")

    def unpack(self, term: Any, et: ElemType) -> V:
        if et.kind == "tuple":
            return TupleV([self.unpack(acc(term), sub) for _, (acc, sub) in sorted(et.accessors.items())])
        if et.kind == "fixedlist":
            return ListV([self.unpack(acc(term), sub) for _, (acc, sub) in sorted(et.accessors.items())])
        if et.kind == "const":
            return self.from_python(et.rec.value)
        if et.kind == "set":
            return SetV(arr=term, et=et.accessors["inner"])
        if et.kind == "seq":
            return self.ref_field(term, f"seq<{et.rec.elem!r}>", et.rec)
        if et.kind == "union":
            last = max(et.accessors)
            for i, (_mk, is_alt, payload, sub) in sorted(et.accessors.items()):
                if i == last or self.ctx.branch(is_alt(term)):
                    if i == last:
                        self.ctx.assume(is_alt(term))
                    return self.unpack(payload(term), sub)
        if et.kind == "ref":
            return RefV(term, et.rec)
        if et.kind == "dict":
            return self.ref_field(term, f"dict<{et.rec.key!r},{et.rec.value!r}>", et.rec)
        if et.kind == "opt":
            flag = z3.Function(f"isnone:{et.sort}", et.sort, z3.BoolSort())
            if self.ctx.branch(flag(term)):
                return NONE
            return self.unpack(term, et.accessors["inner"])
        if et.kind == "rec":
            fields = {}
            for fname, ftype in et.rec.fields.items():
                sub = et.accessors[fname](term)
                fields[fname] = self.unpack(sub, self.elem_type(ftype))
            obj = ObjV(et.rec.cls, fields)
            return obj
        return mk(term)

    def pack(self, value: V, et: ElemType) -> Any:
        if et.kind == "tuple":
            if not isinstance(value, (TupleV, ListV)) or len(value.items) != len(et.accessors):
                raise Unsupported(f"expected {len(et.accessors)}-tuple element, got {value!r}")
            return et.constructor(*[self.pack(v, et.accessors[i][1]) for i, v in enumerate(value.items)])
        if et.kind == "fixedlist":
            if not isinstance(value, (TupleV, ListV)) or len(value.items) != len(et.accessors):
                raise Unsupported(f"expected list of {len(et.accessors)} elements, got {value!r}")
            return et.constructor(*[self.pack(v, et.accessors[i][1]) for i, v in enumerate(value.items)])
        if et.kind == "const":
            return z3.BoolVal(True)
        if et.kind == "set":
            if not isinstance(value, SetV):
                raise Unsupported(f"expected set, got {value!r}")
            return self.set_to_array(value, et.accessors["inner"])
        if et.kind == "union":
            for i, (mk_alt, _is, _payload, sub) in sorted(et.accessors.items()):
                if isinstance(value, ObjV) and sub.kind == "rec" and sub.rec.cls == value.cls:
                    return mk_alt(self.pack(value, sub))
            raise Unsupported(f"value {value!r} matches no alternative of {et.rec!r}")
        if et.kind == "ref":
            if not isinstance(value, RefV):
                if getattr(et.rec, "abstract", False):
                    # content abstracted away: an arbitrary object of that class
                    return z3.Const(self.ctx.fresh_name(f"abs_{et.rec.cls}"), et.sort)
                raise Unsupported(f"expected opaque object, got {value!r}")
            return value.t
        if et.kind == "opt":
            if isinstance(value, NoneV):
                raise Unsupported("storing None into an optional-element container")
            return self.pack(value, et.accessors["inner"])
        if et.kind == "int":
            return as_int_term(value)
        if et.kind == "bool":
            return self.truth(value) if not isinstance(value, BoolV) else value.t
        if et.kind == "real":
            t = as_num_term(value)
            return z3.ToReal(t) if t.sort() == z3.IntSort() else t
        if et.kind == "str":
            if not isinstance(value, StrV):
                raise Unsupported(f"expected str element, got {value!r}")
            return self.ctx.str_term(value)
        if et.kind == "rec":
            if not isinstance(value, ObjV):
                raise Unsupported(f"expected {et.rec.label} element, got {value!r}")
            if not self.world.is_subclass(value.cls, et.rec.cls) and value.cls != et.rec.cls:
                raise Unsupported(f"element class {value.cls} is not {et.rec.cls}")
            args = []
            for fname, ftype in et.rec.fields.items():
                fval = value.fields.get(fname)
                if fval is None:
                    fval = self.getattr(value, fname)
                args.append(self.pack(fval, self.elem_type(ftype)))
            return et.constructor(*args)
        raise Unsupported(f"pack {et!r}")

    # ---- fresh values from descriptors --------------------------------------------------------
    def fresh(self, desc: Any, name: str, is_input: bool = False) -> V:
        ctx = self.ctx

        def sym(sort: Any, sym_name: str) -> Any:
            const = z3.Const(sym_name, sort)
            if is_input:
                ctx.input_symbols[sym_name] = const
            return const

        if desc is dsl.Int:
            return IntV(sym(z3.IntSort(), name))
        if desc is dsl.Bool:
            return BoolV(sym(z3.BoolSort(), name))
        if desc is dsl.Real:
            return RealV(sym(z3.RealSort(), name))
        if desc is dsl.Str:
            return StrV(t=sym(StrSort, name))
        if desc is dsl.NoneT:
            return NONE
        if isinstance(desc, dsl.Const):
            return self.from_python(desc.value)
        if isinstance(desc, dsl.ClassOf):
            info = self.world.find_class(desc.name)
            value = ClassV(desc.name)
            value.module = info.module
            return value
        if isinstance(desc, dsl.Rec):
            fields = {fname: self.fresh(ftype, f"{name}.{fname}", is_input)
                      for fname, ftype in desc.fields.items()}
            return ObjV(desc.cls, fields)
        if isinstance(desc, dsl.Ref):
            et = self.elem_type(desc)
            return RefV(sym(et.sort, name), desc)
        if isinstance(desc, dsl.DictOf):
            kt, vt = self.elem_type(desc.key), self.elem_type(desc.value)
            keys = SeqV(sym(z3.ArraySort(z3.IntSort(), kt.sort), f"{name}.keys[]"), sym(z3.IntSort(), f"len({name})"), kt)
            ctx.assume(keys.n >= 0)
            if getattr(desc, 'distinct', False):
                i, j = z3.Int(ctx.fresh_name("q")), z3.Int(ctx.fresh_name("q"))
                ctx.assume(z3.ForAll([i, j], z3.Implies(z3.And(0 <= i, i < j, j < keys.n),
                                                        z3.Select(keys.arr, i) != z3.Select(keys.arr, j))))
            vals = sym(z3.ArraySort(kt.sort, vt.sort), f"{name}.vals")
            result = DictV(keys=keys, vals=vals, vt=vt)
            result.total = bool(getattr(desc, "total", False))
            return result
        if isinstance(desc, dsl.SeqOf):
            et = self.elem_type(desc.elem)
            arr = sym(z3.ArraySort(z3.IntSort(), et.sort), f"{name}[]")
            n = sym(z3.IntSort(), f"len({name})")
            ctx.assume(n >= 0)
            return SeqV(arr, n, et)
        if isinstance(desc, dsl.SetOf):
            et = self.elem_type(desc.elem)
            arr = sym(z3.ArraySort(et.sort, z3.BoolSort()), f"{name}{{}}")
            return SetV(arr=arr, et=et)
        if isinstance(desc, (dsl.Opt, dsl.OneOf, dsl.ListOf)):
            raise Unsupported(f"descriptor {desc!r} must be resolved into a configuration first")
        raise Unsupported(f"fresh: unknown descriptor {desc!r}")

    def from_python(self, value: Any) -> V:
        if value is None:
            return NONE
        if isinstance(value, bool):
            return BoolV(value)
        if isinstance(value, int):
            return IntV(value)
        if isinstance(value, float):
            return RealV(value)
        if isinstance(value, str):
            return StrV(s=value)
        if isinstance(value, (list,)):
            return ListV([self.from_python(v) for v in value])
        if isinstance(value, tuple):
            return TupleV([self.from_python(v) for v in value])
        if isinstance(value, (set, frozenset)):
            return SetV(items=[(self.from_python(v), z3.BoolVal(True)) for v in sorted(value, key=repr)])
        if isinstance(value, dict):
            return DictV(entries=[(self.from_python(k), self.from_python(v)) for k, v in value.items()])
        raise Unsupported(f"constant of type {type(value)}")

    # ---- truthiness / equality / ordering -----------------------------------------------------
    def truth(self, v: V) -> Any:
        """z3 Bool term (or Python bool) for bool(v)."""
        if isinstance(v, BoolV):
            return v.t
        if isinstance(v, IntV):
            return v.t != 0
        if isinstance(v, RealV):
            return v.t != 0
        if isinstance(v, NoneV):
            return False
        if isinstance(v, StrV):
            if v.s is not None:
                return bool(v.s)
            return v.t != self.ctx.strlit("")
        if isinstance(v, (ListV, TupleV)):
            return bool(v.items)
        if isinstance(v, SeqV):
            return v.n > 0
        if isinstance(v, RangeV):
            return self.range_len(v) > 0
        if isinstance(v, SetV):
            if v.items is not None:
                return z3.Or([c for _, c in v.items]) if v.items else False
            x = z3.Const(self.ctx.fresh_name("x"), v.et.sort)
            return z3.Exists([x], z3.Select(v.arr, x))
        if isinstance(v, DictV):
            if v.entries is not None:
                return bool(v.entries)
            return v.keys.n > 0
        if isinstance(v, ObjV):
            fn = self.find_method(v.cls, "__bool__")
            if fn is not None:
                return self.truth(self.call_function(fn, [v], {}))
            fn = self.find_method(v.cls, "__len__")
            if fn is not None:
                return as_int_term(self.call_function(fn, [v], {})) != 0
            return True
        if isinstance(v, (ClassV, FuncV, BoundV, BuiltinV)):
            return True
        if isinstance(v, RefV):
            if "__bool__" in getattr(v.desc, "maybe", []):
                return z3.Function(f"{v.desc.cls}.__bool__", v.t.sort(), z3.BoolSort())(v.t)
            return True
        raise Unsupported(f"truth of {v!r}")

    def range_len(self, r: RangeV) -> Any:
        start, stop = as_int_term(r.start), as_int_term(r.stop)
        if r.step == 1:
            return z3.If(stop > start, stop - start, 0)
        if r.step > 0:
            return z3.If(stop > start, (stop - start + r.step - 1) / r.step, 0)
        raise Unsupported("negative range step")

    def eq(self, a: V, b: V) -> Any:
        """z3 Bool term (or Python bool) for a == b."""
        if is_num(a) and is_num(b):
            if isinstance(a, BoolV) and isinstance(b, BoolV):
                return a.t == b.t
            ta, tb = as_num_term(a), as_num_term(b)
            return ta == tb
        if isinstance(a, RefV) and isinstance(b, RefV):
            return a.t == b.t if a.t.sort() == b.t.sort() else False
        if isinstance(a, NoneV) or isinstance(b, NoneV):
            if isinstance(a, (ObjV, RefV)) or isinstance(b, (ObjV, RefV)):
                return False
            return isinstance(a, NoneV) and isinstance(b, NoneV)
        if isinstance(a, StrV) and isinstance(b, StrV):
            if a.s is not None and b.s is not None:
                return a.s == b.s
            return self.ctx.str_term(a) == self.ctx.str_term(b)
        if isinstance(a, (TupleV, ListV)) and isinstance(b, (TupleV, ListV)):
            if type(a) is not type(b) or len(a.items) != len(b.items):
                return False
            terms = [self.eq(x, y) for x, y in zip(a.items, b.items)]
            return self.and_(terms)
        if isinstance(a, ObjV) or isinstance(b, ObjV):
            va, vb = self.int_enum_value(a), self.int_enum_value(b)
            if (va is not a or vb is not b) and is_num(va) and is_num(vb):
                return self.eq(va, vb)
        if isinstance(a, ObjV):
            fn = self.find_method(a.cls, "__eq__")
            if fn is not None:
                return self.truth(self.call_function(fn, [a, b], {}))
            if isinstance(b, ObjV) and self.world.find_class(a.cls) is not None \
                    and self.world.find_class(a.cls).is_enum:
                return a is b or (a.cls == b.cls and a.fields.get("_name") is not None
                                  and self.eq(a.fields["_name"], b.fields["_name"]) is True)
            return a is b
        if isinstance(b, ObjV):
            return self.eq(b, a)
        if isinstance(a, ClassV) and isinstance(b, ClassV):
            return a.name == b.name
        if isinstance(a, SeqV) or isinstance(b, SeqV):
            raise Unsupported("== on symbolic sequences")
        if isinstance(a, SetV) and isinstance(b, SetV):
            if a.arr is not None and b.arr is not None:
                return a.arr == b.arr
            if a.items is not None and b.items is not None:
                sub_ab = [self.or_([self.not_(c), self.contains(b, x)]) for x, c in a.items]
                sub_ba = [self.or_([self.not_(c), self.contains(a, x)]) for x, c in b.items]
                return self.and_(sub_ab + sub_ba)
            et = a.et or b.et
            return self.set_to_array(a, et) == self.set_to_array(b, et)
        if type(a) is not type(b):
            return False
        raise Unsupported(f"== on {a!r} and {b!r}")

    def and_(self, terms: list[Any]) -> Any:
        out = []
        for t in terms:
            c = conc_bool(t)
            if c is False:
                return False
            if c is None:
                out.append(t)
        if not out:
            return True
        return z3.And(out) if len(out) > 1 else out[0]

    def or_(self, terms: list[Any]) -> Any:
        out = []
        for t in terms:
            c = conc_bool(t)
            if c is True:
                return True
            if c is None:
                out.append(t)
        if not out:
            return False
        return z3.Or(out) if len(out) > 1 else out[0]

    def not_(self, t: Any) -> Any:
        c = conc_bool(t)
        if c is not None:
            return not c
        return z3.Not(t)

    def int_enum_value(self, v: V) -> V:
        """members of an IntEnum compare (==, <, ...) as their integer values"""
        if isinstance(v, ObjV) and "value" in v.fields:
            try:
                info = self.world.find_class(v.cls)
            except KeyError:
                info = None
            if info is not None and getattr(info, "is_int_enum", False):
                return v.fields["value"]
        return v

    def less(self, a: V, b: V, strict: bool = True) -> Any:
        """a < b (strict) or a <= b."""
        a, b = self.int_enum_value(a), self.int_enum_value(b)
        if is_num(a) and is_num(b):
            ta, tb = as_num_term(a), as_num_term(b)
            return ta < tb if strict else ta <= tb
        if isinstance(a, TupleV) and isinstance(b, TupleV):
            # lexicographic
            result: Any = (len(a.items) < len(b.items)) if strict else (len(a.items) <= len(b.items))
            for x, y in reversed(list(zip(a.items, b.items))):
                lt = self.less(x, y, True)
                equal = self.eq(x, y)
                rest = result
                result = self.or_([lt, self.and_([equal, rest])])
            return result
        if isinstance(a, StrV) and isinstance(b, StrV):
            if a.s is not None and b.s is not None:
                return a.s < b.s if strict else a.s <= b.s
            rank = z3.Function("str_rank", StrSort, z3.IntSort())
            self.ctx.assumptions_used.add("string order modelled by an injective rank function")
            ta, tb = rank(self.ctx.str_term(a)), rank(self.ctx.str_term(b))
            return ta < tb if strict else z3.Or(ta < tb, self.ctx.str_term(a) == self.ctx.str_term(b))
        if isinstance(a, ObjV):
            fn = self.find_method(a.cls, "__lt__")
            if fn is not None and strict:
                return self.truth(self.call_function(fn, [a, b], {}))
        if isinstance(a, RefV) and strict:
            # an opaque object: its ordering is whatever the contract's stub for Cls.__lt__ says
            stub = self.stubs.get(f"{a.desc.cls}.__lt__")
            if isinstance(stub, dsl.External):
                return self.truth(self.call_external(stub, f"{a.desc.cls}.__lt__", [a, b], 0))
        raise Unsupported(f"ordering on {a!r} and {b!r}")

    def ite(self, cond: Any, a: V, b: V) -> V:
        c = conc_bool(cond)
        if c is True:
            return a
        if c is False:
            return b
        if a is b:
            return a
        if isinstance(a, BoolV) and isinstance(b, BoolV):
            return BoolV(z3.If(cond, a.t, b.t))
        if is_num(a) and is_num(b):
            if isinstance(a, RealV) or isinstance(b, RealV):
                ta, tb = as_num_term(a), as_num_term(b)
                ta = z3.ToReal(ta) if ta.sort() == z3.IntSort() else ta
                tb = z3.ToReal(tb) if tb.sort() == z3.IntSort() else tb
                return RealV(z3.If(cond, ta, tb))
            return IntV(z3.If(cond, as_int_term(a), as_int_term(b)))
        if isinstance(a, StrV) and isinstance(b, StrV):
            return StrV(t=z3.If(cond, self.ctx.str_term(a), self.ctx.str_term(b)))
        if isinstance(a, NoneV) and isinstance(b, NoneV):
            return NONE
        if isinstance(a, TupleV) and isinstance(b, TupleV) and len(a.items) == len(b.items):
            return TupleV([self.ite(cond, x, y) for x, y in zip(a.items, b.items)])
        if isinstance(a, ListV) and isinstance(b, ListV) and len(a.items) == len(b.items):
            return ListV([self.ite(cond, x, y) for x, y in zip(a.items, b.items)])
        if isinstance(a, ObjV) and isinstance(b, ObjV) and a.cls == b.cls \
                and set(a.fields) == set(b.fields):
            return ObjV(a.cls, {k: self.ite(cond, a.fields[k], b.fields[k]) for k in a.fields})
        if isinstance(a, ListV) and isinstance(b, SeqV):
            a = self.seq_from_list(a.items, b.et) if a.items else SeqV(None, z3.IntVal(0), b.et, fn=b.clone().sel)
        if isinstance(b, ListV) and isinstance(a, SeqV):
            b = self.seq_from_list(b.items, a.et) if b.items else SeqV(None, z3.IntVal(0), a.et, fn=a.clone().sel)
        if isinstance(a, SeqV) and isinstance(b, SeqV) and a.et.sort == b.et.sort:
            if a.fn is not None or b.fn is not None or not (isinstance(a.off, int) and isinstance(b.off, int) and a.off == b.off):
                ca, cb = a.clone(), b.clone()
                return SeqV(None, z3.If(cond, a.n, b.n), a.et,
                            fn=lambda j, ca=ca, cb=cb, cond=cond: z3.If(cond, ca.sel(j), cb.sel(j)))
            return SeqV(z3.If(cond, a.arr, b.arr), z3.If(cond, a.n, b.n), a.et, a.off)
        if isinstance(a, SetV) and isinstance(b, SetV) and a.arr is not None and b.arr is not None:
            return SetV(arr=z3.If(cond, a.arr, b.arr), et=a.et)
        raise Unsupported(f"cannot merge {a!r} and {b!r}")

    # ---- arithmetic ------------------------------------------------------------------------------
    def binop(self, op: str, a: V, b: V, line: int = 0) -> V:
        if op in ("|", "&", "^") and isinstance(a, BoolV) and isinstance(b, BoolV):
            if op == "|":
                return BoolV(z3.Or(a.t, b.t))
            if op == "&":
                return BoolV(z3.And(a.t, b.t))
            return BoolV(z3.Xor(a.t, b.t))
        if is_num(a) and is_num(b):
            real = isinstance(a, RealV) or isinstance(b, RealV)
            ta, tb = as_num_term(a), as_num_term(b)
            if real or op == "/":
                ta = z3.ToReal(ta) if ta.sort() == z3.IntSort() else ta
                tb = z3.ToReal(tb) if tb.sort() == z3.IntSort() else tb
            if op == "+":
                return mk(ta + tb)
            if op == "-":
                return mk(ta - tb)
            if op == "*":
                return mk(ta * tb)
            if op == "/":
                self.check_safe(tb != 0, "ZeroDivisionError", line)
                return mk(ta / tb)
            if op in ("//", "%"):
                if real:
                    raise Unsupported("float floor division")
                self.check_safe(tb != 0, "ZeroDivisionError", line)
                # Python floor semantics: z3 div/mod are Euclidean (mod >= 0): adjust for b < 0
                cb = conc_int(IntV(tb))
                if cb is not None and cb > 0:
                    return mk(ta / tb) if op == "//" else mk(ta % tb)
                q = z3.If(tb > 0, ta / tb, z3.If(ta % tb == 0, ta / tb, (ta / tb) - 1))
                # for b<0: euclid q_e = ceil-ish; python floor(a/b). derive via negation:
                # floor(a/b) = floor((-a)/(-b)); with -b>0 euclid div is floor
                qn = (-ta) / (-tb)
                q = z3.If(tb > 0, ta / tb, qn)
                if op == "//":
                    return mk(q)
                return mk(ta - q * tb)
            if op == "**":
                ca, cb = conc_int(a), conc_int(b)
                if ca is not None and cb is not None and cb >= 0:
                    return IntV(ca ** cb)
                raise Unsupported("symbolic power")
            raise Unsupported(f"binop {op} on numbers")
        if op == "+" and isinstance(a, ListV) and isinstance(b, ListV):
            return ListV(a.items + b.items)
        if op == "+" and isinstance(a, TupleV) and isinstance(b, TupleV):
            return TupleV(a.items + b.items)
        if op == "+" and isinstance(a, StrV) and isinstance(b, StrV):
            if a.s is not None and b.s is not None:
                return StrV(s=a.s + b.s)
            return self.opaque_str("concat")
        if op == "+" and isinstance(a, (ListV, SeqV)) and isinstance(b, (ListV, SeqV)):
            return self.seq_concat(a, b)
        if op == "*" and isinstance(a, StrV) and is_num(b):
            ca = conc_int(b)
            if a.s is not None and ca is not None:
                return StrV(s=a.s * ca)
            return self.opaque_str("repeat")
        if op == "%" and isinstance(a, StrV):
            return self.opaque_str("format")
        if op in ("|", "&", "-", "^") and isinstance(a, SetV) and isinstance(b, SetV):
            name = {"|": "union", "&": "intersection", "-": "difference", "^": "symmetric_difference"}[op]
            return self.call_method_builtin(a, name, [b], {}, line)
        if op in ("|", "&", "^") and isinstance(a, BoolV) and isinstance(b, BoolV):
            if op == "|":
                return BoolV(z3.Or(a.t, b.t))
            if op == "&":
                return BoolV(z3.And(a.t, b.t))
            return BoolV(z3.Xor(a.t, b.t))
        raise Unsupported(f"binop {op} on {a!r}, {b!r}")

    def opaque_str(self, hint: str) -> StrV:
        """A string whose value is not modelled: fresh unconstrained symbol (over-approximation)."""
        return StrV(t=z3.Const(self.ctx.fresh_name(f"str_{hint}"), StrSort))

    def check_safe(self, cond: Any, etype: str, line: int) -> None:
        """Python raises `etype` when cond is false: branch into the raising path."""
        c = conc_bool(cond)
        if c is True:
            return
        if self.ctx.spec_depth:
            if c is False:
                raise PathPruned()
            return  # spec functions are total: unconstrained outside their domain
        if self.ctx.quant_depth:
            self.ctx.prove(cond, "safe-" + etype, line)
            return
        if c is False or not self.ctx.branch(cond):
            raise PyExc(etype, "implicit", line)
