"""Deductive part of a property check: all contracts tagged with the property are verified
against the CURRENT /repo sources, in a process pool; verdicts per DESIGN.md §2.9."""
from __future__ import annotations

import importlib
import json
import multiprocessing
import os
import pkgutil
import subprocess
import tempfile
import time
from typing import Any

VERIF = os.path.dirname(os.path.dirname(os.path.abspath(__file__)))
MODELS = [os.path.join(VERIF, "pyvc", "models.py")]
VENV_PY = "/venv/bin/python"


def load_contracts() -> dict[str, Any]:
    from pyvc import dsl
    import contracts
    for mod in pkgutil.iter_modules(contracts.__path__):
        if not mod.name.startswith("_") and mod.name != "native":
            importlib.import_module(f"contracts.{mod.name}")
    return dsl.CONTRACTS


def _task(args: tuple) -> dict[str, Any]:
    repo, cname, timeout_ms, mode, open_ids = args
    from pyvc import dsl
    from pyvc.verify import verify_contract
    all_contracts = load_contracts()
    by_target = {c.target: c for c in all_contracts.values() if not c.__dict__.get("variant", False)}
    con = all_contracts[cname]
    return verify_contract(repo, con, by_target, MODELS, timeout_ms, mode, open_ids)


def _cvc5(smt2: str, timeout_s: int) -> str:
    with tempfile.NamedTemporaryFile("w", suffix=".smt2", delete=False) as handle:
        handle.write(smt2)
        path = handle.name
    try:
        proc = subprocess.run(["/usr/bin/cvc5", f"--tlimit={timeout_s * 1000}", path], capture_output=True,
                              text=True, timeout=timeout_s + 5, check=False)
        out = proc.stdout.strip().splitlines()
        return out[0] if out else "unknown"
    except (subprocess.TimeoutExpired, OSError):
        return "unknown"
    finally:
        os.unlink(path)


def native_replay(repo: str, cname: str, model: dict[str, Any]) -> dict[str, Any]:
    """Replays a counter-model on the real function under /venv/bin/python."""
    env = dict(os.environ)
    env["PYTHONPATH"] = os.pathsep.join([repo, VERIF, env.get("PYTHONPATH", "")])
    env["PYTHONDONTWRITEBYTECODE"] = "1"
    payload = json.dumps({"contract": cname, "model": model})
    try:
        # in a scratch directory: a replayed function may write relative paths
        with tempfile.TemporaryDirectory(prefix="verif-replay-") as scratch:
            proc = subprocess.run([VENV_PY, "-m", "pyvc.native_replay"], input=payload, cwd=scratch, env=env,
                                  capture_output=True, text=True, timeout=120, check=False)
    except subprocess.TimeoutExpired:
        return {"status": "error", "detail": "native replay timed out"}
    try:
        return json.loads(proc.stdout.strip().splitlines()[-1])
    except (ValueError, IndexError):
        return {"status": "error", "detail": (proc.stdout + proc.stderr)[-1500:]}


def run_property(prop: str, tier: str, seed: int, repo: str) -> dict[str, Any]:
    import z3
    started = time.time()
    all_contracts = load_contracts()
    mine = [c for c in all_contracts.values() if prop in c.props and tier in c.__dict__.get("tiers", ("quick", "thorough"))]
    skipped = [c.cname for c in all_contracts.values() if prop in c.props and tier not in c.__dict__.get("tiers", ("quick", "thorough"))]
    with open(os.path.join(VERIF, "known_findings.json"), encoding="utf-8") as handle:
        findings = json.load(handle)["findings"]
    open_ids = [f["id"] for f in findings if f.get("status") == "open"]
    timeout_ms = 10000 if tier == "quick" else 60000
    tasks = []
    for con in mine:
        tasks.append((repo, con.cname, timeout_ms, "main", open_ids))
        for fid in (con.__dict__.get("known") or {}):
            if fid in open_ids:
                tasks.append((repo, con.cname, timeout_ms, f"known:{fid}", open_ids))
    results: list[dict[str, Any]] = []
    if tasks:
        ctx = multiprocessing.get_context("fork")
        with ctx.Pool(min(16, len(tasks))) as pool:
            results = list(pool.imap_unordered(_task, tasks))
    results.sort(key=lambda r: (r["contract"], r["mode"]))

    out: dict[str, Any] = {
        "obligations": 0, "discharged": 0, "undecided": [], "out_of_subset": [], "violations": [],
        "known_seen": {}, "errors": [], "functions": [], "by_kind": {}, "inlined": set(), "assumptions": set(),
        "backends": {"z3": 0, "cvc5": 0, "trivial": 0}, "solver_s": 0.0, "samples": [],
        "z3_version": z3.get_version_string(), "known_class_obligations": [],
        "contracts_only_in_other_tier": skipped,
        "cross_checked": {"sampled": 0, "unsat": 0, "sat": 0, "unknown": 0},
        "vacuity": {"contracts": len(mine), "contracts_with_obligations": 0, "covers": 0, "covers_sat": 0},
    }
    needs_input: set = set()
    open_contracts: set = set()
    searched: dict = {}
    replays: dict = {}
    for res in results:
        con = all_contracts[res["contract"]]
        if res.get("engine_error"):
            out["errors"].append(f"pyvc crashed on {res['contract']}:\n{res['engine_error']}")
            continue
        out["solver_s"] += res["solver_s"]
        out["inlined"].update(res["inlined"])
        out["assumptions"].update(res["assumptions"])
        is_known_mode = res["mode"].startswith("known:")
        if res["out_of_subset"]:
            if not is_known_mode:
                out["out_of_subset"].append({"contract": res["contract"], "target": res["target"],
                                             "reason": res["out_of_subset"]})
                out["functions"].append({"contract": res["contract"], "target": res["target"], "digest": res["digest"],
                                         "status": "not verified (outside the supported subset)",
                                         "reason": res["out_of_subset"]})
            continue
        counts = {"discharged": 0, "failed": 0, "undecided": 0}
        for ob in res["obligations"]:
            if ob["status"] == "undecided" and ob.get("smt2"):
                verdict = _cvc5(ob["smt2"], 20 if tier == "quick" else 60)
                if verdict == "unsat":
                    ob["status"], ob["backend"] = "discharged", "cvc5"
            elif ob["status"] == "discharged" and ob.get("smt2") and not is_known_mode:
                # thorough tier: sampled second opinion on what z3 discharged
                verdict = _cvc5(ob["smt2"], 20)
                out["cross_checked"]["sampled"] += 1
                out["cross_checked"][verdict if verdict in ("unsat", "sat") else "unknown"] += 1
                if verdict == "sat":
                    out["errors"].append(f"solvers disagree on {ob['name']}: z3 unsat, cvc5 sat")
            ob.pop("smt2", None)
            counts[ob["status"]] += 1
            if is_known_mode:
                fid = res["mode"].split(":", 1)[1]
                out["known_class_obligations"].append({"finding": fid, "obligation": ob["name"], "status": ob["status"]})
                if ob["status"] == "failed":
                    out["known_seen"][fid] = out["known_seen"].get(fid, 0) + 1
                continue
            out["obligations"] += 1
            out["by_kind"][ob["kind"]] = out["by_kind"].get(ob["kind"], 0) + 1
            if ob["status"] == "discharged":
                out["discharged"] += 1
                out["backends"][ob["backend"]] = out["backends"].get(ob["backend"], 0) + 1
                if len(out["samples"]) < 5 and ob["backend"] != "trivial":
                    out["samples"].append({"obligation": ob["name"], "kind": ob["kind"], "status": "discharged",
                                           "backend": ob["backend"], "seconds": ob["seconds"]})
            elif ob["status"] == "undecided":
                out["undecided"].append({"obligation": ob["name"], "detail": ob["detail"]})
                open_contracts.add(res["contract"])
            else:
                viol = {"kind": "deductive", "ob_kind": ob["kind"], "obligation": ob["name"], "contract": res["contract"],
                        "target": res["target"], "model": ob["model"], "detail": ob["detail"],
                        "solver_output": f"z3 sat; model {json.dumps(ob['model'])}", "has_input": False}
                replays[res["contract"]] = replays.get(res["contract"], 0) + 1
                if replays[res["contract"]] > 30:
                    continue       # enough refuted obligations of this contract reported (all are counted as failed)
                if ob["input_only"] and ob["model"] and replays[res["contract"]] <= 6:
                    rep = native_replay(repo, res["contract"], ob["model"])
                    viol["native_replay"] = rep
                    if rep.get("status") == "reproduced":
                        viol["has_input"] = True
                        viol["detail"] = f"{rep.get('detail', '')} | {ob['detail']}"
                    elif rep.get("status") == "not-reproduced":
                        # the encoding disagrees with CPython: a checker error, never a violation
                        out["errors"].append(f"counter-model of {ob['name']} does not replay natively: "
                                             f"{json.dumps(rep)[:800]} model={json.dumps(ob['model'])}")
                        continue
                out["violations"].append(viol)
                if not viol["has_input"]:
                    needs_input.add(res["contract"])
        if not is_known_mode:
            out["vacuity"]["covers"] += res["covers"]["total"]
            out["vacuity"]["covers_sat"] += res["covers"]["sat"]
            if res["obligations"]:
                out["vacuity"]["contracts_with_obligations"] += 1
            minimum = con.__dict__.get("min_obligations", 1)
            if len(res["obligations"]) < minimum:
                out["errors"].append(f"vacuity guard: {res['contract']} generated {len(res['obligations'])} obligations "
                                     f"(< {minimum} recorded at development time)")
            out["functions"].append({
                "contract": res["contract"], "target": res["target"], "digest": res["digest"], "loops": res["loops"],
                "paths": res["paths"], "obligations": len(res["obligations"]), **counts,
                "outcomes": res["outcomes"], "solver_s": res["solver_s"], "wall_s": res["wall_s"],
                "status": "verified" if counts["failed"] == 0 and counts["undecided"] == 0 else
                          ("obligation(s) refuted" if counts["failed"] else "not fully decided"),
            })
    # a refuted obligation without an input (a loop invariant, a state after a cut loop): look for a
    # concrete failing input with the loops run as they are on small inputs, and replay it natively
    # ... and an obligation the solvers left open: the same search may still find a concrete failing input
    for cname in sorted(needs_input | open_contracts):
        try:
            res = _task((repo, cname, timeout_ms, "small", open_ids))
        except Exception:  # pylint: disable=broad-except
            continue
        if res.get("engine_error") or res["out_of_subset"]:
            continue
        tried = 0
        searched[cname] = not any(ob["kind"] == "unwind" and ob["status"] != "discharged" for ob in res["obligations"])
        for ob in res["obligations"]:
            # (a model that also fixes results of callees under contract is still worth trying: the replay decides)
            if ob["status"] != "failed" or not ob["model"] or ob["kind"] == "unwind" or tried >= 6:
                continue
            tried += 1
            rep = native_replay(repo, cname, ob["model"])
            if rep.get("status") != "reproduced":
                continue
            if cname not in needs_input:
                out["violations"].append({
                    "kind": "deductive", "obligation": ob["name"], "contract": cname, "target": res["target"],
                    "model": ob["model"], "has_input": True, "native_replay": rep,
                    "solver_output": f"z3 sat; model {json.dumps(ob['model'])}",
                    "input_found_by": "counterexample search after an obligation was left open by the solvers: the same "
                                      "contract with its loops run as they are (no invariants) on sequences of <= 3 elements",
                    "detail": f"{rep.get('detail', '')} | {ob['detail']}"})
                break
            for viol in out["violations"]:
                if viol["contract"] == cname and not viol["has_input"]:
                    viol["has_input"] = True
                    viol["model"] = ob["model"]
                    viol["native_replay"] = rep
                    viol["input_found_by"] = ("counterexample search: the same contract with its loops run as they are "
                                              f"(no invariants) on sequences of <= 3 elements; obligation {ob['name']}")
                    viol["detail"] = f"{rep.get('detail', '')} | {viol['detail']}"
            break
    # a loop invariant (a proof artefact of the sidecar, not a clause of the property) that is no longer inductive on
    # the current code, while no postcondition fails and the search above ran the whole function on every input with
    # sequences of <= 3 elements without finding a failing one: the proof is lost, the property is not refuted
    kept = []
    for viol in out["violations"]:
        if viol.get("ob_kind") in ("inv-init", "inv-keep", "decreases") and not viol["has_input"] \
                and searched.get(viol["contract"]) \
                and not any(v["contract"] == viol["contract"] and v.get("ob_kind") not in ("inv-init", "inv-keep", "decreases")
                            for v in out["violations"]):
            out["undecided"].append({"obligation": viol["obligation"],
                                     "detail": "invariant of the sidecar not inductive on this code; the counterexample search "
                                               "(loops run as they are, sequences of <= 3 elements) found no failing input: "
                                               "proof lost, property not refuted | " + str(viol["detail"])[:300]})
            out["discharged"] = out["discharged"]  # counts unchanged: the obligation stays undischarged
            continue
        kept.append(viol)
    out["violations"] = kept
    out["inlined"] = sorted(out["inlined"])
    out["assumptions"] = sorted(out["assumptions"])
    out["trusted_base"] = [
        "pyvc translator (Python subset -> z3), cross-checked against CPython on sampled inputs",
        "z3 " + z3.get_version_string() + " (cvc5 1.0.3 on z3-unknowns)",
        "model classes for Biopython locations (pyvc/models.py), conformance-sampled",
        "builtin contracts: sorted/min/max/len/set/dict (DESIGN §2.5)",
    ]
    out["solver_s"] = round(out["solver_s"], 2)
    out["wall_s"] = round(time.time() - started, 2)
    return out


def replay(data: dict[str, Any], repo: str, path: str) -> int:
    """./check replay <file> for a deductive violation: re-run the native replay of the model."""
    if not data.get("model") or not data.get("contract") or not data.get("has_input"):
        # the refuted obligation is about a state the inputs do not determine (a loop invariant, opaque objects):
        # there is nothing to run; the file names the obligation and carries the verifier's output
        print(f"replay file {path} carries no failing input; refuted obligation: {data.get('obligation')}")
        print(str(data.get("detail", ""))[:1500])
        print(str(data.get("solver_output", ""))[:3000])
        print(f"VIOLATION property={data['property']} replay={path} no-failing-input-found")
        return 1
    rep = native_replay(repo, data["contract"], data["model"])
    print(json.dumps(rep, indent=1))
    if rep.get("status") == "reproduced":
        print(f"VIOLATION property={data['property']} replay={path}")
        return 1
    return 0 if rep.get("status") == "not-reproduced" else 3
