"""Symbolic values of the pyvc executor. z3 terms are immutable and shared; Python-side
containers/objects are mutable and carry identity (aliasing = Python identity)."""
from __future__ import annotations

from typing import Any, Optional

import z3

StrSort = z3.DeclareSort("PyStr")


class V:
    """Base class of symbolic values."""
    kind = "?"


class IntV(V):
    kind = "int"
    __slots__ = ("t",)

    def __init__(self, t: Any) -> None:
        self.t = z3.IntVal(t) if isinstance(t, int) and not isinstance(t, bool) else t

    def __repr__(self) -> str:
        return f"IntV({self.t})"


class RealV(V):
    kind = "float"
    __slots__ = ("t",)

    def __init__(self, t: Any) -> None:
        if isinstance(t, (int, float)) and not isinstance(t, bool):
            t = z3.RealVal(repr(t) if isinstance(t, float) else t)
        self.t = t

    def __repr__(self) -> str:
        return f"RealV({self.t})"


class BoolV(V):
    kind = "bool"
    __slots__ = ("t",)

    def __init__(self, t: Any) -> None:
        self.t = z3.BoolVal(t) if isinstance(t, bool) else t

    def __repr__(self) -> str:
        return f"BoolV({self.t})"


class StrV(V):
    """A string: either a concrete Python str (`s`) or an opaque symbolic one (`t`)."""
    kind = "str"
    __slots__ = ("t", "s")

    def __init__(self, t: Any = None, s: Optional[str] = None) -> None:
        self.t = t
        self.s = s

    def __repr__(self) -> str:
        return f"StrV({self.s!r})" if self.s is not None else f"StrV({self.t})"


class NoneV(V):
    kind = "None"

    def __repr__(self) -> str:
        return "NoneV"


NONE = NoneV()


class UndefV(V):
    """A local that is assigned inside a loop cut by an invariant and has no value before it:
    fine as long as every iteration assigns it before reading it."""
    kind = "undefined"


UNDEF = UndefV()


class TupleV(V):
    kind = "tuple"
    __slots__ = ("items",)

    def __init__(self, items: Any) -> None:
        self.items = tuple(items)

    def __repr__(self) -> str:
        return f"TupleV{self.items!r}"


class ListV(V):
    """A list of concrete length holding symbolic values (mutable, has identity)."""
    kind = "list"

    def __init__(self, items: Any) -> None:
        self.items = list(items)

    def __repr__(self) -> str:
        return f"ListV{self.items!r}"


class ElemType:
    """How elements of a symbolic sequence / set / dict are stored as z3 terms."""

    def __init__(self, sort: Any, kind: str, rec: Any = None, accessors: Any = None,
                 constructor: Any = None) -> None:
        self.sort = sort
        self.kind = kind          # int | bool | real | str | rec
        self.rec = rec            # dsl.Rec for kind == rec
        self.accessors = accessors or {}
        self.constructor = constructor

    def __repr__(self) -> str:
        return f"ElemType({self.kind}{':' + self.rec.label if self.rec else ''})"


class SeqV(V):
    """A list of symbolic length: z3 array Int -> elem and a length term. Mutable holder."""
    kind = "list"

    def __init__(self, arr: Any, n: Any, et: ElemType, off: Any = 0, fn: Any = None) -> None:
        self.arr, self.n, self.et, self.off = arr, n, et, off
        self.fn = fn      # function-backed sequence (ghost values): index term -> element term; arr is None

    def sel(self, index: Any) -> Any:
        """element term at position index (views share the base array at an offset)"""
        if self.fn is not None:
            return self.fn(index if (isinstance(self.off, int) and self.off == 0) else z3.simplify(index + self.off))
        if isinstance(self.off, int) and self.off == 0:
            return z3.Select(self.arr, index)
        return z3.Select(self.arr, z3.simplify(index + self.off))

    def put(self, index: Any, term: Any) -> None:
        if self.fn is not None:
            old, off = self.fn, self.off
            pos = index if (isinstance(off, int) and off == 0) else z3.simplify(index + off)
            self.fn = lambda i, old=old, pos=pos, term=term: z3.If(i == pos, term, old(i))
            return
        if isinstance(self.off, int) and self.off == 0:
            self.arr = z3.Store(self.arr, index, term)
        else:
            self.arr = z3.Store(self.arr, z3.simplify(index + self.off), term)

    def clone(self) -> "SeqV":
        return SeqV(self.arr, self.n, self.et, self.off, self.fn)

    def __repr__(self) -> str:
        return f"SeqV(len={self.n})"


class RangeV(V):
    """range(start, stop, step) with symbolic bounds and concrete step."""
    kind = "range"

    def __init__(self, start: Any, stop: Any, step: int) -> None:
        self.start, self.stop, self.step = start, stop, step


class SetV(V):
    """A set. `items`: explicit list of (value, presence-condition) with pairwise distinct
    values whenever present; `arr`: characteristic array (elem sort -> Bool) or None."""
    kind = "set"

    def __init__(self, items: Any = None, arr: Any = None, et: Optional[ElemType] = None) -> None:
        self.items = list(items) if items is not None else None
        self.arr = arr
        self.et = et

    def __repr__(self) -> str:
        return f"SetV(items={self.items!r})" if self.items is not None else "SetV(arr)"


class DictV(V):
    """A dict with explicit entries [(key, value)] of concrete count (insertion order), or a
    symbolic one: key sequence (SeqV, duplicate free) and value array."""
    kind = "dict"

    def __init__(self, entries: Any = None, keys: Optional[SeqV] = None, vals: Any = None,
                 vt: Optional[ElemType] = None, default_factory: Any = None) -> None:
        self.entries = list(entries) if entries is not None else None
        self.keys, self.vals, self.vt = keys, vals, vt
        self.default_factory = default_factory
        self.total = False

    def __repr__(self) -> str:
        return f"DictV({self.entries!r})" if self.entries is not None else "DictV(sym)"


class ObjV(V):
    """An instance of a real (/repo) or model class: concrete field table of symbolic values."""
    kind = "obj"

    def __init__(self, cls: str, fields: Optional[dict[str, V]] = None) -> None:
        self.cls = cls
        self.fields: dict[str, V] = dict(fields or {})

    def __repr__(self) -> str:
        return f"ObjV<{self.cls}>({self.fields!r})"


class ClassV(V):
    kind = "class"

    def __init__(self, name: str) -> None:
        self.name = name

    def __repr__(self) -> str:
        return f"ClassV({self.name})"


class FuncV(V):
    """A function/lambda of the verified world: AST node + defining frame + owner class."""
    kind = "function"

    def __init__(self, node: Any, module: str, qualname: str, closure: Any = None,
                 owner: Optional[str] = None, is_spec: bool = False) -> None:
        self.node, self.module, self.qualname = node, module, qualname
        self.closure, self.owner, self.is_spec = closure, owner, is_spec

    @property
    def target(self) -> str:
        return f"{self.module}::{self.qualname}"

    def __repr__(self) -> str:
        return f"FuncV({self.target})"


class BoundV(V):
    kind = "method"

    def __init__(self, obj: V, func: Any) -> None:
        self.obj, self.func = obj, func   # func: FuncV or str (builtin method name)

    def __repr__(self) -> str:
        return f"BoundV({self.func!r})"


class BuiltinV(V):
    kind = "builtin"

    def __init__(self, name: str) -> None:
        self.name = name

    def __repr__(self) -> str:
        return f"BuiltinV({self.name})"


class ModuleV(V):
    kind = "module"

    def __init__(self, name: str) -> None:
        self.name = name


class SuperV(V):
    kind = "super"

    def __init__(self, obj: ObjV, after: str) -> None:
        self.obj, self.after = obj, after


class EffectsV(V):
    """Ghost file-system effect trace (C20): concrete list of (op, path-value) + a symbolic
    'unknown earlier effects' flag."""
    kind = "effects"

    def __init__(self) -> None:
        self.ops: list[tuple[str, Any]] = []


class UninterpV(V):
    """An abstract spec function (dsl.Uninterpreted)."""
    kind = "uninterpreted"

    def __init__(self, decl: Any) -> None:
        self.decl = decl


class RecurV(V):
    """A ghost recurrence (dsl.Recurrence) as a callable value."""
    kind = "recurrence"

    def __init__(self, rec: Any) -> None:
        self.rec = rec


class RefV(V):
    """An opaque heap object: a term of an uninterpreted sort + its descriptor."""
    kind = "ref"

    def __init__(self, term: Any, desc: Any) -> None:
        self.t, self.desc = term, desc

    def __repr__(self) -> str:
        return f"RefV({self.desc.cls}:{self.t})"
