"""Contract DSL for the sidecars in /verif/contracts (pure Python: importable under python3-vt
and under /venv/bin/python; no z3 here).

A sidecar declares, for one REAL function of /repo (never copied), a class decorated with
@contract("<repo-relative file>::<qualname>", props=[...]):

    params    dict name -> type descriptor (below); fork-able descriptors (OneOf, Opt, ListOf)
              multiply into *configurations*, each verified separately
    requires  def requires(<param names>) -> bool          precondition (restricted Python)
    ensures   def ensures(<param names>, result[, old]) -> bool
    raises    dict exception-name -> def cond(<params>) -> bool : raised IFF cond (given requires);
              any other exception (incl. AssertionError, IndexError, KeyError, ZeroDivisionError,
              AttributeError on None) is an obligation "cannot happen"
    returns   type descriptor of the result (needed when callers use the contract modularly)
    functional name of a spec function f with result == f(params): callers substitute it
    loops     dict loop ordinal (source order inside the function) -> Loop(...)
    unroll    int: loops without an invariant are unrolled at most this many times with an
              unwinding assertion (complete when the assertion is discharged)
    stubs     dict "Class.method" / function name -> spec function replacing a callee that is
              outside the modelled world (reported as an assumption)
    known     list of known-finding ids whose `klass` predicate splits the obligations
    replay    name of the native adapter (contracts/native.py) that rebuilds real arguments

Spec functions are ordinary restricted-Python functions in the same sidecar, decorated with
@spec. The SAME source is (1) symbolically executed by pyvc into z3 terms and (2) called
natively on real objects by the replay / cross-check harness.
"""
from __future__ import annotations

from typing import Any, Callable, Optional

CONTRACTS: dict[str, Any] = {}
SPECS: dict[str, Callable] = {}
LEMMAS: dict[str, Any] = {}


# ---- type descriptors ---------------------------------------------------------------------
class T:
    """Base of type descriptors."""
    def __repr__(self) -> str:
        return self.__class__.__name__


class _Scalar(T):
    def __init__(self, name: str) -> None:
        self.name = name

    def __repr__(self) -> str:
        return self.name


Int = _Scalar("Int")
Bool = _Scalar("Bool")
Real = _Scalar("Real")
Str = _Scalar("Str")
NoneT = _Scalar("NoneT")


class Const(T):
    """A concrete Python constant (int, bool, str, None)."""
    def __init__(self, value: Any) -> None:
        self.value = value

    def __repr__(self) -> str:
        return f"Const({self.value!r})"


class ClassOf(T):
    """The class object itself (the `cls` argument of a classmethod under contract)."""
    def __init__(self, name: str) -> None:
        self.name = name

    def __repr__(self) -> str:
        return f"ClassOf({self.name})"


class Opt(T):
    """None or T: forks into two configurations."""
    def __init__(self, inner: T) -> None:
        self.inner = inner

    def __repr__(self) -> str:
        return f"Opt({self.inner!r})"


class OneOf(T):
    """Any of the alternatives: forks."""
    def __init__(self, *alts: T) -> None:
        self.alts = alts

    def __repr__(self) -> str:
        return "OneOf(" + ", ".join(map(repr, self.alts)) + ")"


class Rec(T):
    """An object of (real or model) class `cls` with exactly these symbolic fields."""
    def __init__(self, cls: str, label: Optional[str] = None, **fields: T) -> None:
        self.cls = cls
        self.fields = fields
        self.label = label or cls

    def __repr__(self) -> str:
        return self.label


class ListOf(T):
    """A Python list of concrete length in [lo, hi] (forks over the lengths) of fresh elements."""
    def __init__(self, elem: T, lo: int, hi: int, as_tuple: bool = False) -> None:
        self.elem, self.lo, self.hi, self.as_tuple = elem, lo, hi, as_tuple

    def __repr__(self) -> str:
        return f"ListOf({self.elem!r},{self.lo}..{self.hi})"


class SeqOf(T):
    """A list of symbolic (unbounded) length; elements are scalars or flat Recs of scalars."""
    def __init__(self, elem: T) -> None:
        self.elem = elem

    def __repr__(self) -> str:
        return f"SeqOf({self.elem!r})"


class SetOf(T):
    """A set given by its characteristic function over a scalar sort."""
    def __init__(self, elem: T) -> None:
        self.elem = elem

    def __repr__(self) -> str:
        return f"SetOf({self.elem!r})"


class FiniteSet(T):
    """A set of lo..hi pairwise distinct fresh elements (explicit representation; forks over the sizes)."""
    def __init__(self, elem: T, lo: int, hi: int) -> None:
        self.elem, self.lo, self.hi = elem, lo, hi

    def __repr__(self) -> str:
        return f"FiniteSet({self.elem!r},{self.lo}..{self.hi})"


class DictEntries(T):
    """A dict with lo..hi entries (forks over the sizes), pairwise distinct fresh keys, insertion order = index."""
    def __init__(self, key: T, value: T, lo: int, hi: int) -> None:
        self.key, self.value, self.lo, self.hi = key, value, lo, hi

    def __repr__(self) -> str:
        return f"DictEntries({self.key!r},{self.value!r},{self.lo}..{self.hi})"


class DictOf(T):
    """A dict: key sequence (duplicate free, insertion order) + value map."""
    def __init__(self, key: T, value: T, distinct: bool = False, total: bool = False) -> None:
        self.key, self.value, self.distinct, self.total = key, value, distinct, total

    def __repr__(self) -> str:
        return f"DictOf({self.key!r},{self.value!r})"


class Ref(T):
    """An opaque heap object of class `cls`: identity + declared, immutable, typed field functions.
    Methods are resolved through the contract's `stubs` ("Cls.method": spec function | External).
    `maybe` lists class names for which isinstance() is unknown (an uninterpreted predicate)."""
    def __init__(self, cls: str, maybe: Optional[list[str]] = None, isa: Optional[list[str]] = None,
                 abstract: bool = False, **fields: T) -> None:
        self.cls = cls
        self.abstract = abstract
        self.fields = fields
        self.maybe = maybe or []
        self.isa = isa or []

    def __repr__(self) -> str:
        return f"Ref({self.cls})"


class Uninterpreted:
    """An abstract (uninterpreted) spec function: callable only symbolically. Used for the meaning of
    abstract operands (structural induction: operands are assumed to meet the abstract contract)."""
    def __init__(self, name: str, args: list, returns: T) -> None:
        self.name, self.args, self.returns = name, args, returns

    def __call__(self, *args: Any) -> Any:
        raise NotImplementedError(f"{self.name} is abstract: no native value")


class External:
    """Assumed contract of a callee outside the verified world: returns a fresh value of `returns`,
    may raise any of `raises` (nondeterministically), has no file-system effect unless `effect`."""
    def __init__(self, returns: T = None, raises: Optional[list[str]] = None, effect: Optional[str] = None,
                 pure: bool = False, ensures: Optional[Callable] = None, over_contract_params: bool = False) -> None:
        self.ensures = ensures    # spec function (self/args..., result) assumed of the fresh result
        # True: `ensures` names the (ghost) parameters of the contract under verification and `result`
        # instead of the callee's own arguments
        self.over_contract_params = over_contract_params
        self.returns = returns
        self.raises = raises or []
        self.effect = effect
        self.pure = pure


class TupleOf(T):
    """A fixed-arity tuple (as an element of symbolic sequences)."""
    def __init__(self, *elems: T) -> None:
        self.elems = elems

    def __repr__(self) -> str:
        return "TupleOf(" + ", ".join(map(repr, self.elems)) + ")"


class Union(T):
    """Element of one of several record types (for sequences holding objects of different classes)."""
    def __init__(self, *alts: T) -> None:
        self.alts = alts

    def __repr__(self) -> str:
        return "Union(" + ", ".join(map(repr, self.alts)) + ")"


class Recurrence:
    """A ghost function defined by recursion over a natural number:
           R(0, *params) = init(*params);   R(k + 1, *params) = step(R(k, *params), k, *params)
    Natively it is evaluated by iteration. Symbolically it is an uninterpreted function whose defining
    equations are instantiated at every index at which it is used (no induction is assumed)."""
    def __init__(self, name: str, init: Callable, step: Callable, returns: T) -> None:
        self.name, self.init, self.step, self.returns = name, init, step, returns

    def __call__(self, k: int, *params: Any) -> Any:
        value = self.init(*params)
        for j in range(k):
            value = self.step(value, j, *params)
        return value


class Loop:
    """Loop contract. `invariant` is a spec-style function whose parameter names are looked up
    among: the function's locals at the loop head, the function's parameters, the ghost index
    (`index`, counts completed iterations of a for loop) and the ghost name of the iterable
    (`iterable`). `modifies` lists the locals (and `obj.attr` paths) the body may change; when
    omitted it is computed syntactically from the loop body. `types` gives descriptors for
    havocked variables whose type is not that of their value at loop entry."""
    def __init__(self, invariant: Callable, index: str = "_i", iterable: str = "_it",
                 modifies: Optional[list[str]] = None, types: Optional[dict[str, T]] = None,
                 decreases: Optional[Callable] = None) -> None:
        self.invariant = invariant
        self.index = index
        self.iterable = iterable
        self.modifies = modifies
        self.types = types or {}
        self.decreases = decreases


def contract(target: str, props: list[str]) -> Callable:
    """Registers a contract class for `file::qualname`."""
    def deco(cls: Any) -> Any:
        cls.target = target
        cls.props = props
        cls.sidecar = cls.__module__
        name = getattr(cls, "name", None) or cls.__name__
        cls.cname = name
        if name in CONTRACTS:
            raise ValueError(f"duplicate contract name {name}")
        CONTRACTS[name] = cls
        return cls
    return deco


def spec(func: Callable) -> Callable:
    """Marks a spec function (executable natively, translatable by pyvc)."""
    SPECS[func.__name__] = func
    func.is_spec = True
    return func


def lemma(props: list[str], params: dict[str, T]) -> Callable:
    """A lemma over spec functions only (no code): `def name(params) -> bool` must be valid."""
    def deco(func: Callable) -> Callable:
        func.props = props
        func.params = params
        func.sidecar = func.__module__
        LEMMAS[func.__name__] = func
        return func
    return deco


# ---- helpers available inside specs (native meaning; pyvc gives them symbolic meaning) ----
def implies(a: bool, b: bool) -> bool:
    return (not a) or b


def iff(a: bool, b: bool) -> bool:
    return bool(a) == bool(b)


def forall(domain: Any, pred: Callable) -> bool:
    """forall(range(n) | sequence, lambda x: ...)"""
    return all(pred(x) for x in domain)


def exists(domain: Any, pred: Callable) -> bool:
    return any(pred(x) for x in domain)


def count(domain: Any, pred: Callable) -> int:
    return sum(1 for x in domain if pred(x))


NATIVE_STRINGS: Optional[set] = None


def forall_str(pred: Callable) -> bool:
    """for all strings. Symbolically a universal quantifier; natively (replay of a counter-model) it is evaluated
    over the strings occurring in the arguments and the result plus one fresh string: a string found there that
    falsifies the predicate is a genuine witness, `True` only means none was found."""
    if NATIVE_STRINGS is None:
        raise NotImplementedError("forall_str has no native evaluation outside a replay")
    return all(pred(x) for x in sorted(NATIVE_STRINGS) + ["~some other string~"])


def isnone(x: Any) -> bool:
    return x is None
