"""Conformance of the model classes (pyvc/models.py) with the installed Biopython (runs under
/venv/bin/python): the SAME class bodies that pyvc executes symbolically are executed natively here and
compared with Bio.SeqFeature on generated values. A mismatch is a checker error (exit 3), never a violation.

usage: /venv/bin/python -m pyvc.conformance [n]   -> JSON {"checked": n, "mismatches": [...]}"""
from __future__ import annotations

import itertools
import json
import random
import sys

from Bio.SeqFeature import CompoundLocation, SimpleLocation

from pyvc import models


def simple_pairs(rng: random.Random, count: int):
    for _ in range(count):
        start = rng.randrange(0, 30)
        end = start + rng.randrange(-2, 12)
        strand = rng.choice([1, -1, 0, None])
        yield start, end, strand


def main() -> int:
    count = int(sys.argv[1]) if len(sys.argv) > 1 else 3000
    rng = random.Random(20260926)
    mismatches = []
    checked = 0

    def note(what, *details):
        if len(mismatches) < 20:
            mismatches.append({"what": what, "details": [repr(d) for d in details]})

    made = []
    for start, end, strand in simple_pairs(rng, count):
        real = model = None
        real_exc = model_exc = None
        try:
            real = SimpleLocation(start, end, strand)
        except Exception as exc:  # pylint: disable=broad-except
            real_exc = type(exc).__name__
        try:
            model = models._SimpleLocation(start, end, strand)
        except Exception as exc:  # pylint: disable=broad-except
            model_exc = type(exc).__name__
        checked += 1
        if real_exc != model_exc:
            note("SimpleLocation.__init__ exception", (start, end, strand), real_exc, model_exc)
            continue
        if real is None:
            continue
        made.append((real, model))
        if (int(real.start), int(real.end), real.strand, len(real)) != (model.start, model.end, model.strand, len(model)):
            note("SimpleLocation attributes", (start, end, strand))
        for x in range(-1, 45, 3):
            checked += 1
            if (x in real) != (x in model):
                note("SimpleLocation.__contains__", (start, end, strand), x)
        if [int(p.start) for p in real.parts] != [p.start for p in model.parts]:
            note("SimpleLocation.parts", (start, end, strand))
    for _ in range(count):
        k = rng.choice([1, 2, 2, 3, 4])
        chosen = [rng.choice(made) for _ in range(k)]
        real_exc = model_exc = None
        real = model = None
        try:
            real = CompoundLocation([c[0] for c in chosen])
        except Exception as exc:  # pylint: disable=broad-except
            real_exc = type(exc).__name__
        try:
            model = models._CompoundLocation([c[1] for c in chosen])
        except Exception as exc:  # pylint: disable=broad-except
            model_exc = type(exc).__name__
        checked += 1
        if real_exc != model_exc:
            note("CompoundLocation.__init__ exception", k, real_exc, model_exc)
            continue
        if real is None:
            continue
        got = (int(real.start), int(real.end), real.strand, len(real), real.operator)
        want = (model.start, model.end, model.strand, len(model), model.operator)
        if got != want:
            note("CompoundLocation attributes", got, want)
        for x in range(-1, 45, 2):
            checked += 1
            if (x in real) != (x in model):
                note("CompoundLocation.__contains__", x)
    for (ra, ma), (rb, mb) in itertools.islice(itertools.combinations(made, 2), count):
        checked += 1
        if (ra == rb) != (ma == mb):
            note("SimpleLocation.__eq__", ra, rb)
    # builtin contracts used by pyvc: sorted() is a stable permutation with ordered keys
    for _ in range(count // 10):
        items = [(rng.randrange(5), i) for i in range(rng.randrange(0, 8))]
        out = sorted(items, key=lambda t: t[0])
        checked += 1
        if sorted(out) != sorted(items) or any(a[0] > b[0] for a, b in zip(out, out[1:])) \
                or any(a[0] == b[0] and a[1] > b[1] for a, b in zip(out, out[1:])):
            note("sorted stability", items)
    print(json.dumps({"checked": checked, "mismatches": mismatches}))
    return 1 if mismatches else 0


if __name__ == "__main__":
    sys.exit(main())
