"""The assembled symbolic interpreter."""
from __future__ import annotations

from typing import Any, Optional

from .builtins import BuiltinMixin
from .calls import CallMixin
from .containers import ContainerMixin
from .core import Ctx
from .expr import ExprMixin
from .ops import Ops
from .source import World
from .stmt import StmtMixin


class Interp(Ops, ExprMixin, ContainerMixin, StmtMixin, CallMixin, BuiltinMixin):
    def __init__(self, world: World, ctx: Ctx, contracts_by_target: dict[str, Any],
                 stubs: Optional[dict[str, Any]] = None, unroll: int = 6) -> None:
        self.world = world
        self.ctx = ctx
        self.contracts_by_target = contracts_by_target
        self.stubs: dict[str, Any] = dict(stubs or {})
        self.loop_specs: dict[int, Any] = {}
        self.unroll_bound = unroll
        self.global_cache: dict[Any, Any] = {}
        self.mro_cache: dict[str, Any] = {}
        self.class_pref: dict[str, str] = {}
        self.current_exc: list[Any] = []
        self.entry_values: dict[str, Any] = {}
        self.depth = 0
        self.effects: list[Any] = []
        self.ids: dict[int, int] = {}
        self.spec_uses_contracts = False
        self.open_findings = None
        self.concrete_model = None
        self.recur_done: dict[Any, set] = {}

    def reset_path(self) -> None:
        """Per-path interpreter state (global caches hold immutable values only... enum members
        and constants are rebuilt per path so that mutation in one path cannot leak)."""
        self.global_cache = {}
        self.current_exc = []
        self.entry_values = {}
        self.depth = 0
        self.effects = []
        self.ids = {}
        self.recur_done = {}
