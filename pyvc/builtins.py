"""Builtin functions and methods of builtin containers (their assumed contracts, DESIGN §2.5)."""
from __future__ import annotations

import ast
from typing import Any, Optional

import z3

from . import dsl
from .core import PyExc, Unsupported, PathPruned
from .expr import Frame, GenV
from .ops import conc_bool, conc_int, as_int_term, as_num_term, is_num, mk
from .values import (RefV, BoolV, IntV, RealV, StrV, NoneV, NONE, TupleV, ListV, SeqV, SetV, DictV, ObjV,
                     ClassV, FuncV, BoundV, BuiltinV, ModuleV, RangeV, SuperV, V, StrSort)

TYPE_NAMES = {"int": (IntV, BoolV), "bool": (BoolV,), "float": (RealV,), "str": (StrV,),
              "list": (ListV, SeqV), "tuple": (TupleV,), "set": (SetV,), "dict": (DictV,)}


class BuiltinMixin:
    def call_builtin(self, name: str, args: list[V], kwargs: dict[str, V], line: int,
                     frame: Optional[Frame] = None) -> V:
        ctx = self.ctx
        if name in ("noop", "print") or name.startswith(("logging.", "warnings.")):
            return NONE
        ext = self.stubs.get(name) or self.stubs.get(name.replace("ext:", ""))
        if isinstance(ext, dsl.External):
            return self.call_external(ext, name, args, line)
        if isinstance(ext, dsl.Uninterpreted):
            # an external function assumed to be a (deterministic, effect-free) function of its arguments
            ctx.assumptions_used.add(f"external callee {name} is a deterministic function of its arguments without effects")
            from .values import UninterpV
            return self.call(UninterpV(ext), args, {}, line)
        handler = getattr(self, "b_" + name.replace(".", "_").replace(":", "_"), None)
        if handler is not None:
            return handler(args, kwargs, line)
        raise Unsupported(f"builtin {name} (line {line})")

    # ---- scalars ------------------------------------------------------------------------------------------
    def b_len(self, args, kwargs, line):
        (value,) = args
        if isinstance(value, (ListV, TupleV)):
            return IntV(len(value.items))
        if isinstance(value, SeqV):
            return IntV(value.n)
        if isinstance(value, SetV):
            return self.set_len(value)
        if isinstance(value, DictV):
            return IntV(len(value.entries)) if value.entries is not None else IntV(value.keys.n)
        if isinstance(value, StrV):
            if value.s is not None:
                return IntV(len(value.s))
            fn = z3.Function("str_len", StrSort, z3.IntSort())
            term = fn(value.t)
            ctx_term = IntV(term)
            self.ctx.assume(term >= 0)
            return ctx_term
        if isinstance(value, RangeV):
            return IntV(z3.simplify(self.range_len(value)))
        if isinstance(value, ObjV):
            fn = self.find_method(value.cls, "__len__")
            if fn is not None:
                return self.call_function(fn, [value], {})
        raise Unsupported(f"len of {value!r}")

    def b_abs(self, args, kwargs, line):
        (value,) = args
        t = as_num_term(value)
        return mk(z3.If(t >= 0, t, -t))

    def b_int(self, args, kwargs, line):
        if not args:
            return IntV(0)
        value = args[0]
        if isinstance(value, (IntV, BoolV)):
            return IntV(as_int_term(value))
        if isinstance(value, RealV):
            t = value.t
            trunc = z3.If(t >= 0, z3.ToInt(t), -z3.ToInt(-t))
            return IntV(z3.simplify(trunc))
        if isinstance(value, StrV):
            if value.s is not None:
                try:
                    return IntV(int(value.s))
                except ValueError as err:
                    raise PyExc("ValueError", "int()", line) from err
            fn = z3.Function("str_to_int", StrSort, z3.IntSort())
            ok = z3.Function("str_is_int", StrSort, z3.BoolSort())
            self.check_safe(ok(value.t), "ValueError", line)
            return IntV(fn(value.t))
        raise Unsupported(f"int of {value!r}")

    def b_float(self, args, kwargs, line):
        value = args[0]
        t = as_num_term(value)
        return RealV(z3.ToReal(t) if t.sort() == z3.IntSort() else t)

    def b_bool(self, args, kwargs, line):
        if not args:
            return BoolV(False)
        t = self.truth(args[0])
        return BoolV(t)

    def b_str(self, args, kwargs, line):
        if not args:
            return StrV(s="")
        value = args[0]
        if isinstance(value, StrV):
            return value
        c = conc_int(value) if isinstance(value, IntV) else None
        if c is not None:
            return StrV(s=str(c))
        if isinstance(value, IntV):
            fn = z3.Function("int_to_str", z3.IntSort(), StrSort)
            back = z3.Function("str_to_int", StrSort, z3.IntSort())
            term = fn(value.t)
            self.ctx.assume(back(term) == value.t)
            self.ctx.assumptions_used.add("int(str(n)) == n (str of int is injective)")
            return StrV(t=term)
        if isinstance(value, RefV):
            return StrV(t=z3.Function(f"str_of:{value.desc.cls}", value.t.sort(), StrSort)(value.t))
        if isinstance(value, ObjV):
            fn = self.find_method(value.cls, "__str__")
            if fn is not None:
                try:
                    return self.call_function(fn, [value], {})
                except Unsupported:
                    pass
        return self.opaque_str("str")

    b_repr = b_str

    def b_round(self, args, kwargs, line):
        raise Unsupported("round")

    def b_id(self, args, kwargs, line):
        key = id(args[0])
        if key not in self.ids:
            self.ids[key] = len(self.ids) + 1
        return IntV(self.ids[key] * 1000003)

    def b_hash(self, args, kwargs, line):
        raise Unsupported("hash")

    def b_callable(self, args, kwargs, line):
        return BoolV(isinstance(args[0], (FuncV, BoundV, BuiltinV, ClassV)))

    def b_xor(self, args, kwargs, line):
        a, b = args
        if isinstance(a, BoolV) and isinstance(b, BoolV):
            return BoolV(z3.Xor(a.t, b.t))
        raise Unsupported("xor on non-bools")

    b_operator_xor = b_xor

    def b_isnone(self, args, kwargs, line):
        return BoolV(isinstance(args[0], NoneV))

    def b_implies(self, args, kwargs, line):
        a, b = (self.truth(x) for x in args)
        return BoolV(self.or_([self.not_(a), b]))

    def b_iff(self, args, kwargs, line):
        a, b = (self.truth(x) for x in args)
        a = z3.BoolVal(a) if isinstance(a, bool) else a
        b = z3.BoolVal(b) if isinstance(b, bool) else b
        return BoolV(a == b)

    # ---- type tests ---------------------------------------------------------------------------------------------
    def class_names(self, spec: V) -> list[str]:
        if isinstance(spec, TupleV):
            out = []
            for item in spec.items:
                out.extend(self.class_names(item))
            return out
        if isinstance(spec, ClassV):
            return [spec.name]
        if isinstance(spec, BuiltinV):
            return [spec.name]
        raise Unsupported(f"isinstance against {spec!r}")

    def b_isinstance(self, args, kwargs, line):
        value, spec = args
        if isinstance(value, RefV):
            terms = []
            for name in self.class_names(spec):
                if name == value.desc.cls or name in value.desc.isa or name == "object":
                    return BoolV(True)
                if name in value.desc.maybe:
                    terms.append(z3.Function(f"isinstance_{name}", value.t.sort(), z3.BoolSort())(value.t))
            return BoolV(self.or_(terms))
        for name in self.class_names(spec):
            if name in TYPE_NAMES:
                if isinstance(value, TYPE_NAMES[name]):
                    return BoolV(True)
                if name == "int" and isinstance(value, ObjV):
                    info = self.class_info(value.cls)
                    if info is not None and "IntEnum" in info.bases:
                        return BoolV(True)
                continue
            if name == "object":
                return BoolV(True)
            if isinstance(value, ObjV):
                if value.cls == name or self.world.is_subclass(value.cls, name) or self.exc_is(value.cls, name):
                    return BoolV(True)
        return BoolV(False)

    def b_issubclass(self, args, kwargs, line):
        value, spec = args
        if not isinstance(value, ClassV):
            raise Unsupported("issubclass of non-class")
        return BoolV(any(self.world.is_subclass(value.name, n) for n in self.class_names(spec)))

    def b_type(self, args, kwargs, line):
        (value,) = args
        if isinstance(value, ObjV):
            return ClassV(value.cls)
        for name, kinds in TYPE_NAMES.items():
            if name != "int" and isinstance(value, kinds):
                return BuiltinV(name)
        if isinstance(value, IntV):
            return BuiltinV("int")
        if isinstance(value, NoneV):
            return BuiltinV("NoneType")
        raise Unsupported(f"type of {value!r}")

    def b_hasattr(self, args, kwargs, line):
        obj, name = args
        if not isinstance(name, StrV) or name.s is None:
            raise Unsupported("hasattr with computed name")
        return BoolV(self.has_attr(obj, name.s))

    def b_getattr(self, args, kwargs, line):
        obj, name = args[0], args[1]
        if not isinstance(name, StrV) or name.s is None:
            raise Unsupported("getattr with computed name")
        try:
            return self.getattr(obj, name.s, line)
        except PyExc as exc:
            if exc.etype == "AttributeError" and len(args) > 2:
                return args[2]
            raise

    def b_setattr(self, args, kwargs, line):
        obj, name, value = args
        if not isinstance(name, StrV) or name.s is None:
            raise Unsupported("setattr with computed name")
        self.setattr(obj, name.s, value, line)
        return NONE

    # ---- iteration helpers ------------------------------------------------------------------------------------------
    def b_range(self, args, kwargs, line):
        if len(args) == 1:
            start, stop, step = IntV(0), args[0], IntV(1)
        elif len(args) == 2:
            start, stop, step = args[0], args[1], IntV(1)
        else:
            start, stop, step = args
        cstep = conc_int(step)
        if cstep is None or cstep == 0:
            raise Unsupported("range with symbolic step")
        cstart, cstop = conc_int(start), conc_int(stop)
        if cstart is not None and cstop is not None:
            return ListV([IntV(i) for i in range(cstart, cstop, cstep)])
        return RangeV(start, stop, cstep)

    def b_enumerate(self, args, kwargs, line):
        source = args[0]
        start = conc_int(args[1]) if len(args) > 1 else conc_int(kwargs.get("start", IntV(0)))
        if isinstance(source, SeqV):
            if start != 0:
                raise Unsupported("enumerate(start) on symbolic sequence")
            marker = EnumV(source)
            return marker
        items = self.iterate_concrete(source, line)
        return ListV([TupleV([IntV(i + (start or 0)), item]) for i, item in enumerate(items)])

    def b_zip(self, args, kwargs, line):
        lists = [self.iterate_concrete(a, line) for a in args]
        return ListV([TupleV(list(group)) for group in zip(*lists)])

    def b_reversed(self, args, kwargs, line):
        items = self.iterate_concrete(args[0], line)
        return ListV(list(reversed(items)))

    def b_iter(self, args, kwargs, line):
        raise Unsupported("explicit iterator protocol")

    b_next = b_iter

    def b_map(self, args, kwargs, line):
        func = args[0]
        items = self.iterate_concrete(args[1], line)
        return ListV([self.call(func, [item], {}, line) for item in items])

    def b_filter(self, args, kwargs, line):
        func = args[0]
        out = []
        for item in self.iterate_concrete(args[1], line):
            keep = self.truth(self.call(func, [item], {}, line)) if not isinstance(func, NoneV) else self.truth(item)
            if self.ctx.branch(keep):
                out.append(item)
        return ListV(out)

    def b_list(self, args, kwargs, line):
        if not args:
            return ListV([])
        value = args[0]
        if isinstance(value, SeqV):
            return value.clone()
        if isinstance(value, GenV):
            return self.gen_to_seq(value, line)
        if isinstance(value, EnumV):
            raise Unsupported("list(enumerate(symbolic))")
        if isinstance(value, DictV) and value.entries is None:
            return value.keys.clone()
        return ListV(self.iterate_concrete(value, line))

    def b_tuple(self, args, kwargs, line):
        if not args:
            return TupleV([])
        return TupleV(self.iterate_concrete(args[0], line))

    def b_set(self, args, kwargs, line):
        if not args:
            return SetV(items=[])
        value = args[0]
        if isinstance(value, GenV):
            return self.gen_to_set(value, line)
        if isinstance(value, SeqV):
            i = z3.Int(self.ctx.fresh_name("q"))
            x = z3.Const(self.ctx.fresh_name("x"), value.et.sort)
            arr = z3.Lambda([x], z3.Exists([i], z3.And(i >= 0, i < value.n, value.sel(i) == x)))
            return SetV(arr=arr, et=value.et)
        if isinstance(value, SetV):
            return SetV(items=list(value.items) if value.items is not None else None, arr=value.arr, et=value.et)
        return self.make_set(self.iterate_concrete(value, line))

    b_frozenset = b_set

    def b_dict(self, args, kwargs, line):
        result = DictV(entries=[])
        if args:
            source = args[0]
            if isinstance(source, DictV) and source.entries is not None:
                result.entries = list(source.entries)
            else:
                for pair in self.iterate_concrete(source, line):
                    k, v = self.iterate_concrete(pair, line)
                    self.dict_set(result, k, v)
        for key, value in kwargs.items():
            self.dict_set(result, StrV(s=key), value)
        return result

    def b_defaultdict(self, args, kwargs, line):
        return DictV(entries=[], default_factory=args[0] if args else None)

    b_collections_defaultdict = b_defaultdict

    def b_dataclasses_asdict(self, args, kwargs, line):
        obj = args[0]
        if not isinstance(obj, ObjV):
            raise Unsupported("asdict of non-object")
        return DictV(entries=[(StrV(s=k), v) for k, v in obj.fields.items()])

    def b_ext_OrderedDict(self, args, kwargs, line):
        return self.b_dict(args, kwargs, line)

    def b_deepcopy(self, args, kwargs, line):
        raise Unsupported("deepcopy")

    # ---- reductions -------------------------------------------------------------------------------------------------
    def _quantified(self, value: V, is_all: bool, line: int) -> V:
        if isinstance(value, GenV):
            return BoolV(self.gen_any(value, is_all))
        if isinstance(value, SeqV):
            i = z3.Int(self.ctx.fresh_name("q"))
            elem, rng = self.bound_element(value, i)
            t = self.truth(elem)
            t = z3.BoolVal(t) if isinstance(t, bool) else t
            return BoolV(z3.ForAll([i], z3.Implies(rng, t)) if is_all else z3.Exists([i], z3.And(rng, t)))
        items = self.iterate_concrete(value, line)
        if self.ctx.spec_depth or self.ctx.quant_depth:
            terms = [self.truth(item) for item in items]
            return BoolV(self.and_(terms) if is_all else self.or_(terms))
        # exact short-circuit order (items are already evaluated: no side effects remain)
        terms = [self.truth(item) for item in items]
        return BoolV(self.and_(terms) if is_all else self.or_(terms))

    def b_any(self, args, kwargs, line):
        return self._quantified(args[0], False, line)

    def b_all(self, args, kwargs, line):
        return self._quantified(args[0], True, line)

    def b_forall_str(self, args, kwargs, line):
        x = z3.Const(self.ctx.fresh_name("s"), StrSort)
        value = self.eval_bound(lambda: self.call(args[0], [StrV(t=x)], {}, line), z3.BoolVal(True), x)
        t = self.truth(value)
        t = z3.BoolVal(t) if isinstance(t, bool) else t
        return BoolV(z3.ForAll([x], t))

    def b_forall(self, args, kwargs, line):
        return self._bounded_quant(args[0], args[1], True, line)

    def b_exists(self, args, kwargs, line):
        return self._bounded_quant(args[0], args[1], False, line)

    def _bounded_quant(self, domain: V, pred: V, is_all: bool, line: int) -> V:
        if isinstance(domain, (SeqV, RangeV)) or (isinstance(domain, DictV) and domain.entries is None):
            i = z3.Int(self.ctx.fresh_name("q"))
            elem, rng = self.bound_element(domain, i)
            value = self.eval_bound(lambda: self.call(pred, [elem], {}, line), rng, i)
            t = self.truth(value)
            t = z3.BoolVal(t) if isinstance(t, bool) else t
            return BoolV(z3.ForAll([i], z3.Implies(rng, t)) if is_all else z3.Exists([i], z3.And(rng, t)))
        terms = [self.truth(self.call(pred, [item], {}, line)) for item in self.iterate_concrete(domain, line)]
        return BoolV(self.and_(terms) if is_all else self.or_(terms))

    def b_count(self, args, kwargs, line):
        domain, pred = args
        total: Any = z3.IntVal(0)
        for item in self.iterate_concrete(domain, line):
            t = self.truth(self.call(pred, [item], {}, line))
            t = z3.BoolVal(t) if isinstance(t, bool) else t
            total = total + z3.If(t, 1, 0)
        return IntV(z3.simplify(total))

    def _extreme(self, args, kwargs, line, want_min: bool) -> V:
        key = kwargs.get("key")
        default = kwargs.get("default")
        if len(args) == 1:
            source = args[0]
            if isinstance(source, GenV):
                return self.gen_extreme(source, want_min, line)
            if isinstance(source, SeqV):
                i = z3.Int(self.ctx.fresh_name("q"))
                elem, rng = self.bound_element(source, i)
                if not is_num(elem):
                    raise Unsupported("min/max of symbolic sequence of non-numbers")
                term = as_num_term(elem)
                self.check_safe(source.n > 0, "ValueError", line)
                m = z3.Const(self.ctx.fresh_name("ext"), term.sort())
                self.ctx.assume(z3.ForAll([i], z3.Implies(rng, (m <= term) if want_min else (m >= term))))
                self.ctx.assume(z3.Exists([i], z3.And(rng, m == term)))
                return mk(m)
            items = self.iterate_concrete(source, line)
        else:
            items = list(args)
        if not items:
            if default is not None:
                return default
            raise PyExc("ValueError", "min()/max() of empty sequence", line)
        best = items[0]
        best_key = self.call(key, [best], {}, line) if key is not None else best
        for item in items[1:]:
            item_key = self.call(key, [item], {}, line) if key is not None else item
            better = self.less(item_key, best_key, True) if want_min else self.less(best_key, item_key, True)
            c = conc_bool(better)
            if c is True:
                best, best_key = item, item_key
            elif c is None:
                try:
                    new_best = self.ite(better, item, best)
                    new_key = self.ite(better, item_key, best_key)
                    best, best_key = new_best, new_key
                except Unsupported:
                    if self.ctx.branch(better):
                        best, best_key = item, item_key
        return best

    def b_min(self, args, kwargs, line):
        return self._extreme(args, kwargs, line, True)

    def b_max(self, args, kwargs, line):
        return self._extreme(args, kwargs, line, False)

    def b_sum(self, args, kwargs, line):
        source = args[0]
        start = args[1] if len(args) > 1 else IntV(0)
        if isinstance(source, GenV):
            return self.binop("+", start, self.gen_sum(source, line), line)
        if isinstance(source, SeqV):
            raise Unsupported("sum of symbolic sequence (use a generator)")
        total = start
        for item in self.iterate_concrete(source, line):
            total = self.binop("+", total, item, line)
        return total

    def sort_items(self, items: list[V], key: Optional[V], reverse: bool, line: int) -> list[V]:
        """Stable insertion sort; forks on undecided comparisons."""
        if getattr(self, "abstract_sort", False):
            # the contract does not speak about the ORDER of this result (only about its elements)
            self.ctx.assumptions_used.add("order of sorted() results not modelled in this contract (elements only)")
            return list(items)
        keyed = [(self.call(key, [item], {}, line) if key is not None else item, item) for item in items]
        out: list[tuple[V, V]] = []
        for entry in keyed:
            pos = len(out)
            while pos > 0:
                prev = out[pos - 1]
                # move left while entry is strictly before prev (stability)
                before = self.less(prev[0], entry[0], True) if reverse else self.less(entry[0], prev[0], True)
                if not self.ctx.branch(before):
                    break
                pos -= 1
            out.insert(pos, entry)
        return [item for _, item in out]

    def b_sorted(self, args, kwargs, line):
        source = args[0]
        key = kwargs.get("key")
        if isinstance(key, NoneV):
            key = None
        reverse = conc_bool(self.truth(kwargs["reverse"])) if "reverse" in kwargs else False
        if reverse is None:
            if self.ctx.branch(self.truth(kwargs["reverse"])):
                reverse = True
            else:
                reverse = False
        if isinstance(source, (SeqV, GenV)):
            if isinstance(source, GenV):
                source = self.gen_to_seq(source, line)
            return self.sorted_seq(source, key, reverse, line)
        return ListV(self.sort_items(self.iterate_concrete(source, line), key, reverse, line))

    def sorted_seq(self, source: SeqV, key: Optional[V], reverse: bool, line: int) -> SeqV:
        """Assumed contract of sorted() on a symbolic sequence: a permutation with ordered keys."""
        ctx = self.ctx
        ctx.assumptions_used.add("sorted(): result is a permutation of the input with non-decreasing keys (stability not modelled for symbolic sequences)")
        arr = z3.Const(ctx.fresh_name("sorted[]"), source.arr.sort())
        result = SeqV(arr, source.n, source.et)
        perm = z3.Function(ctx.fresh_name("perm"), z3.IntSort(), z3.IntSort())
        inv = z3.Function(ctx.fresh_name("perm_inv"), z3.IntSort(), z3.IntSort())
        i, j = z3.Int(ctx.fresh_name("q")), z3.Int(ctx.fresh_name("q"))
        rng_i = z3.And(i >= 0, i < source.n)
        ctx.assume(z3.ForAll([i], z3.Implies(rng_i, z3.And(perm(i) >= 0, perm(i) < source.n, inv(perm(i)) == i,
                                                          z3.Select(arr, i) == source.sel(perm(i))))))
        ctx.assume(z3.ForAll([i], z3.Implies(rng_i, z3.And(inv(i) >= 0, inv(i) < source.n, perm(inv(i)) == i))))

        def key_term(index: Any) -> Any:
            elem = self.unpack(z3.Select(arr, index), source.et)
            value = self.eval_bound(lambda: (self.call(key, [elem], {}, line) if key is not None else elem),
                                    z3.BoolVal(True), index)
            return as_num_term(value)
        ki, kj = key_term(i), key_term(j)
        ordered = (ki >= kj) if reverse else (ki <= kj)
        ctx.assume(z3.ForAll([i, j], z3.Implies(z3.And(i >= 0, i < j, j < source.n), ordered)))
        ctx.havoc_used = True
        return result

    # ---- file system effects (C20) ----------------------------------------------------------------------------------
    def effect(self, op: str, path: V) -> None:
        self.effects.append((op, path))

    def b_open(self, args, kwargs, line):
        path = args[0]
        mode = args[1] if len(args) > 1 else kwargs.get("mode", StrV(s="r"))
        if not isinstance(mode, StrV) or mode.s is None:
            raise Unsupported("open with computed mode")
        if any(ch in mode.s for ch in "wax+"):
            self.effect("open-write", path)
        return ObjV("FileHandle", {"path": path, "mode": mode})

    def b_os_remove(self, args, kwargs, line):
        self.effect("remove", args[0])
        return NONE

    b_os_unlink = b_os_remove

    def b_os_mkdir(self, args, kwargs, line):
        self.effect("mkdir", args[0])
        return NONE

    b_os_makedirs = b_os_mkdir

    def b_shutil_rmtree(self, args, kwargs, line):
        self.effect("rmtree", args[0])
        return NONE

    def b_shutil_copy(self, args, kwargs, line):
        self.effect("copy", args[1])
        return NONE

    # ---- methods of builtin containers ------------------------------------------------------------------------------------
    def call_method_builtin(self, obj: V, name: str, args: list[V], kwargs: dict[str, V], line: int) -> V:
        handler = None
        if isinstance(obj, ListV):
            handler = getattr(self, "m_list_" + name, None)
        elif isinstance(obj, SeqV):
            handler = getattr(self, "m_seq_" + name, None)
        elif isinstance(obj, SetV):
            handler = getattr(self, "m_set_" + name, None)
        elif isinstance(obj, DictV):
            handler = getattr(self, "m_dict_" + name, None)
        elif isinstance(obj, StrV):
            handler = getattr(self, "m_str_" + name, None)
        elif isinstance(obj, TupleV):
            handler = getattr(self, "m_tuple_" + name, None)
        elif isinstance(obj, ObjV) and obj.cls == "FileHandle":
            if name == "write":
                self.effect("write", obj.fields["path"])
                return NONE
            if name in ("close", "flush"):
                return NONE
        if handler is None:
            raise Unsupported(f"method {name} of {obj.kind} (line {line})")
        return handler(obj, args, kwargs, line)

    # list
    def m_list_append(self, obj, args, kwargs, line):
        obj.items.append(args[0])
        return NONE

    def m_list_extend(self, obj, args, kwargs, line):
        obj.items.extend(self.iterate_concrete(args[0], line))
        return NONE

    def m_list_insert(self, obj, args, kwargs, line):
        pos = conc_int(args[0])
        if pos is None:
            pos = self.concretize_pos(args[0], len(obj.items), line)
        obj.items.insert(pos, args[1])
        return NONE

    def concretize_pos(self, value: V, length: int, line: int) -> int:
        term = as_int_term(value)
        candidates = list(range(0, length + 1))
        choice = self.ctx.decide(len(candidates) + 1)
        if choice == len(candidates):
            cond = z3.Or(term < 0, term > length)
            if not self.ctx.feasible(cond):
                raise PathPruned()
            raise Unsupported("insert position outside the list")
        cond = term == candidates[choice]
        if not self.ctx.feasible(cond):
            raise PathPruned()
        self.ctx.assume(cond)
        return candidates[choice]

    def m_list_pop(self, obj, args, kwargs, line):
        if not obj.items:
            raise PyExc("IndexError", "pop from empty list", line)
        pos = -1
        if args:
            pos = self.concretize_index(args[0], len(obj.items), line)
            if not -len(obj.items) <= pos < len(obj.items):
                raise PyExc("IndexError", "pop index out of range", line)
        return obj.items.pop(pos)

    def m_list_clear(self, obj, args, kwargs, line):
        obj.items.clear()
        return NONE

    def m_list_reverse(self, obj, args, kwargs, line):
        obj.items.reverse()
        return NONE

    def m_list_copy(self, obj, args, kwargs, line):
        return ListV(list(obj.items))

    def m_list_sort(self, obj, args, kwargs, line):
        key = kwargs.get("key")
        if isinstance(key, NoneV):
            key = None
        reverse = "reverse" in kwargs and conc_bool(self.truth(kwargs["reverse"])) is True
        obj.items[:] = self.sort_items(list(obj.items), key, reverse, line)
        return NONE

    def m_list_index(self, obj, args, kwargs, line):
        for pos, item in enumerate(obj.items):
            if self.ctx.branch(self.eq(item, args[0])):
                return IntV(pos)
        raise PyExc("ValueError", "not in list", line)

    def m_list_count(self, obj, args, kwargs, line):
        total: Any = z3.IntVal(0)
        for item in obj.items:
            t = self.eq(item, args[0])
            t = z3.BoolVal(t) if isinstance(t, bool) else t
            total = total + z3.If(t, 1, 0)
        return IntV(z3.simplify(total))

    def m_list_remove(self, obj, args, kwargs, line):
        for pos, item in enumerate(obj.items):
            if self.ctx.branch(self.eq(item, args[0])):
                del obj.items[pos]
                return NONE
        raise PyExc("ValueError", "list.remove(x): x not in list", line)

    def m_tuple_index(self, obj, args, kwargs, line):
        return self.m_list_index(obj, args, kwargs, line)

    def m_tuple_count(self, obj, args, kwargs, line):
        return self.m_list_count(obj, args, kwargs, line)

    # symbolic sequence
    def m_seq_append(self, obj, args, kwargs, line):
        self.seq_append(obj, args[0])
        return NONE

    def m_seq_copy(self, obj, args, kwargs, line):
        return obj.clone()

    def m_seq_insert(self, obj, args, kwargs, line):
        """list.insert(pos, x) with 0 <= pos <= len (Python clamps other positions: not modelled)"""
        pos = as_int_term(args[0])
        if self.ctx.feasible(z3.Not(z3.And(pos >= 0, pos <= obj.n))):
            raise Unsupported("insert position not provably inside the sequence")
        old, term = obj.clone(), self.pack(args[1], obj.et)
        obj.fn = lambda j, old=old, pos=pos, term=term: z3.If(j < pos, old.sel(j), z3.If(j == pos, term, old.sel(z3.simplify(j - 1))))
        obj.arr, obj.off, obj.n = None, 0, z3.simplify(obj.n + 1)
        return NONE

    def m_seq_pop(self, obj, args, kwargs, line):
        if args:
            raise Unsupported("pop(i) on symbolic sequence")
        self.check_safe(obj.n > 0, "IndexError", line)
        value = self.unpack(obj.sel(z3.simplify(obj.n - 1)), obj.et)
        obj.n = z3.simplify(obj.n - 1)
        return value

    def m_seq_extend(self, obj, args, kwargs, line):
        other = args[0]
        if isinstance(other, (ListV, TupleV)):
            for item in other.items:
                self.seq_append(obj, item)
            return NONE
        if isinstance(other, SeqV):
            joined = self.seq_concat(obj, other)
            obj.arr, obj.n, obj.off = joined.arr, joined.n, joined.off
            return NONE
        raise Unsupported("extend of symbolic sequence")

    # set
    def m_set_add(self, obj, args, kwargs, line):
        self.set_add(obj, args[0])
        return NONE

    def m_set_copy(self, obj, args, kwargs, line):
        return SetV(items=list(obj.items) if obj.items is not None else None, arr=obj.arr, et=obj.et)

    def m_set_clear(self, obj, args, kwargs, line):
        if obj.items is None:
            raise Unsupported("clear of array set")
        obj.items.clear()
        return NONE

    def _as_set(self, value: V, line: int) -> SetV:
        if isinstance(value, SetV):
            return value
        if isinstance(value, (SeqV, GenV)):
            return self.b_set([value], {}, line)
        if isinstance(value, DictV) and value.entries is None:
            return self.b_set([value.keys], {}, line)
        return self.make_set(self.iterate_concrete(value, line))

    def m_set_update(self, obj, args, kwargs, line):
        for other in args:
            other = self._as_set(other, line)
            if obj.items is not None and other.items is not None:
                for item, cond in other.items:
                    self.set_add(obj, item, cond)
            else:
                et = obj.et or other.et
                a, b = self.set_to_array(obj, et), self.set_to_array(other, et)
                x = z3.Const(self.ctx.fresh_name("x"), et.sort)
                obj.arr = z3.Lambda([x], z3.Or(z3.Select(a, x), z3.Select(b, x)))
                obj.items, obj.et = None, et
        return NONE

    def m_set_union(self, obj, args, kwargs, line):
        result = self.m_set_copy(obj, [], {}, line)
        self.m_set_update(result, args, kwargs, line)
        return result

    def m_set_intersection(self, obj, args, kwargs, line):
        other = self._as_set(args[0], line)
        if obj.items is not None:
            items = []
            for item, cond in obj.items:
                both = self.and_([cond, self.contains(other, item, line)])
                if conc_bool(both) is not False:
                    items.append((item, both if not isinstance(both, bool) else z3.BoolVal(both)))
            return SetV(items=items)
        if other.items is not None:
            return self.m_set_intersection(other, [obj], kwargs, line)
        x = z3.Const(self.ctx.fresh_name("x"), obj.et.sort)
        return SetV(arr=z3.Lambda([x], z3.And(z3.Select(obj.arr, x), z3.Select(other.arr, x))), et=obj.et)

    def m_set_difference(self, obj, args, kwargs, line):
        other = self._as_set(args[0], line)
        if obj.items is not None:
            items = []
            for item, cond in obj.items:
                keep = self.and_([cond, self.not_(self.contains(other, item, line))])
                if conc_bool(keep) is not False:
                    items.append((item, keep if not isinstance(keep, bool) else z3.BoolVal(keep)))
            return SetV(items=items)
        et = obj.et
        b = self.set_to_array(other, et)
        x = z3.Const(self.ctx.fresh_name("x"), et.sort)
        return SetV(arr=z3.Lambda([x], z3.And(z3.Select(obj.arr, x), z3.Not(z3.Select(b, x)))), et=et)

    def m_set_isdisjoint(self, obj, args, kwargs, line):
        inter = self.m_set_intersection(obj, args, kwargs, line)
        if inter.items is not None:
            return BoolV(self.not_(self.or_([c for _, c in inter.items])))
        x = z3.Const(self.ctx.fresh_name("x"), inter.et.sort)
        return BoolV(z3.Not(z3.Exists([x], z3.Select(inter.arr, x))))

    def m_set_issubset(self, obj, args, kwargs, line):
        other = self._as_set(args[0], line)
        if obj.items is not None:
            return BoolV(self.and_([self.or_([self.not_(c), self.contains(other, item, line)]) for item, c in obj.items]))
        raise Unsupported("issubset of array set")

    def m_set_discard(self, obj, args, kwargs, line):
        if obj.items is None:
            obj.arr = z3.Store(obj.arr, self.pack(args[0], obj.et), z3.BoolVal(False))
            return NONE
        obj.items = [(item, z3.simplify(z3.And(cond, z3.Not(_b(self.eq(item, args[0])))))) for item, cond in obj.items]
        return NONE

    def m_set_remove(self, obj, args, kwargs, line):
        self.check_safe(self.contains(obj, args[0], line), "KeyError", line)
        return self.m_set_discard(obj, args, kwargs, line)

    # dict
    def m_dict_get(self, obj, args, kwargs, line):
        found = self.dict_lookup(obj, args[0])
        if found is not None:
            return found
        return args[1] if len(args) > 1 else NONE

    def m_dict_items(self, obj, args, kwargs, line):
        if obj.entries is None:
            return DictItemsV(obj)
        return ListV([TupleV([k, v]) for k, v in obj.entries])

    def m_dict_keys(self, obj, args, kwargs, line):
        if obj.entries is None:
            return obj.keys
        return ListV([k for k, _ in obj.entries])

    def m_dict_values(self, obj, args, kwargs, line):
        if obj.entries is None:
            raise Unsupported("values of symbolic dict")
        return ListV([v for _, v in obj.entries])

    def m_dict_copy(self, obj, args, kwargs, line):
        if obj.entries is None:
            return DictV(keys=obj.keys.clone(), vals=obj.vals, vt=obj.vt)
        return DictV(entries=list(obj.entries), default_factory=obj.default_factory)

    def m_dict_pop(self, obj, args, kwargs, line):
        if obj.entries is None:
            raise Unsupported("pop of symbolic dict")
        for pos, (k, v) in enumerate(obj.entries):
            same = self.eq(k, args[0])
            c = conc_bool(same)
            if c is True or (c is None and self.ctx.branch(same)):
                del obj.entries[pos]
                return v
        if len(args) > 1:
            return args[1]
        raise PyExc("KeyError", "pop", line)

    def m_dict_update(self, obj, args, kwargs, line):
        for other in args:
            if isinstance(other, DictV) and other.entries is not None:
                for k, v in other.entries:
                    self.dict_set(obj, k, v)
            else:
                raise Unsupported("update from symbolic dict")
        for key, value in kwargs.items():
            self.dict_set(obj, StrV(s=key), value)
        return NONE

    def m_dict_setdefault(self, obj, args, kwargs, line):
        found = self.dict_lookup(obj, args[0])
        if found is not None:
            return found
        value = args[1] if len(args) > 1 else NONE
        self.dict_set(obj, args[0], value)
        return value

    # str (values mostly opaque)
    def m_str_upper(self, obj, args, kwargs, line):
        if obj.s is not None:
            return StrV(s=obj.s.upper())
        fn = z3.Function("str_upper", StrSort, StrSort)
        result = fn(obj.t)
        self.ctx.assume(fn(result) == result)   # idempotent
        return StrV(t=result)

    def m_str_lower(self, obj, args, kwargs, line):
        if obj.s is not None:
            return StrV(s=obj.s.lower())
        return StrV(t=z3.Function("str_lower", StrSort, StrSort)(obj.t))

    def m_str_join(self, obj, args, kwargs, line):
        return self.opaque_str("join")

    def m_str_format(self, obj, args, kwargs, line):
        return self.opaque_str("format")

    def m_str_replace(self, obj, args, kwargs, line):
        if obj.s is not None and all(isinstance(a, StrV) and a.s is not None for a in args[:2]):
            return StrV(s=obj.s.replace(args[0].s, args[1].s))
        return self.opaque_str("replace")

    def m_str_strip(self, obj, args, kwargs, line):
        return StrV(s=obj.s.strip()) if obj.s is not None and not args else self.opaque_str("strip")

    def m_str_lstrip(self, obj, args, kwargs, line):
        if obj.s is not None and all(isinstance(a, StrV) and a.s is not None for a in args):
            return StrV(s=obj.s.lstrip(*[a.s for a in args]))
        return self.opaque_str("lstrip")

    def m_str_rstrip(self, obj, args, kwargs, line):
        if obj.s is not None and all(isinstance(a, StrV) and a.s is not None for a in args):
            return StrV(s=obj.s.rstrip(*[a.s for a in args]))
        return self.opaque_str("rstrip")

    def m_str_startswith(self, obj, args, kwargs, line):
        if obj.s is not None and isinstance(args[0], StrV) and args[0].s is not None:
            return BoolV(obj.s.startswith(args[0].s))
        if isinstance(args[0], StrV) and args[0].s is not None:
            return BoolV(self.ctx.str_pred("startswith", args[0].s, obj))
        return BoolV(z3.Bool(self.ctx.fresh_name("startswith")))

    def m_str_endswith(self, obj, args, kwargs, line):
        if obj.s is not None and isinstance(args[0], StrV) and args[0].s is not None:
            return BoolV(obj.s.endswith(args[0].s))
        if isinstance(args[0], StrV) and args[0].s is not None:
            return BoolV(self.ctx.str_pred("endswith", args[0].s, obj))
        return BoolV(z3.Bool(self.ctx.fresh_name("endswith")))

    def m_str_isdigit(self, obj, args, kwargs, line):
        if obj.s is not None:
            return BoolV(obj.s.isdigit())
        return BoolV(z3.Function("str_isdigit", StrSort, z3.BoolSort())(obj.t))


class EnumV(V):
    """enumerate() over a symbolic sequence (only usable as the iterable of an invariant loop)."""
    kind = "enumerate"

    def __init__(self, source: SeqV) -> None:
        self.source = source


class DictItemsV(V):
    """items() of a symbolic dict."""
    kind = "dict_items"

    def __init__(self, source: DictV) -> None:
        self.source = source


def _b(t: Any) -> Any:
    return z3.BoolVal(t) if isinstance(t, bool) else t
