"""Verification of one contract against the real function it names."""
from __future__ import annotations

import ast
import time
import traceback
from typing import Any, Optional

import z3

from . import dsl
from .core import Ctx, PyExc, Unsupported, PathPruned, explore
from .interp import Interp
from .source import World, function_digest, loops_of
from .values import (FuncV, ObjV, ListV, TupleV, SeqV, SetV, DictV, V, NONE)


def snapshot(value: V, memo: Optional[dict] = None) -> V:
    """Entry-state copy for old(...): copies the mutable Python-side structure, shares terms."""
    memo = {} if memo is None else memo
    if id(value) in memo:
        return memo[id(value)]
    if isinstance(value, ObjV):
        copy = ObjV(value.cls, {})
        memo[id(value)] = copy
        copy.fields = {k: snapshot(v, memo) for k, v in value.fields.items()}
        return copy
    if isinstance(value, ListV):
        copy = ListV([])
        memo[id(value)] = copy
        copy.items = [snapshot(v, memo) for v in value.items]
        return copy
    if isinstance(value, TupleV):
        return TupleV([snapshot(v, memo) for v in value.items])
    if isinstance(value, SeqV):
        return value.clone()
    if isinstance(value, SetV):
        return SetV(items=list(value.items) if value.items is not None else None, arr=value.arr, et=value.et)
    if isinstance(value, DictV):
        if value.entries is not None:
            return DictV(entries=[(snapshot(k, memo), snapshot(v, memo)) for k, v in value.entries],
                         default_factory=value.default_factory)
        return DictV(keys=value.keys.clone(), vals=value.vals, vt=value.vt)
    return value


def verify_contract(repo: str, con: Any, contracts_by_target: dict[str, Any], model_paths: list[str],
                    timeout_ms: int, mode: str = "main", open_findings: Optional[list[str]] = None,
                    concrete_model: Optional[dict[str, Any]] = None) -> dict[str, Any]:
    """mode 'main': assume NOT any open known-finding class; mode 'known:<id>': assume that class."""
    started = time.time()
    result: dict[str, Any] = {
        "contract": con.cname, "target": con.target, "props": list(con.props), "mode": mode,
        "obligations": [], "out_of_subset": None, "paths": 0, "solver_s": 0.0, "inlined": [],
        "assumptions": [], "covers": [], "digest": None, "loops": 0, "outcomes": {},
    }
    world = World(repo, model_paths)
    # a contract whose obligations are known to be slow for the solver (symbolic modulus) asks for more time
    ctx = Ctx(max(timeout_ms, int(con.__dict__.get("prove_timeout_s", 0) * 1000)))
    ctx.cross_check_every = 4 if timeout_ms > 10000 else 0
    budget = con.__dict__.get("budget_s", 150 if timeout_ms <= 10000 else 900)
    if mode == "small":
        # the search only looks for models: short solver calls, no reseeded retries
        ctx.prove_timeout_ms = 3000
        ctx.single_attempt = True
        budget = min(budget, 120)    # the counterexample search is an extra, it must not dominate a check
    ctx.deadline = time.time() + budget
    ctx.name_prefix = f"{con.target}{'' if mode == 'main' else '{' + mode + '}'}"
    try:
        file, qual = con.target.split("::")
        mod = world.load(file)
        node, owner = mod.find(qual)
        result["digest"] = function_digest(node)
        loop_nodes = loops_of(node)
        result["loops"] = len(loop_nodes)
        small = mode == "small"
        interp = Interp(world, ctx, contracts_by_target, stubs=con.__dict__.get("stubs"),
                        unroll=4 if small else con.__dict__.get("unroll", 6))
        interp.open_findings = open_findings
        interp.spec_fallback_module = file
        interp.small_instances = 5 if small else 0
        interp.abstract_sort = bool(con.__dict__.get("abstract_sort", False))
        interp.concrete_model = concrete_model
        for relname in con.__dict__.get("modules", []):
            world.load(relname)
        for cls_name, relname in (con.__dict__.get("class_pref") or {}).items():
            interp.class_pref[cls_name] = relname
        # mode 'small' (counterexample search): no invariants, loops run as they are on inputs whose
        # sequences hold at most two elements - every refutation there has a concrete input
        for ordinal, loop in ({} if small else (con.__dict__.get("loops") or {})).items():
            if ordinal >= len(loop_nodes):
                # the loop the contract speaks about is gone: verify the function as it is now
                result.setdefault("notes", []).append(f"contract names loop #{ordinal}; the function has {len(loop_nodes)} loops")
                continue
            interp.loop_specs[id(loop_nodes[ordinal])] = loop
        fv = FuncV(node, file, qual, owner=owner)
        params: dict[str, Any] = con.__dict__.get("params") or {}
        requires = con.__dict__.get("requires")
        ensures = con.__dict__.get("ensures")
        raises: dict[str, Any] = con.__dict__.get("raises") or {}
        may_raise: dict[str, Any] = con.__dict__.get("may_raise") or {}
        known: dict[str, Any] = con.__dict__.get("known") or {}
        open_ids = [k for k in known if open_findings is None or k in open_findings]
        def_line = node.lineno
        outcomes: dict[str, int] = {}

        def run_path() -> Any:
            interp.reset_path()
            args = {name: interp.fresh_resolved(desc, name, is_input=True) for name, desc in params.items()}
            pre_done = False
            if requires is not None and con.__dict__.get("derived"):
                wanted = [a.arg for a in interp.sidecar_function(requires).node.args.args]
                if all(w in args for w in wanted):
                    pre = interp.truth(interp.eval_named(requires, args))
                    ctx.assume(pre if not isinstance(pre, bool) else z3.BoolVal(pre))
                    pre_done = True
            for name, fn in (con.__dict__.get("derived") or {}).items():
                # a parameter built from the others by running REAL constructors (code mode)
                funcv = interp.sidecar_function(fn)
                names = [a.arg for a in funcv.node.args.args]
                try:
                    args[name] = interp.inline(funcv, [args[n] for n in names], {})
                except PyExc as exc:
                    raise PathPruned() from exc
            for name in con.__dict__.get("ghost_params", []):
                pass
            interp.entry_values = dict(args)
            if requires is not None and not pre_done:
                pre = interp.truth(interp.eval_named(requires, args))
                ctx.assume(pre if not isinstance(pre, bool) else z3.BoolVal(pre))
            clause_guard: dict[str, list] = {}
            only_clauses = None
            for fid in ([] if concrete_model is not None else open_ids):
                entry = known[fid]
                klass_fn, labels = entry if isinstance(entry, tuple) else (entry, None)
                klass = interp.truth(interp.eval_named(klass_fn, args))
                klass = klass if not isinstance(klass, bool) else z3.BoolVal(klass)
                if labels is None:
                    if mode in ("main", "small"):
                        ctx.assume(z3.Not(klass))
                    elif mode == f"known:{fid}":
                        ctx.assume(klass)
                else:
                    if mode in ("main", "small"):
                        for label in labels:
                            clause_guard.setdefault(label, []).append(z3.Not(klass))
                    elif mode == f"known:{fid}":
                        ctx.assume(klass)
                        only_clauses = labels
            if small:
                for sym_name, term in list(ctx.input_symbols.items()):
                    if sym_name.startswith("len("):
                        ctx.assume(term <= 3)
            if not ctx.feasible(z3.BoolVal(True)):
                raise PathPruned()
            old = ObjV("_Old", {name: snapshot(value) for name, value in args.items()})
            try:
                ghost = set(con.__dict__.get("ghost_params", []))
                value = interp.inline(fv, [], {k: v for k, v in args.items() if k not in ghost}, def_line)
                outcome: tuple = ("return", value)
            except PyExc as exc:
                outcome = ("raise", exc.etype, exc.line, exc.info)
            if outcome[0] == "raise":
                etype = outcome[1]
                matched = [name for name in raises if interp.exc_is(etype, name)]
                may = [name for name in may_raise if interp.exc_is(etype, name)]
                # the conditions under which a call raises speak about the state on entry
                entry = dict(old.fields)
                if matched:
                    cond = interp.truth(interp.eval_named(raises[matched[0]], entry))
                    ctx.prove(cond, "raises-only-if", outcome[2], etype)
                elif may:
                    cond = interp.truth(interp.eval_named(may_raise[may[0]], entry))
                    ctx.prove(cond, "raises-only-if", outcome[2], etype)
                else:
                    ctx.prove(False, "no-exception", outcome[2], f"{etype}:{outcome[3]}")
                on_raise = con.__dict__.get("on_raise") or {}
                values = dict(args)
                values["old"] = old
                values["effects"] = _effects_value(interp)
                for label, fn in on_raise.items():
                    post = interp.truth(interp.eval_named(fn, values))
                    ctx.prove(post, "exceptional-post", outcome[2], f"{label}:{etype}")
                outcomes[f"raise {etype}"] = outcomes.get(f"raise {etype}", 0) + 1
            else:
                for etype, cond_fn in raises.items():
                    cond = interp.truth(interp.eval_named(cond_fn, dict(old.fields)))
                    ctx.prove(interp.not_(cond), "raises-if", def_line, etype)
                values = dict(args)
                values["result"] = outcome[1]
                values["old"] = old
                values["effects"] = _effects_value(interp)
                clauses = ensures.items() if isinstance(ensures, dict) else ([("", ensures)] if ensures else [])
                for label, fn in clauses:
                    if only_clauses is not None and label not in only_clauses:
                        continue
                    post = interp.truth(interp.eval_named(fn, values))
                    guards = clause_guard.get(label)
                    if guards:
                        post = z3.Implies(z3.And(guards), post if not isinstance(post, bool) else z3.BoolVal(post))
                    ctx.prove(post, "post", def_line, label)
                outcomes["return"] = outcomes.get("return", 0) + 1
            ctx.cover("path-end")
            return outcome[0]

        explore(ctx, run_path)
        result["outcomes"] = outcomes
    except Unsupported as err:
        result["out_of_subset"] = str(err)
    except (KeyError, FileNotFoundError) as err:
        result["out_of_subset"] = f"function not found: {err!r}"
    except RecursionError:
        result["out_of_subset"] = "recursion limit in the symbolic executor"
    except z3.Z3Exception as err:
        result["out_of_subset"] = f"z3 error: {err}"
    except Exception:  # pylint: disable=broad-except
        result["engine_error"] = traceback.format_exc()
    obligations = [] if result["out_of_subset"] else [ob.to_json() for ob in ctx.obligations.values()]
    if not result["out_of_subset"]:
        for ob_obj, ob_json in zip(ctx.obligations.values(), obligations):
            if ob_obj.smt2 and ob_obj.status in ("undecided", "discharged"):
                ob_json["smt2"] = ob_obj.smt2
    result["obligations"] = obligations
    result["paths"] = ctx.paths
    result["solver_s"] = round(ctx.solver_s, 3)
    result["inlined"] = sorted(ctx.inlined)
    result["assumptions"] = sorted(ctx.assumptions_used)
    result["covers"] = {"total": len(ctx.covers), "sat": sum(1 for _, ok in ctx.covers if ok)}
    result["wall_s"] = round(time.time() - started, 3)
    return result


def _effects_value(interp: Interp) -> V:
    from .values import StrV
    return ListV([TupleV([StrV(s=op), path]) for op, path in interp.effects])
