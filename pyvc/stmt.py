"""Statement execution, loops (unrolled or cut by invariants), exceptions."""
from __future__ import annotations

import ast
from typing import Any, Optional

import z3

from . import dsl
from .core import PyExc, Unsupported, PathPruned
from .expr import Frame, BIN, GenV
from .ops import conc_bool, conc_int, as_int_term, is_num, mk
from .values import (BoolV, IntV, RealV, StrV, NoneV, NONE, TupleV, ListV, SeqV, SetV, DictV, ObjV,
                     ClassV, FuncV, BoundV, BuiltinV, RangeV, V)

BUILTIN_EXC = {
    "Exception": ["BaseException"], "ValueError": ["Exception"], "TypeError": ["Exception"],
    "LookupError": ["Exception"], "KeyError": ["LookupError"], "IndexError": ["LookupError"],
    "AssertionError": ["Exception"], "AttributeError": ["Exception"], "RuntimeError": ["Exception"],
    "NotImplementedError": ["RuntimeError"], "StopIteration": ["Exception"],
    "ArithmeticError": ["Exception"], "ZeroDivisionError": ["ArithmeticError"],
    "OSError": ["Exception"], "FileNotFoundError": ["OSError"], "SyntaxError": ["Exception"],
    "BaseException": [],
}
MUTATORS = {"append", "extend", "insert", "pop", "clear", "reverse", "sort", "add", "update",
            "discard", "remove", "setdefault", "popitem"}


def assigned_names(nodes: list[ast.AST]) -> list[str]:
    """Names (and roots of mutated containers/objects) a loop body may change."""
    names: list[str] = []

    def add(name: str) -> None:
        if name not in names:
            names.append(name)

    def root(node: ast.AST) -> Optional[str]:
        while isinstance(node, (ast.Attribute, ast.Subscript)):
            node = node.value
        return node.id if isinstance(node, ast.Name) else None

    def target(node: ast.AST) -> None:
        if isinstance(node, ast.Name):
            add(node.id)
        elif isinstance(node, (ast.Tuple, ast.List)):
            for elt in node.elts:
                target(elt)
        elif isinstance(node, (ast.Attribute, ast.Subscript)):
            base = root(node)
            if base:
                add(base)
        elif isinstance(node, ast.Starred):
            target(node.value)

    for top in nodes:
        for node in ast.walk(top):
            if isinstance(node, ast.Assign):
                for tgt in node.targets:
                    target(tgt)
            elif isinstance(node, (ast.AugAssign, ast.AnnAssign)):
                target(node.target)
            elif isinstance(node, ast.For):
                target(node.target)
            elif isinstance(node, ast.NamedExpr):
                target(node.target)
            elif isinstance(node, ast.Call) and isinstance(node.func, ast.Attribute) \
                    and node.func.attr in MUTATORS:
                base = root(node.func.value)
                if base:
                    add(base)
            elif isinstance(node, ast.comprehension):
                pass
    return names


class StmtMixin:
    # ---- blocks -------------------------------------------------------------------------------------
    def exec_block(self, stmts: list[ast.stmt], frame: Frame) -> Any:
        for stmt in stmts:
            method = getattr(self, "s_" + stmt.__class__.__name__, None)
            if method is None:
                raise Unsupported(f"statement {stmt.__class__.__name__} at line {stmt.lineno}")
            signal = method(stmt, frame)
            if signal is not None:
                return signal
        return None

    def s_Expr(self, node: ast.Expr, frame: Frame) -> Any:
        if isinstance(node.value, ast.Constant):
            return None  # docstring
        self.eval(node.value, frame)
        return None

    def s_Pass(self, node: ast.Pass, frame: Frame) -> Any:
        return None

    def s_Global(self, node: ast.Global, frame: Frame) -> Any:
        raise Unsupported("global statement")

    def s_Nonlocal(self, node: ast.Nonlocal, frame: Frame) -> Any:
        frame.nonlocals.update(node.names)
        return None

    def s_Import(self, node: ast.Import, frame: Frame) -> Any:
        return None

    def s_ImportFrom(self, node: ast.ImportFrom, frame: Frame) -> Any:
        return None

    def s_Return(self, node: ast.Return, frame: Frame) -> Any:
        value = self.eval(node.value, frame) if node.value is not None else NONE
        return ("return", value)

    def s_Break(self, node: ast.Break, frame: Frame) -> Any:
        return ("break",)

    def s_Continue(self, node: ast.Continue, frame: Frame) -> Any:
        return ("continue",)

    def s_FunctionDef(self, node: ast.FunctionDef, frame: Frame) -> Any:
        qual = f"{frame.func.qualname}.<locals>.{node.name}" if frame.func else node.name
        frame.env[node.name] = FuncV(node, frame.module, qual, closure=frame, owner=frame.owner)
        return None

    def s_Assert(self, node: ast.Assert, frame: Frame) -> Any:
        cond = self.truth(self.eval(node.test, frame))
        if self.ctx.spec_depth:
            self.ctx.assume(cond if not isinstance(cond, bool) else z3.BoolVal(cond))
            return None
        self.ctx.prove(cond, "assert", node.lineno)
        return None

    def s_Delete(self, node: ast.Delete, frame: Frame) -> Any:
        for target in node.targets:
            if isinstance(target, ast.Name):
                frame.env.pop(target.id, None)
            elif isinstance(target, ast.Subscript):
                base = self.eval(target.value, frame)
                key = self.eval(target.slice, frame)
                self.call_method_builtin(base, "pop", [key], {}, node.lineno)
            else:
                raise Unsupported("del of attribute")
        return None

    # ---- assignment ---------------------------------------------------------------------------------
    def s_Assign(self, node: ast.Assign, frame: Frame) -> Any:
        value = self.eval(node.value, frame)
        for target in node.targets:
            self.assign_target(target, value, frame)
        return None

    def s_AnnAssign(self, node: ast.AnnAssign, frame: Frame) -> Any:
        if node.value is not None:
            self.assign_target(node.target, self.eval(node.value, frame), frame)
        return None

    def assign_target(self, target: ast.expr, value: V, frame: Frame) -> None:
        if isinstance(target, ast.Name):
            frame.assign(target.id, value)
        elif isinstance(target, (ast.Tuple, ast.List)):
            if isinstance(value, GenV):
                raise Unsupported("unpacking a symbolic generator")
            items = self.iterate_concrete(value, target.lineno)
            starred = [i for i, e in enumerate(target.elts) if isinstance(e, ast.Starred)]
            if starred:
                pos = starred[0]
                after = len(target.elts) - pos - 1
                if len(items) < len(target.elts) - 1:
                    raise PyExc("ValueError", "not enough values to unpack", target.lineno)
                for elt, item in zip(target.elts[:pos], items[:pos]):
                    self.assign_target(elt, item, frame)
                self.assign_target(target.elts[pos].value, ListV(items[pos:len(items) - after]), frame)
                for elt, item in zip(target.elts[pos + 1:], items[len(items) - after:]):
                    self.assign_target(elt, item, frame)
                return
            if len(items) != len(target.elts):
                raise PyExc("ValueError", "unpack length mismatch", target.lineno)
            for elt, item in zip(target.elts, items):
                self.assign_target(elt, item, frame)
        elif isinstance(target, ast.Attribute):
            base = self.eval(target.value, frame)
            self.setattr(base, target.attr, value, target.lineno)
        elif isinstance(target, ast.Subscript):
            base = self.eval(target.value, frame)
            if isinstance(target.slice, ast.Slice):
                raise Unsupported("slice assignment")
            key = self.eval(target.slice, frame)
            self.store_index(base, key, value, target.lineno)
        else:
            raise Unsupported(f"assignment target {target.__class__.__name__}")

    def store_index(self, base: V, key: V, value: V, line: int) -> None:
        if isinstance(base, ListV):
            i = self.concretize_index(key, len(base.items), line)
            if not -len(base.items) <= i < len(base.items):
                raise PyExc("IndexError", "list assignment index out of range", line)
            base.items[i] = value
        elif isinstance(base, SeqV):
            term = as_int_term(key)
            real = self.normal_index(term, base.n)
            self.check_safe(z3.And(real >= 0, real < base.n), "IndexError", line)
            base.put(z3.simplify(real), self.pack(value, base.et))
        elif isinstance(base, DictV):
            self.dict_set(base, key, value)
        else:
            raise Unsupported(f"item assignment on {base!r}")

    def s_AugAssign(self, node: ast.AugAssign, frame: Frame) -> Any:
        load = _as_load(node.target)
        current = self.eval(load, frame)
        right = self.eval(node.value, frame)
        op = BIN.get(type(node.op))
        if op is None:
            raise Unsupported("augmented operator")
        # in-place forms for mutable containers (aliasing preserved)
        if op == "+" and isinstance(current, ListV):
            current.items.extend(self.iterate_concrete(right, node.lineno))
            return None
        if op == "+" and isinstance(current, SeqV):
            for item in self.iterate_concrete(right, node.lineno):
                self.seq_append(current, item)
            return None
        if op == "|" and isinstance(current, SetV):
            self.call_method_builtin(current, "update", [right], {}, node.lineno)
            return None
        result = self.binop(op, current, right, node.lineno)
        self.assign_target(node.target, result, frame)
        return None

    # ---- conditionals -------------------------------------------------------------------------------
    def s_If(self, node: ast.If, frame: Frame) -> Any:
        cond = self.truth(self.eval(node.test, frame))
        if self.ctx.branch(cond):
            return self.exec_block(node.body, frame)
        return self.exec_block(node.orelse, frame)

    # ---- exceptions ---------------------------------------------------------------------------------
    def exc_matches(self, etype: str, handler: Optional[ast.expr], frame: Frame) -> bool:
        if handler is None:
            return True
        names = [handler] if not isinstance(handler, ast.Tuple) else list(handler.elts)
        for name in names:
            wanted = name.id if isinstance(name, ast.Name) else getattr(name, "attr", None)
            if wanted is None:
                raise Unsupported("exception handler expression")
            if self.exc_is(etype, wanted):
                return True
        return False

    def exc_is(self, etype: str, wanted: str) -> bool:
        seen = set()
        todo = [etype]
        while todo:
            cur = todo.pop()
            if cur == wanted:
                return True
            if cur in seen:
                continue
            seen.add(cur)
            if cur in BUILTIN_EXC:
                todo.extend(BUILTIN_EXC[cur])
            else:
                try:
                    info = self.world.find_class(cur)
                except KeyError:
                    info = None
                if info is not None:
                    todo.extend(info.bases)
        return False

    def s_Raise(self, node: ast.Raise, frame: Frame) -> Any:
        if node.exc is None:
            if self.current_exc:
                raise self.current_exc[-1]
            raise Unsupported("bare raise outside handler")
        exc = node.exc
        # the message is dropped: only the type matters (DESIGN §2.1)
        if isinstance(exc, ast.Call) and isinstance(exc.func, (ast.Name, ast.Attribute)):
            name = exc.func.id if isinstance(exc.func, ast.Name) else exc.func.attr
            if name in BUILTIN_EXC or self._is_exception_class(name, frame):
                raise PyExc(name, "explicit", node.lineno)
        value = self.eval(exc, frame)
        if isinstance(value, ClassV):
            raise PyExc(value.name, "explicit", node.lineno)
        if isinstance(value, ObjV):
            raise PyExc(value.cls, "explicit", node.lineno)
        raise Unsupported("raise of a non-exception value")

    def _is_exception_class(self, name: str, frame: Frame) -> bool:
        if frame.lookup(name) is not None:
            return False
        try:
            info = self.world.find_class(name, frame.module)
        except KeyError:
            return False
        if info is None:
            return False
        return self.exc_is(name, "Exception") or self.exc_is(name, "BaseException")

    def s_Try(self, node: ast.Try, frame: Frame) -> Any:
        signal = None
        try:
            try:
                signal = self.exec_block(node.body, frame)
            except PyExc as exc:
                handled = False
                for handler in node.handlers:
                    if self.exc_matches(exc.etype, handler.type, frame):
                        handled = True
                        if handler.name:
                            frame.env[handler.name] = ObjV(exc.etype, {})
                        self.current_exc.append(exc)
                        try:
                            signal = self.exec_block(handler.body, frame)
                        finally:
                            self.current_exc.pop()
                        break
                if not handled:
                    raise
            else:
                if signal is None and node.orelse:
                    signal = self.exec_block(node.orelse, frame)
        finally:
            if node.finalbody:
                final_signal = self.exec_block(node.finalbody, frame)
                if final_signal is not None:
                    signal = final_signal
        return signal

    def s_With(self, node: ast.With, frame: Frame) -> Any:
        for item in node.items:
            value = self.eval(item.context_expr, frame)
            if not (isinstance(value, ObjV) and value.cls == "FileHandle"):
                raise Unsupported(f"with statement on {value!r}")
            if item.optional_vars is not None:
                self.assign_target(item.optional_vars, value, frame)
        return self.exec_block(node.body, frame)

    # ---- loops --------------------------------------------------------------------------------------
    def loop_contract(self, node: ast.AST) -> Optional[dsl.Loop]:
        return self.loop_specs.get(id(node))

    def s_For(self, node: ast.For, frame: Frame) -> Any:
        iterable = self.eval(node.iter, frame)
        spec = self.loop_contract(node)
        if spec is not None:
            return self.for_invariant(node, frame, spec, iterable)
        if isinstance(iterable, GenV):
            raise Unsupported(f"for over a symbolic generator without invariant (line {node.lineno})")
        symbolic = isinstance(iterable, SeqV) or (isinstance(iterable, DictV) and iterable.entries is None) \
            or (isinstance(iterable, RangeV) and (conc_int(iterable.start) is None or conc_int(iterable.stop) is None)) \
            or (getattr(iterable, "kind", "") == "enumerate" and isinstance(getattr(iterable, "source", None), SeqV))
        if symbolic:
            return self.for_unrolled_symbolic(node, frame, iterable)
        for item in self.iterate_concrete(iterable, node.lineno):
            self.assign_target(node.target, item, frame)
            signal = self.exec_block(node.body, frame)
            if signal is not None:
                if signal[0] == "break":
                    return None
                if signal[0] == "return":
                    return signal
        return self.exec_block(node.orelse, frame)

    def for_unrolled_symbolic(self, node: ast.For, frame: Frame, iterable: V) -> Any:
        bound = self.unroll_bound
        n = self.source_len(iterable)
        for k in range(bound + 1):
            more = n > k
            if k == bound:
                ob = self.ctx.prove(z3.Not(more), "unwind", node.lineno)
                if ob.status == "failed":
                    ob.status = "undecided"
                    ob.detail = f"unwinding bound {bound} exceeded"
                if ob.status != "discharged":
                    raise PathPruned()
                break
            if not self.ctx.branch(more):
                break
            element, _ = self.bound_element(iterable, z3.IntVal(k))
            self.assign_target(node.target, element, frame)
            signal = self.exec_block(node.body, frame)
            if signal is not None:
                if signal[0] == "break":
                    return None
                if signal[0] == "return":
                    return signal
        return self.exec_block(node.orelse, frame)

    def s_While(self, node: ast.While, frame: Frame) -> Any:
        spec = self.loop_contract(node)
        if spec is not None:
            return self.while_invariant(node, frame, spec)
        bound = self.unroll_bound
        count = 0
        while True:
            cond = self.truth(self.eval(node.test, frame))
            c = conc_bool(cond)
            if c is None:
                if count >= bound:
                    ob = self.ctx.prove(z3.Not(cond), "unwind", node.lineno)
                    if ob.status == "failed":
                        ob.status = "undecided"
                        ob.detail = f"unwinding bound {bound} exceeded"
                    if ob.status != "discharged":
                        raise PathPruned()
                    break
                if not self.ctx.branch(cond):
                    break
            elif not c:
                break
            elif count > 10 * bound + 50:
                raise Unsupported(f"concrete loop does not terminate within bound (line {node.lineno})")
            count += 1
            signal = self.exec_block(node.body, frame)
            if signal is not None:
                if signal[0] == "break":
                    return None
                if signal[0] == "return":
                    return signal
        return self.exec_block(node.orelse, frame)

    # ---- loops cut by invariants ----------------------------------------------------------------------
    def havoc_value(self, name: str, current: Optional[V], desc: Any) -> V:
        hint = self.ctx.fresh_name(f"{name}@loop")
        if desc is not None:
            if isinstance(desc, (dsl.SeqOf, dsl.DictOf)) and isinstance(current, (ListV, SeqV, DictV)):
                # a mutable container: keep identity (aliases see the havoc), replace its content
                new = self.fresh(desc, hint)
                if isinstance(current, ListV):
                    return new
                current.__class__ = new.__class__
                current.__dict__.update(new.__dict__)
                return current
            if isinstance(desc, dsl.Opt):
                if self.ctx.decide(2) == 0:
                    return NONE
                return self.fresh(desc.inner, hint)
            if isinstance(desc, dsl.OneOf):
                choice = self.ctx.decide(len(desc.alts))
                return self.havoc_value(name, current, desc.alts[choice])
            return self.fresh(desc, hint)
        if current is None:
            raise Unsupported(f"loop variable {name} has no value before the loop; give its type in Loop(types=...)")
        if isinstance(current, IntV):
            return self.fresh(dsl.Int, hint)
        if isinstance(current, BoolV):
            return self.fresh(dsl.Bool, hint)
        if isinstance(current, RealV):
            return self.fresh(dsl.Real, hint)
        if isinstance(current, StrV):
            return self.fresh(dsl.Str, hint)
        if isinstance(current, NoneV):
            raise Unsupported(f"loop variable {name} is None before the loop; give its type in Loop(types=...)")
        if isinstance(current, SeqV):
            current.arr = z3.Const(hint + "[]", z3.ArraySort(z3.IntSort(), current.et.sort))
            current.off, current.fn = 0, None
            current.n = z3.Int(hint + ".len")
            self.ctx.assume(current.n >= 0)
            return current
        if isinstance(current, ObjV):
            for fname, fval in list(current.fields.items()):
                current.fields[fname] = self.havoc_value(f"{name}.{fname}", fval, None)
            return current
        if isinstance(current, TupleV):
            return TupleV([self.havoc_value(f"{name}.{i}", item, None) for i, item in enumerate(current.items)])
        if isinstance(current, SetV) and current.arr is not None:
            current.arr = z3.Const(hint + "{}", current.arr.sort())
            return current
        if isinstance(current, ListV):
            raise Unsupported(f"list {name} is modified in a loop cut by an invariant; declare it SeqOf in Loop(types=...)")
        raise Unsupported(f"cannot havoc {name}={current!r}")

    def eval_spec_fn(self, fn: Any, frame: Frame, extra: Optional[dict[str, V]] = None) -> V:
        """Evaluate a sidecar spec-style function with parameters resolved by name."""
        funcv = self.sidecar_function(fn)
        names = [a.arg for a in funcv.node.args.args]
        args = []
        for name in names:
            value = (extra or {}).get(name)
            if value is None and name == "effects":
                value = ListV([TupleV([StrV(s=op), path]) for op, path in self.effects])
            if value is None:
                value = frame.lookup(name)
            if value is None and name in self.entry_values:
                value = self.entry_values[name]
            if value is None:
                raise Unsupported(f"spec {getattr(fn, '__name__', fn)}: no value for parameter {name}")
            args.append(value)
        return self.pure_call(funcv, args)

    def prove_invariant(self, spec: dsl.Loop, frame: Frame, kind: str, line: int) -> None:
        inv = spec.invariant
        clauses = inv.items() if isinstance(inv, dict) else [("", inv)]
        for label, fn in clauses:
            value = self.eval_spec_fn(fn, frame)
            self.ctx.prove(self.truth(value), kind, line, label)

    def assume_invariant(self, spec: dsl.Loop, frame: Frame) -> None:
        inv = spec.invariant
        clauses = inv.values() if isinstance(inv, dict) else [inv]
        for fn in clauses:
            value = self.eval_spec_fn(fn, frame)
            t = self.truth(value)
            self.ctx.assume(t if not isinstance(t, bool) else z3.BoolVal(t))

    def havoc_loop(self, node: Any, frame: Frame, spec: dsl.Loop, extra_targets: list[ast.AST]) -> None:
        names = spec.modifies if spec.modifies is not None else assigned_names(list(node.body) + extra_targets)
        for name in names:
            if name in (spec.index, spec.iterable):
                continue
            current = frame.lookup(name)
            if (current is None or current.kind == "undefined") and spec.types.get(name) is None:
                from .values import UNDEF
                frame.assign(name, UNDEF)   # loop-local temporary: must be assigned before it is read
                continue
            frame.assign(name, self.havoc_value(name, current, spec.types.get(name)))
        self.ctx.havoc_used = True

    def for_invariant(self, node: ast.For, frame: Frame, spec: dsl.Loop, iterable: V) -> Any:
        ctx = self.ctx
        if isinstance(iterable, (ListV, TupleV)):
            if not iterable.items:
                return self.exec_block(node.orelse, frame)
            values = [conc_int(item) if isinstance(item, IntV) else None for item in iterable.items]
            steps = {b - a for a, b in zip(values, values[1:])} if None not in values else set()
            if None not in values and len(values) >= 2 and len(steps) == 1 and min(steps) > 0:
                # a literal arithmetic progression such as [0, 1, 2]: element k is start + k * step
                step = steps.pop()
                iterable = RangeV(IntV(values[0]), IntV(values[-1] + step), step)
            else:
                iterable = self.seq_from_list(iterable.items, self.elem_type_of(iterable.items[0]))
        if isinstance(iterable, GenV):
            raise Unsupported("invariant loop over generator")
        n = self.source_len(iterable)
        frame.env[spec.iterable] = iterable
        frame.env[spec.index] = IntV(0)
        self.prove_invariant(spec, frame, "inv-init", node.lineno)
        self.havoc_loop(node, frame, spec, [])
        k = z3.Int(ctx.fresh_name(spec.index))
        ctx.assume(z3.And(k >= 0, k <= n))
        frame.env[spec.index] = IntV(k)
        self.assume_invariant(spec, frame)
        ctx.cover(f"loop-head@{node.lineno}")
        if ctx.branch(k < n):
            element, _ = self.bound_element(iterable, k)
            self.assign_target(node.target, element, frame)
            signal = self.exec_block(node.body, frame)
            if signal is not None and signal[0] == "return":
                return signal
            if signal is not None and signal[0] == "break":
                return None
            frame.env[spec.index] = IntV(z3.simplify(k + 1))
            self.prove_invariant(spec, frame, "inv-keep", node.lineno)
            raise PathPruned()
        return self.exec_block(node.orelse, frame)

    def while_invariant(self, node: ast.While, frame: Frame, spec: dsl.Loop) -> Any:
        ctx = self.ctx
        self.prove_invariant(spec, frame, "inv-init", node.lineno)
        self.havoc_loop(node, frame, spec, [])
        self.assume_invariant(spec, frame)
        ctx.cover(f"loop-head@{node.lineno}")
        measure_before = None
        if spec.decreases is not None:
            measure_before = as_int_term(self.eval_spec_fn(spec.decreases, frame))
        cond = self.truth(self.eval(node.test, frame))
        if ctx.branch(cond):
            signal = self.exec_block(node.body, frame)
            if signal is not None and signal[0] == "return":
                return signal
            if signal is not None and signal[0] == "break":
                return None
            self.prove_invariant(spec, frame, "inv-keep", node.lineno)
            if measure_before is not None:
                after = as_int_term(self.eval_spec_fn(spec.decreases, frame))
                ctx.prove(z3.And(measure_before >= 0, after < measure_before), "decreases", node.lineno)
            raise PathPruned()
        return self.exec_block(node.orelse, frame)


class _Done(Exception):
    pass


def _as_load(target: ast.expr) -> ast.expr:
    if isinstance(target, ast.Name):
        return ast.copy_location(ast.Name(id=target.id, ctx=ast.Load()), target)
    if isinstance(target, ast.Attribute):
        return ast.copy_location(ast.Attribute(value=target.value, attr=target.attr, ctx=ast.Load()), target)
    if isinstance(target, ast.Subscript):
        return ast.copy_location(ast.Subscript(value=target.value, slice=target.slice, ctx=ast.Load()), target)
    raise Unsupported("augmented assignment target")
