"""Native side (runs under /venv/bin/python): rebuild REAL arguments from a counter-model, run the
REAL function, evaluate the SAME contract functions natively.

stdin: {"contract": name, "model": {...}}   stdout (last line): {"status": reproduced|not-reproduced|error, ...}
Also provides `build_args` / `run_contract` for the CPython cross-check.
"""
from __future__ import annotations

import importlib
import json
import pkgutil
import sys
import traceback
from typing import Any

from pyvc import dsl


class _Old:
    def __init__(self, values: dict[str, Any]) -> None:
        self.__dict__.update(values)


def load_contracts() -> dict[str, Any]:
    import contracts
    for mod in pkgutil.iter_modules(contracts.__path__):
        if not mod.name.startswith("_") and mod.name != "native":
            importlib.import_module(f"contracts.{mod.name}")
    return dsl.CONTRACTS


def real_registry() -> dict[str, Any]:
    from contracts import native
    return native.REAL


def has_keys(name: str, model: dict[str, Any]) -> bool:
    return any(k == name or k.startswith(name + ".") or k.startswith(name + "[") or k == f"len({name})"
               for k in model)


def matches(desc: Any, name: str, model: dict[str, Any]) -> bool:
    if isinstance(desc, dsl.Rec):
        return all(matches(ft, f"{name}.{fn}", model) or isinstance(ft, (dsl.Const, dsl.Opt)) for fn, ft in desc.fields.items())
    if isinstance(desc, dsl.ListOf):
        count = 0
        while has_keys(f"{name}[{count}]", model):
            count += 1
        return desc.lo <= count <= desc.hi and (count > 0 or desc.lo == 0)
    if isinstance(desc, dsl.OneOf):
        return any(matches(a, name, model) for a in desc.alts)
    if isinstance(desc, dsl.Const):
        return True
    return name in model


def build(desc: Any, name: str, model: dict[str, Any]) -> Any:
    real = real_registry()
    if desc is dsl.Int:
        return int(model.get(name, 0))
    if desc is dsl.Bool:
        return bool(model.get(name, False))
    if desc is dsl.Real:
        return float(model.get(name, 0.0))
    if desc is dsl.Str:
        return str(model.get(name, "s"))
    if desc is dsl.NoneT:
        return None
    if isinstance(desc, dsl.Const):
        return desc.value
    if isinstance(desc, dsl.Opt):
        return build(desc.inner, name, model) if has_keys(name, model) else None
    if isinstance(desc, dsl.OneOf):
        for alt in desc.alts:
            if matches(alt, name, model):
                return build(alt, name, model)
        return build(desc.alts[0], name, model)
    if isinstance(desc, dsl.DictOf):
        import json as _json

        class _TotalDict(dict):
            """a dict that is defined on every key (the contract's `total` map): unlisted keys get the model's default"""
            def __missing__(self, key: Any) -> Any:
                return self.default

            def __contains__(self, key: Any) -> bool:
                return True
        entries = _TotalDict() if desc.total else {}
        prefix = name + "["
        for key, value in model.items():
            if key.startswith(prefix) and key.endswith("]") and not key.endswith("[]"):
                entries[_json.loads(key[len(prefix):-1])] = value
        if desc.total:
            entries.default = model.get(f"{name}.default", 0)
        return entries
    if isinstance(desc, dsl.ClassOf):
        raise KeyError("class arguments are bound by the method itself")
    if isinstance(desc, dsl.SeqOf):
        items = []
        while has_keys(f"{name}[{len(items)}]", model):
            items.append(build(desc.elem, f"{name}[{len(items)}]", model))
        return items
    if isinstance(desc, dsl.ListOf):
        items = []
        while has_keys(f"{name}[{len(items)}]", model):
            items.append(build(desc.elem, f"{name}[{len(items)}]", model))
        return tuple(items) if desc.as_tuple else items
    if isinstance(desc, dsl.Rec):
        fields = {fn: build(ft, f"{name}.{fn}", model) for fn, ft in desc.fields.items()}
        maker = real.get(desc.label) or real.get(desc.cls)
        if maker is None:
            raise KeyError(f"no native constructor registered for {desc.label}")
        return maker(**fields)
    raise KeyError(f"cannot rebuild {desc!r} natively")


def resolve_function(target: str) -> tuple[Any, bool]:
    file, qual = target.split("::")
    module = importlib.import_module(file[:-3].replace("/", "."))
    obj: Any = module
    for part in qual.split("."):
        obj = getattr(obj, part) if not isinstance(obj, property) else obj
        if isinstance(obj, property):
            return obj.fget, True
    return obj, "." in qual


def call_named(fn: Any, values: dict[str, Any]) -> Any:
    import inspect
    names = list(inspect.signature(fn).parameters)
    return fn(*[values[n] for n in names])


def run_contract(con: Any, args: dict[str, Any]) -> dict[str, Any]:
    """Runs the real function on real args; evaluates requires/raises/ensures natively."""
    import copy
    requires = con.__dict__.get("requires")
    if requires is not None and not call_named(requires, args):
        return {"status": "precondition-false"}
    func, is_method = resolve_function(con.target)
    raises = con.__dict__.get("raises") or {}
    ensures = con.__dict__.get("ensures")
    expected = {name: bool(call_named(cond, args)) for name, cond in raises.items()}
    def entry_copy(value: Any) -> Any:
        try:
            return copy.deepcopy(value)
        except Exception:  # pylint: disable=broad-except
            # objects that cannot be copied (a __getattr__ answering every name) are used as they are
            return value
    old = _Old({k: entry_copy(v) for k, v in args.items()})
    try:
        result = func(**args)
    except Exception as exc:  # pylint: disable=broad-except
        names = [c.__name__ for c in type(exc).__mro__]
        allowed = [n for n in raises if n in names]
        may = con.__dict__.get("may_raise") or {}
        may_allowed = [n for n in may if n in names]
        if allowed and expected[allowed[0]]:
            return {"status": "ok", "outcome": f"raise {type(exc).__name__}", "mro": names}
        if may_allowed and call_named(may[may_allowed[0]], args):
            return {"status": "ok", "outcome": f"raise {type(exc).__name__}", "mro": names}
        return {"status": "violated", "outcome": f"raise {type(exc).__name__}", "mro": names,
                "detail": f"real function raised {type(exc).__name__}({str(exc)[:200]}) not allowed by the contract here"}
    for name, flag in expected.items():
        if flag:
            return {"status": "violated", "outcome": "return",
                    "detail": f"contract requires {name} to be raised; real function returned {result!r}"}
    values = dict(args)
    values["result"] = result
    values["old"] = old
    dsl.NATIVE_STRINGS = _strings_of([args, result])
    clauses = ensures.items() if isinstance(ensures, dict) else ([("", ensures)] if ensures else [])
    for label, fn in clauses:
        if not call_named(fn, values):
            return {"status": "violated", "outcome": "return",
                    "detail": f"postcondition {label or 'ensures'} false natively; result {result!r}"}
    return {"status": "ok", "outcome": "return", "result": repr(result)[:200]}


def _strings_of(value: Any, depth: int = 0, seen: Any = None) -> set:
    """every string reachable from the value (containers, instance dicts and slots), for forall_str"""
    seen = set() if seen is None else seen
    found: set = set()
    if isinstance(value, str):
        return {value}
    if depth > 6 or id(value) in seen or isinstance(value, (int, float, bool, type(None))):
        return found
    seen.add(id(value))
    if isinstance(value, dict):
        for key, item in value.items():
            found |= _strings_of(key, depth + 1, seen) | _strings_of(item, depth + 1, seen)
    elif isinstance(value, (list, tuple, set, frozenset)):
        for item in value:
            found |= _strings_of(item, depth + 1, seen)
    else:
        for name in list(getattr(value, "__dict__", {})) + list(getattr(type(value), "__slots__", ())):
            try:
                found |= _strings_of(object.__getattribute__(value, name), depth + 1, seen)
            except Exception:  # pylint: disable=broad-except
                pass
    return found


def batch() -> int:
    payload = json.loads(sys.stdin.read())
    contracts = load_contracts()
    con = contracts[payload["contract"]]
    params = con.__dict__.get("params") or {}
    outcomes = []
    for model in payload["models"]:
        try:
            args = {name: build(desc, name, model) for name, desc in params.items()}
        except Exception as exc:  # pylint: disable=broad-except
            outcomes.append({"status": "unbuildable", "detail": f"{type(exc).__name__}: {exc}"[:200]})
            continue
        try:
            outcome = run_contract(con, args)
        except Exception as exc:  # pylint: disable=broad-except
            outcome = {"status": "error", "detail": f"{type(exc).__name__}: {exc}"[:300]}
        outcomes.append(outcome)
    print(json.dumps({"outcomes": outcomes}))
    return 0


def main() -> int:
    if "--batch" in sys.argv:
        return batch()
    payload = json.loads(sys.stdin.read())
    try:
        contracts = load_contracts()
        con = contracts[payload["contract"]]
        params = con.__dict__.get("params") or {}
        args = {name: build(desc, name, payload["model"]) for name, desc in params.items()}
        outcome = run_contract(con, args)
        shown = {k: repr(v)[:300] for k, v in args.items()}
        if outcome["status"] == "violated":
            print(json.dumps({"status": "reproduced", "args": shown, "detail": outcome.get("detail", "")}))
        elif outcome["status"] == "precondition-false":
            print(json.dumps({"status": "error", "args": shown, "detail": "rebuilt arguments do not satisfy requires natively"}))
        else:
            print(json.dumps({"status": "not-reproduced", "args": shown, "detail": json.dumps(outcome)}))
    except Exception:  # pylint: disable=broad-except
        print(json.dumps({"status": "error", "detail": traceback.format_exc()[-1500:]}))
    return 0


if __name__ == "__main__":
    sys.exit(main())
