"""Expression evaluation."""
from __future__ import annotations

import ast
from typing import Any, Optional

import z3

from .core import PyExc, Unsupported, PathPruned, sub_explore
from .ops import conc_bool, conc_int, as_int_term, as_num_term, is_num, mk
from .values import (BoolV, IntV, RealV, StrV, NoneV, NONE, TupleV, ListV, SeqV, SetV, DictV, ObjV,
                     ClassV, FuncV, BoundV, BuiltinV, ModuleV, RangeV, SuperV, V)


class Frame:
    def __init__(self, env: dict[str, V], module: str, func: Optional[FuncV] = None,
                 parent: Optional["Frame"] = None, owner: Optional[str] = None) -> None:
        self.env = env
        self.module = module
        self.func = func
        self.parent = parent
        self.owner = owner
        self.nonlocals: set[str] = set()

    def lookup(self, name: str) -> Optional[V]:
        frame: Optional[Frame] = self
        while frame is not None:
            if name in frame.env:
                return frame.env[name]
            frame = frame.parent
        return None

    def assign(self, name: str, value: V) -> None:
        if name in self.nonlocals:
            frame = self.parent
            while frame is not None:
                if name in frame.env:
                    frame.env[name] = value
                    return
                frame = frame.parent
        self.env[name] = value


CMP = {ast.Eq: "==", ast.NotEq: "!=", ast.Lt: "<", ast.LtE: "<=", ast.Gt: ">", ast.GtE: ">=",
       ast.Is: "is", ast.IsNot: "isnot", ast.In: "in", ast.NotIn: "notin"}
BIN = {ast.Add: "+", ast.Sub: "-", ast.Mult: "*", ast.FloorDiv: "//", ast.Mod: "%", ast.Div: "/",
       ast.Pow: "**", ast.BitOr: "|", ast.BitAnd: "&", ast.BitXor: "^"}


class ExprMixin:
    # ---- entry ---------------------------------------------------------------------------------
    def eval(self, node: ast.expr, frame: Frame) -> V:
        method = getattr(self, "e_" + node.__class__.__name__, None)
        if method is None:
            raise Unsupported(f"expression {node.__class__.__name__} at line {getattr(node, 'lineno', 0)}")
        return method(node, frame)

    def e_Constant(self, node: ast.Constant, frame: Frame) -> V:
        if node.value is Ellipsis:
            return NONE
        return self.from_python(node.value)

    def e_Name(self, node: ast.Name, frame: Frame) -> V:
        value = frame.lookup(node.id)
        if value is not None:
            if value.kind == "undefined":
                raise Unsupported(f"local {node.id} may be read before it is assigned in a loop cut by an invariant; "
                                  "give its type in Loop(types=...)")
            return value
        return self.lookup_global(node.id, frame.module, node)

    def e_JoinedStr(self, node: ast.JoinedStr, frame: Frame) -> V:
        if all(isinstance(v, ast.Constant) for v in node.values):
            return StrV(s="".join(v.value for v in node.values))
        # a formatted string is an uninterpreted (deterministic) function of its template and of
        # the formatted values; nothing is known about its characters
        template = []
        terms = []
        concrete: list = []
        all_concrete = True
        for part in node.values:
            if isinstance(part, ast.Constant):
                template.append(str(part.value).replace("{", "{{").replace("}", "}}"))
                continue
            if part.format_spec is not None and not all(isinstance(v, ast.Constant) for v in part.format_spec.values):
                return self.opaque_str("fstring")
            spec = "".join(v.value for v in part.format_spec.values) if part.format_spec is not None else ""
            conv = {-1: "", 115: "!s", 114: "!r", 97: "!a"}.get(part.conversion, "")
            template.append("{" + conv + (":" + spec if spec else "") + "}")
            try:
                value = self.eval(part.value, frame)
            except Unsupported:
                return self.opaque_str("fstring")
            if isinstance(value, StrV):
                terms.append(self.ctx.str_term(value))
                if value.s is None:
                    all_concrete = False
                concrete.append(value.s)
            elif isinstance(value, (IntV, BoolV)) and not isinstance(value, BoolV):
                terms.append(value.t)
                c = conc_int(value)
                if c is None:
                    all_concrete = False
                concrete.append(c)
            else:
                return self.opaque_str("fstring")
        text = "".join(template)
        if all_concrete:
            try:
                return StrV(s=text.format(*concrete))
            except (ValueError, IndexError):
                pass
        import z3 as _z3
        fn = _z3.Function("fstr:" + text + ":" + ",".join(str(t.sort()) for t in terms),
                          *[t.sort() for t in terms], self.ctx.str_term(StrV(s="")).sort())
        return StrV(t=fn(*terms))

    def e_Attribute(self, node: ast.Attribute, frame: Frame) -> V:
        base = self.eval(node.value, frame)
        return self.getattr(base, node.attr, node.lineno)

    def e_Lambda(self, node: ast.Lambda, frame: Frame) -> V:
        return FuncV(node, frame.module, "<lambda>", closure=frame, owner=frame.owner)

    def e_IfExp(self, node: ast.IfExp, frame: Frame) -> V:
        cond = self.truth(self.eval(node.test, frame))
        if self.ctx.spec_depth and conc_bool(cond) is None:
            try:
                return self.ite(cond, self.eval(node.body, frame), self.eval(node.orelse, frame))
            except Unsupported:
                pass
        if self.ctx.branch(cond):
            return self.eval(node.body, frame)
        return self.eval(node.orelse, frame)

    def e_UnaryOp(self, node: ast.UnaryOp, frame: Frame) -> V:
        value = self.eval(node.operand, frame)
        if isinstance(node.op, ast.Not):
            t = self.not_(self.truth(value))
            return BoolV(t)
        if isinstance(node.op, ast.USub):
            if is_num(value):
                return mk(-as_num_term(value))
        if isinstance(node.op, ast.UAdd) and is_num(value):
            return value
        raise Unsupported(f"unary {node.op.__class__.__name__} on {value!r}")

    def e_BinOp(self, node: ast.BinOp, frame: Frame) -> V:
        left = self.eval(node.left, frame)
        right = self.eval(node.right, frame)
        op = BIN.get(type(node.op))
        if op is None:
            raise Unsupported(f"operator {node.op.__class__.__name__}")
        return self.binop(op, left, right, node.lineno)

    def e_BoolOp(self, node: ast.BoolOp, frame: Frame) -> V:
        is_and = isinstance(node.op, ast.And)
        value = self.eval(node.values[0], frame)
        if self.ctx.spec_depth and isinstance(value, BoolV):
            # specs are total and side-effect free: no short-circuit forks
            terms = [value.t]
            rest = []
            for nxt in node.values[1:]:
                c = conc_bool(terms[-1])
                if c is not None and c != is_and:
                    return BoolV(c)
                other = self.eval(nxt, frame)
                if not isinstance(other, BoolV):
                    rest = None
                    break
                terms.append(other.t)
            if rest is not None:
                return BoolV(self.and_(terms) if is_and else self.or_(terms))
            value = self.eval(node.values[0], frame)
        for nxt in node.values[1:]:
            t = self.truth(value)
            c = conc_bool(t)
            if c is not None:
                if c == is_and:
                    value = self.eval(nxt, frame)
                    continue
                return value
            # symbolic left operand: exact short-circuit semantics by branching
            if self.ctx.branch(t) == is_and:
                value = self.eval(nxt, frame)
            else:
                if isinstance(value, BoolV):
                    return BoolV(not is_and)
                return value
        return value

    def compare(self, op: str, left: V, right: V, line: int) -> Any:
        if op == "==":
            return self.eq(left, right)
        if op == "!=":
            return self.not_(self.eq(left, right))
        if op == "<":
            return self.less(left, right, True)
        if op == "<=":
            return self.less(left, right, False)
        if op == ">":
            return self.less(right, left, True)
        if op == ">=":
            return self.less(right, left, False)
        if op in ("is", "isnot"):
            if isinstance(left, NoneV) or isinstance(right, NoneV):
                same = isinstance(left, NoneV) and isinstance(right, NoneV)
            elif isinstance(left, BoolV) and isinstance(right, BoolV):
                same = left.t == right.t
            elif getattr(left, "kind", "") == "ref" and getattr(right, "kind", "") == "ref":
                same = self.eq(left, right)
            elif isinstance(left, (ObjV, ListV, SeqV, SetV, DictV)):
                same = left is right
            elif isinstance(left, ClassV) and isinstance(right, ClassV):
                same = left.name == right.name
            else:
                same = self.eq(left, right)
            return same if op == "is" else self.not_(same)
        if op in ("in", "notin"):
            res = self.contains(right, left, line)
            return res if op == "in" else self.not_(res)
        raise Unsupported(f"comparison {op}")

    def e_Compare(self, node: ast.Compare, frame: Frame) -> V:
        left = self.eval(node.left, frame)
        result: Any = True
        terms = []
        for i, (op_node, right_node) in enumerate(zip(node.ops, node.comparators)):
            right = self.eval(right_node, frame)
            t = self.compare(CMP[type(op_node)], left, right, node.lineno)
            c = conc_bool(t)
            if c is False:
                return BoolV(False)
            if c is None:
                terms.append(t)
                # chained comparisons short-circuit; later operands here are side-effect free
                # in the supported subset unless they are calls: be exact in that case
                if i + 1 < len(node.ops) and _has_call(node.comparators[i + 1]):
                    if not self.ctx.branch(t):
                        return BoolV(False)
                    terms.pop()
            left = right
        result = self.and_(terms)
        return BoolV(result)

    # ---- containers ------------------------------------------------------------------------------
    def e_List(self, node: ast.List, frame: Frame) -> V:
        return ListV(self.eval_elements(node.elts, frame))

    def e_Tuple(self, node: ast.Tuple, frame: Frame) -> V:
        return TupleV(self.eval_elements(node.elts, frame))

    def eval_elements(self, elts: list[ast.expr], frame: Frame) -> list[V]:
        items: list[V] = []
        for elt in elts:
            if isinstance(elt, ast.Starred):
                items.extend(self.iterate_concrete(self.eval(elt.value, frame), elt.lineno))
            else:
                items.append(self.eval(elt, frame))
        return items

    def e_Set(self, node: ast.Set, frame: Frame) -> V:
        return self.make_set(self.eval_elements(node.elts, frame))

    def e_Dict(self, node: ast.Dict, frame: Frame) -> V:
        result = DictV(entries=[])
        for key, value in zip(node.keys, node.values):
            if key is None:
                other = self.eval(value, frame)
                if not isinstance(other, DictV) or other.entries is None:
                    raise Unsupported("** of symbolic dict")
                for k, v in other.entries:
                    self.dict_set(result, k, v)
            else:
                self.dict_set(result, self.eval(key, frame), self.eval(value, frame))
        return result

    def e_Subscript(self, node: ast.Subscript, frame: Frame) -> V:
        base = self.eval(node.value, frame)
        if isinstance(node.slice, ast.Slice):
            lower = self.eval(node.slice.lower, frame) if node.slice.lower else None
            upper = self.eval(node.slice.upper, frame) if node.slice.upper else None
            step = self.eval(node.slice.step, frame) if node.slice.step else None
            return self.slice(base, lower, upper, step, node.lineno)
        index = self.eval(node.slice, frame)
        return self.index(base, index, node.lineno)

    def e_Starred(self, node: ast.Starred, frame: Frame) -> V:
        raise Unsupported("starred expression outside call/list")

    # ---- comprehensions ----------------------------------------------------------------------------
    def e_ListComp(self, node: ast.ListComp, frame: Frame) -> V:
        return self.comprehension(node, node.elt, frame, "list")

    def e_GeneratorExp(self, node: ast.GeneratorExp, frame: Frame) -> V:
        return self.comprehension(node, node.elt, frame, "gen")

    def e_SetComp(self, node: ast.SetComp, frame: Frame) -> V:
        return self.comprehension(node, node.elt, frame, "set")

    def e_DictComp(self, node: ast.DictComp, frame: Frame) -> V:
        pairs = self.comprehension(node, ast.Tuple(elts=[node.key, node.value], ctx=ast.Load(),
                                                   lineno=node.lineno, col_offset=0), frame, "list")
        result = DictV(entries=[])
        for pair in pairs.items:
            self.dict_set(result, pair.items[0], pair.items[1])
        return result

    def comprehension(self, node: Any, elt: ast.expr, frame: Frame, kind: str) -> V:
        """Comprehensions over concrete-length iterables are executed; over symbolic sequences
        they become a lazy description (GenV) consumed by any/all/min/max/sum/set/list."""
        gens = node.generators
        first_iter = self.eval(gens[0].iter, frame)
        if isinstance(first_iter, (SeqV, RangeV)) or (isinstance(first_iter, DictV) and first_iter.entries is None) \
                or isinstance(first_iter, GenV):
            if len(gens) != 1:
                raise Unsupported("nested comprehension over a symbolic sequence")
            gen = GenV(first_iter, gens[0].target, elt, gens[0].ifs, frame)
            if kind == "gen":
                return gen
            if kind == "list":
                return self.gen_to_seq(gen, node.lineno)
            if kind == "set":
                return self.gen_to_set(gen, node.lineno)
        out: list[V] = []

        def rec(level: int, scope: Frame) -> None:
            if level == len(gens):
                out.append(self.eval(elt, scope))
                return
            gen = gens[level]
            iterable = first_iter if level == 0 else self.eval(gen.iter, scope)
            for item in self.iterate_concrete(iterable, node.lineno):
                inner = Frame(dict(), scope.module, scope.func, scope, scope.owner)
                self.assign_target(gen.target, item, inner)
                ok = True
                for cond in gen.ifs:
                    if not self.ctx.branch(self.truth(self.eval(cond, inner))):
                        ok = False
                        break
                if ok:
                    rec(level + 1, inner)
        rec(0, frame)
        if kind == "set":
            return self.make_set(out)
        return ListV(out)


class GenV(V):
    """A lazy generator expression over a symbolic iterable."""
    kind = "generator"

    def __init__(self, source: V, target: ast.expr, elt: ast.expr, ifs: list[ast.expr], frame: Frame) -> None:
        self.source, self.target, self.elt, self.ifs, self.frame = source, target, elt, ifs, frame


def _has_call(node: ast.AST) -> bool:
    return any(isinstance(n, ast.Call) for n in ast.walk(node))
