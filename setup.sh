#!/bin/sh
# Offline setup: nothing to compile. Verifies the tools the checks need are present.
cd "$(dirname "$0")" || exit 3
python3-vt -c "import z3; print('z3', z3.get_version_string())" || exit 3
/venv/bin/python -c "import antismash, Bio; print('antismash from', antismash.__file__, 'biopython', Bio.__version__)" || exit 3
mkdir -p evidence replays
exit 0
