#!/bin/sh
# Offline setup: nothing to compile. Verifies the tools the checks need and that the verification engine is
# sound on this machine: model conformance with the installed Biopython, CPython cross-check of the translator,
# mutation self-test (DESIGN §2.8). Any failure here is a checker error, never a verdict about antismash.
cd "$(dirname "$0")" || exit 3
export PYTHONDONTWRITEBYTECODE=1
python3-vt -c "import z3; print('z3', z3.get_version_string())" || exit 3
/venv/bin/python -c "import antismash, Bio; print('antismash from', antismash.__file__, 'biopython', Bio.__version__)" || exit 3
mkdir -p evidence replays
echo "model conformance:"; PYTHONPATH="$(pwd)" /venv/bin/python -m pyvc.conformance 1500 || { echo "CONFORMANCE FAILED"; exit 3; }
echo "CPython cross-check:"; python3-vt -m pyvc.crosscheck 120 > /tmp/verif-crosscheck.json 2>&1; RC=$?
python3 -c "import json;d=json.load(open('/tmp/verif-crosscheck.json'));print('compared',d['compared'],'disagreements',len(d['disagreements']))" || { cat /tmp/verif-crosscheck.json | tail -20; exit 3; }
[ $RC -eq 0 ] || { echo "CROSS-CHECK DISAGREEMENT"; exit 3; }
rm -f /tmp/verif-crosscheck.json
echo "mutation self-test:"; python3-vt tools/selftest.py || { echo "SELF-TEST FAILED"; exit 3; }
exit 0
