#!/usr/bin/env python3
"""Runs the repository's pinned test command and checks that every test of BASELINE.stable_pass still passes.
Usage: tools/check_baseline.py [junit.xml to reuse]"""
import json, os, subprocess, sys, tempfile
import xml.etree.ElementTree as ET

base = json.load(open("/root/.vp/BASELINE.json"))
stable = set(base["stable_pass"])
path = sys.argv[1] if len(sys.argv) > 1 else os.path.join(tempfile.mkdtemp(prefix="baseline-"), "junit.xml")
if len(sys.argv) <= 1:
    cmd = base["cmd"].replace("<file>", path)
    subprocess.run(cmd, shell=True, check=False, stdout=subprocess.DEVNULL, stderr=subprocess.DEVNULL)
passed = set()
for case in ET.parse(path).getroot().iter("testcase"):
    if not any(child.tag in ("failure", "error", "skipped") for child in case):
        passed.add(f"{case.get('classname')}::{case.get('name')}")
missing = sorted(stable - passed)
print(f"stable_pass: {len(stable)}  passed now: {len(passed)}  stable tests not passing: {len(missing)}")
for name in missing[:40]:
    print("  NOT PASSING:", name)
sys.exit(1 if missing else 0)
