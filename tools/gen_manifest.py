#!/usr/bin/env python3
"""Generate /verif/MANIFEST.json from /verif/plan.json (single source of per-property claims)."""
import json
import os

VERIF = os.path.dirname(os.path.dirname(os.path.abspath(__file__)))


def main() -> None:
    with open(os.path.join(VERIF, "plan.json"), encoding="utf-8") as handle:
        plan = json.load(handle)
    checks = []
    not_applicable = []
    for prop, info in sorted(plan["properties"].items()):
        if info.get("not_applicable"):
            not_applicable.append({"property_id": prop, "reason": info["not_applicable"]})
            continue
        checks.append({
            "property_id": prop,
            "quick_cmd": f"./check {prop} --tier quick",
            "thorough_cmd": f"./check {prop} --tier thorough",
            "evidence_file": f"evidence/{prop}.json",
            "replay_cmd_template": "./check replay {path}",
            "engine": "pyvc+bounded",
            "level_claimed": {
                "category": info["level"],
                "text": info["level_text"],
                "design_ref": f"DESIGN.md §3 {prop}",
            },
            "level_note": info["level_note"],
            "technique": info["technique"],
        })
    manifest = {
        "version": 1,
        "setup_cmd": plan["setup_cmd"],
        "hooks": plan["hooks"],
        "engines": plan["engines"],
        "checks": checks,
        "notes": plan["notes"],
        "not_applicable": not_applicable,
    }
    with open(os.path.join(VERIF, "MANIFEST.json"), "w", encoding="utf-8") as handle:
        json.dump(manifest, handle, indent=1)
        handle.write("\n")


if __name__ == "__main__":
    main()
