#!/usr/bin/env python3
"""tools/mark_fixed.py ID=commit-subject-fragment ... : set status fixed + commit on findings (file-locked)."""
import fcntl, json, os, subprocess, sys
PATH = os.path.join(os.path.dirname(os.path.dirname(os.path.abspath(__file__))), "known_findings.json")
log = subprocess.check_output(["git", "-C", "/repo", "log", "--format=%h %s"], text=True).splitlines()
pairs = dict(a.split("=", 1) for a in sys.argv[1:])
with open(PATH, "r+", encoding="utf-8") as handle:
    fcntl.flock(handle, fcntl.LOCK_EX)
    data = json.load(handle)
    for f in data["findings"]:
        if f["id"] in pairs:
            hits = [l for l in log if pairs[f["id"]] in l]
            if not hits:
                raise SystemExit(f"no commit matches {pairs[f['id']]!r}")
            commit = hits[0].split()[0]
            f["status"], f["commit"] = "fixed", commit
            f["fixed"] = f"fixed: property={f['property']} {commit} {f['what'][:300]}"
            print(f["id"], "->", commit)
    handle.seek(0); handle.truncate()
    json.dump(data, handle, indent=1); handle.write("\n")
