#!/usr/bin/env python3
"""Mutation self-test of the pyvc engine (runs under python3-vt). Exit 0 iff every corpus entry behaves as expected."""
import json, multiprocessing, os, shutil, subprocess, sys, tempfile
VERIF = os.path.dirname(os.path.dirname(os.path.abspath(__file__)))
sys.path.insert(0, VERIF)
from pyvc.driver import MODELS, load_contracts  # noqa: E402
from pyvc.verify import verify_contract  # noqa: E402


def run_entry(args: tuple) -> tuple:
    index, entry, scratch = args[:3]
    timeout_ms = args[3] if len(args) > 3 else 10000
    contracts = load_contracts()
    by_target = {c.target: c for c in contracts.values() if not c.__dict__.get("variant", False)}
    tree = os.path.join(scratch, f"tree{index}")
    subprocess.check_call(["rsync", "-a", "--include=*/", "--include=*.py", "--exclude=*", "/repo/antismash", tree + "/"])
    try:
        path = os.path.join(tree, entry["file"])
        text = open(path, encoding="utf-8").read()
        if entry["old"] not in text:
            return index, "skip", f"SKIP (source changed, pattern not found): {entry['contract']} {entry['old'][:50]!r}"
        open(path, "w", encoding="utf-8").write(text.replace(entry["old"], entry["new"], 1))
        res = verify_contract(tree, contracts[entry["contract"]], by_target, MODELS, timeout_ms, open_findings=[])
        failed = [o for o in res["obligations"] if o["status"] == "failed"]
        if not failed and any(o["status"] == "undecided" for o in res["obligations"]):
            # as the driver does: obligations left open by the solvers are followed by the counterexample search
            small = verify_contract(tree, contracts[entry["contract"]], by_target, MODELS, timeout_ms, mode="small", open_findings=[])
            failed = [o for o in small["obligations"] if o["status"] == "failed" and o["kind"] != "unwind"]
        if res["out_of_subset"] or res.get("engine_error"):
            verdict = "unsupported"
        else:
            verdict = "refuted" if failed else "same"
        ok = verdict == entry["expect"]
        # every corpus entry stays inside the supported subset: "unsupported" here means the engine lost
        # a function it used to verify (a silent loss of coverage), so it fails the self-test
        line = " ".join(["ok   " if ok else "WRONG", entry["contract"], "expected", entry["expect"], "got", verdict,
                         (res["out_of_subset"] or "")[:100]])
        return index, "ok" if ok else "bad", line
    finally:
        shutil.rmtree(tree, ignore_errors=True)


def main() -> int:
    corpus = json.load(open(os.path.join(VERIF, "selftest", "corpus.json")))["mutations"]
    limit = int(sys.argv[1]) if len(sys.argv) > 1 else len(corpus)
    scratch = tempfile.mkdtemp(prefix="pyvc-selftest-")
    bad = 0
    try:
        ctx = multiprocessing.get_context("fork")
        with ctx.Pool(8) as pool:
            results = pool.map(run_entry, [(i, entry, scratch) for i, entry in enumerate(corpus[:limit])])
        for index, status, line in sorted(results):
            if status == "bad":
                # a busy machine can starve the solver: one more try, alone and with six times the solver time
                index, status, line = run_entry((index, corpus[index], scratch, 60000))
                line += "  (second attempt)"
            print(line)
            bad += status == "bad"
    finally:
        shutil.rmtree(scratch, ignore_errors=True)
    return 1 if bad else 0


if __name__ == "__main__":
    sys.exit(main())
