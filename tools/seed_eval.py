#!/usr/bin/env python3
"""tools/seed_eval.py <prop> <i> [<extra props to check>...]: confirm a seeded defect from /tmp/mutwt/<prop>/_out (demo passes on HEAD,
fails with the patch; stable tests of the touched packages still pass), run the registered check(s) against the patched scratch
worktree, and store everything under /verif/seeded/<prop>-<i>/."""
import json, os, shutil, subprocess, sys, tempfile, time
import xml.etree.ElementTree as ET

VERIF = os.path.dirname(os.path.dirname(os.path.abspath(__file__)))
prop, idx = sys.argv[1], sys.argv[2]
checks = [prop] + sys.argv[3:]
src = f"/tmp/mutwt/{prop}/_out"
patch, demo, meta = (os.path.join(src, f"{n}{idx}.{e}") for n, e in (("patch", "diff"), ("demo", "py"), ("meta", "json")))
out = os.path.join(VERIF, "seeded", f"{prop}-{idx}")
os.makedirs(out, exist_ok=True)
if not os.path.exists(patch):
    # already stored: re-evaluate the kept copy
    patch, demo, meta = (os.path.join(out, n) for n in ("patch.diff", "demo.py", "meta.json"))
wt = tempfile.mkdtemp(prefix="seedwt.", dir="/tmp"); os.rmdir(wt)
subprocess.check_call(["git", "-C", "/repo", "worktree", "add", "-q", "--detach", wt, "HEAD"])
info = json.load(open(meta)) if os.path.exists(meta) else {}
result = {"property": prop, "summary": info.get("summary"), "needs": info.get("needs"), "files": info.get("files"),
          "repo_head": subprocess.check_output(["git", "-C", "/repo", "rev-parse", "--short", "HEAD"], text=True).strip()}
env = dict(os.environ, PYTHONPATH=wt, PYTHONDONTWRITEBYTECODE="1")
try:
    def run_demo():
        return subprocess.run(["/venv/bin/python", demo], cwd=wt, env=env, capture_output=True, text=True, timeout=900)
    clean = run_demo()
    result["demo_exit_unchanged"] = clean.returncode
    applied = subprocess.run(["git", "-C", wt, "apply", patch], capture_output=True, text=True)
    if applied.returncode != 0:
        result["error"] = "patch does not apply: " + applied.stderr[-300:]
    else:
        mutated = run_demo()
        result["demo_exit_with_patch"] = mutated.returncode
        result["demo_output_with_patch"] = (mutated.stdout + mutated.stderr)[-600:]
        touched = subprocess.check_output(["git", "-C", wt, "diff", "--name-only"], text=True).split()
        result["files"] = touched
        dirs = sorted({"/".join(f.split("/")[:3]) if f.count("/") >= 3 else os.path.dirname(f) for f in touched})
        junit = os.path.join(tempfile.mkdtemp(), "j.xml")
        subprocess.run(["/venv/bin/python", "-m", "pytest", "-q", "-p", "no:cacheprovider", f"--junitxml={junit}"] + dirs,
                       cwd=wt, env=env, capture_output=True, text=True, timeout=3000)
        stable = set(json.load(open("/root/.vp/BASELINE.json"))["stable_pass"])
        broken, ran = [], 0
        for case in ET.parse(junit).getroot().iter("testcase"):
            ran += 1
            name = f"{case.get('classname')}::{case.get('name')}"
            if any(c.tag in ("failure", "error") for c in case) and name in stable:
                broken.append(name)
        result["tests"] = {"dirs": dirs, "ran": ran, "stable_tests_broken": broken}
        result["confirmed"] = clean.returncode == 0 and mutated.returncode == 1 and not broken
        result["checks"] = {}
        for chk in checks:
            started = time.time()
            proc = subprocess.run(["./check", chk], cwd=VERIF, env=dict(os.environ, VERIF_REPO=wt), capture_output=True, text=True, timeout=3600)
            lines = proc.stdout.splitlines()
            viol = [l for l in lines if l.startswith("VIOLATION") or l.startswith("  failed")]
            result["checks"][chk] = {"exit": proc.returncode, "wall_s": round(time.time() - started, 1),
                                     "violation_lines": viol[:8], "summary": lines[-1] if lines else "",
                                     "caught_by": sorted({"deductive" if "::" in l else "bounded" for l in viol if l.startswith("  failed")})}
        result["caught"] = any(c["exit"] == 1 for c in result["checks"].values())
finally:
    subprocess.run(["git", "-C", "/repo", "worktree", "remove", "--force", wt])
    subprocess.run(["git", "checkout", "-q", "--", "evidence"], cwd=VERIF)
if os.path.dirname(patch) != out:
    shutil.copy(patch, os.path.join(out, "patch.diff"))
    shutil.copy(demo, os.path.join(out, "demo.py"))
json.dump(result, open(os.path.join(out, "meta.json"), "w"), indent=1)
print(prop, idx, "confirmed" if result.get("confirmed") else "NOT-CONFIRMED", "caught" if result.get("caught") else "MISSED",
      {k: (v["exit"], v["caught_by"]) for k, v in result.get("checks", {}).items()}, result.get("error", ""))
