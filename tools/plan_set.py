#!/usr/bin/env python3
"""tools/plan_set.py <json-file-with-{"Cxx": {...}}>: merge entries into plan.json and regenerate MANIFEST.json."""
import json, os, subprocess, sys
VERIF = os.path.dirname(os.path.dirname(os.path.abspath(__file__)))
plan = json.load(open(os.path.join(VERIF, "plan.json")))
new = json.load(open(sys.argv[1]))
for prop, info in new.items():
    plan["properties"][prop] = info
served = sorted(p for p, i in plan["properties"].items() if not i.get("not_applicable"))
for eng in plan["engines"]:
    eng["serves_properties"] = [p for p in served if plan["properties"][p].get("deductive" if eng["name"] == "pyvc" else "bounded")]
json.dump(plan, open(os.path.join(VERIF, "plan.json"), "w"), indent=1)
subprocess.check_call([sys.executable, os.path.join(VERIF, "tools", "gen_manifest.py")])
