#!/bin/sh
# tools/seedtest.sh <patch.diff> <Cxx> [more Cxx...] : apply the patch to a scratch worktree of /repo HEAD and run the checks on it
PATCH=$(realpath "$1"); shift
WT=$(mktemp -d /tmp/seedwt.XXXXXX)
rmdir "$WT"
git -C /repo worktree add -q --detach "$WT" HEAD || exit 3
if ! git -C "$WT" apply "$PATCH"; then echo "PATCH DOES NOT APPLY"; git -C /repo worktree remove --force "$WT"; exit 3; fi
cd /verif || exit 3
RC=0
for P in "$@"; do
  VERIF_REPO="$WT" ./check "$P" > "/tmp/seedtest_$P.log" 2>&1
  R=$?
  echo "== $P exit=$R"; grep -E "^VIOLATION|^  failed|CHECKER-ERROR" "/tmp/seedtest_$P.log" | head -6; tail -1 "/tmp/seedtest_$P.log"
  [ $R -gt $RC ] && RC=$R
done
git -C /repo worktree remove --force "$WT"
git checkout -q -- evidence 2>/dev/null
exit $RC
