#!/bin/sh
# tools/fixtry.sh <pytest paths...> : runs the tests; prints stable-baseline tests that do not pass (must be none)
cd /repo || exit 3
TMP=$(mktemp -d)
/venv/bin/python -m pytest -q -p no:cacheprovider --junitxml=$TMP/j.xml "$@" >/dev/null 2>&1
python3 - "$TMP/j.xml" <<'PY'
import json, sys
import xml.etree.ElementTree as ET
stable = set(json.load(open("/root/.vp/BASELINE.json"))["stable_pass"])
bad = []
n = 0
for case in ET.parse(sys.argv[1]).getroot().iter("testcase"):
    n += 1
    name = f"{case.get('classname')}::{case.get('name')}"
    if any(c.tag in ("failure", "error") for c in case) and name in stable:
        bad.append(name)
print(f"ran {n} tests; stable tests now failing: {len(bad)}")
for b in bad: print("  BROKEN:", b)
sys.exit(1 if bad else 0)
PY
rc=$?
rm -rf $TMP
exit $rc
