#!/usr/bin/env python3
"""tools/seed_table.py: regenerates seeded/README.md (which check catches which seeded change) from seeded/*/meta.json."""
import glob, json, os
VERIF = os.path.dirname(os.path.dirname(os.path.abspath(__file__)))
rows = []
for meta in sorted(glob.glob(os.path.join(VERIF, "seeded", "C*-*", "meta.json"))):
    sid = os.path.basename(os.path.dirname(meta))
    m = json.load(open(meta))
    chk = (m.get("checks") or {}).get(m["property"], {})
    by = "+".join(chk.get("caught_by") or []) or ("-" if not m.get("caught") else "?")
    first = ""
    for line in chk.get("violation_lines", []):
        if line.startswith("  failed"):
            first = line.strip()[8:].split(":")[0:3]
            first = ":".join(first)[:110]
            break
    rows.append((sid, "yes" if m.get("confirmed") else "NO", "caught" if m.get("caught") else "MISSED", by,
                 ", ".join(os.path.basename(f) for f in (m.get("files") or [])), (m.get("summary") or "").replace("|", "/")[:230],
                 first.replace("|", "/"), m.get("repo_head", "")))
with open(os.path.join(VERIF, "seeded", "README.md"), "w", encoding="utf-8") as out:
    out.write("# Seeded changes\n\n"
              "Each directory holds one realistic change to antismash written by a fresh sub-agent that saw only the property text and a scratch\n"
              "worktree (prompts in `prompts/`): `patch.diff` (applies to /repo HEAD named in meta.json), `demo.py` (exit 0 on the unchanged tree, 1 with the patch),\n"
              "`meta.json` (what it needs, that the stable tests of the touched packages still pass, and what `./check <prop>` said on the patched worktree).\n"
              "Re-evaluate with `python3 tools/seed_eval.py <prop> <i>`; regenerate this table with `python3 tools/seed_table.py`.\n"
              "`deductive` = a proof obligation over the real code failed (named in the last column); `bounded` = a clause of the bounded stand-in failed.\n\n"
              "| seed | confirmed | result | caught by | file | change | first failing obligation / clause |\n|---|---|---|---|---|---|---|\n")
    for r in rows:
        out.write(f"| {r[0]} | {r[1]} | {r[2]} | {r[3]} | {r[4]} | {r[5]} | {r[6]} |\n")
    n = len(rows); caught = sum(1 for r in rows if r[2] == "caught")
    ded = sum(1 for r in rows if "deductive" in r[3])
    out.write(f"\n{caught}/{n} caught ({ded} by a failed proof obligation, the others by the bounded stand-in only).\n")
print(f"{len(rows)} seeds")
