#!/usr/bin/env python3
"""Single source of the per-property claims. `python3 tools/plan_src.py` writes plan.json and MANIFEST.json."""
import json
import os
import subprocess
import sys

VERIF = os.path.dirname(os.path.dirname(os.path.abspath(__file__)))
DED = ("contract-based deductive verification: pyvc generates verification conditions from the real AST of {fns} "
       "(sidecar contracts, loop invariants, callee contracts) and discharges them with z3 (cvc5 on unknowns)")
BND = "bounded stand-in evaluating the property's clauses natively on the real code (labelled bounded, never counted as proved)"
COMMON_TRUST = ("Trusted: the pyvc translator (Python subset -> z3; cross-checked against CPython), z3/cvc5, the model classes "
                "for Biopython locations (conformance-sampled), builtin contracts (sorted/min/max/len/set/dict). ")
UNDER = "check under construction in this session (see DESIGN.md); not yet claimed"

PROPS = {}
for _i in range(1, 21):
    PROPS[f"C{_i:02d}"] = {"not_applicable": UNDER}
PROPS["C18"] = {"not_applicable": "quantifies over schedules/worker processes and pickling across a process boundary: no function "
                "contract within reach of a sequential VC generator can express or decide it (DESIGN.md §3 C18); technique not switched"}


def entry(prop, level, deductive, bounded, technique, level_text, level_note, explanation, assumptions=()):
    PROPS[prop] = {"level": level, "deductive": deductive, "bounded": bounded, "technique": technique,
                   "level_text": level_text, "level_note": level_note, "explanation": explanation,
                   "assumptions": list(assumptions)}


for _name in sorted(os.listdir(os.path.join(VERIF, "plan.d"))):
    if _name.endswith(".json"):
        with open(os.path.join(VERIF, "plan.d", _name), encoding="utf-8") as _h:
            for _prop, _info in json.load(_h).items():
                PROPS[_prop] = _info

PLAN = {
    "setup_cmd": "./setup.sh",
    "hooks": {"guard": "ANTISMASH_VERIF",
              "enable": "no source hooks: contracts are sidecars under /verif/contracts keyed by file::qualname, the bounded "
                        "stand-ins wrap the real functions from outside",
              "baseline_off_cmd": "cd /repo && /venv/bin/python -m pytest -ra -q -p no:cacheprovider --timeout=900 "
                                  "--continue-on-collection-errors",
              "source_commits": [], "add_only": True},
    "engines": [
        {"name": "pyvc", "path": "pyvc/", "serves_properties": [],
         "kind_free_text": "home-built verification-condition generator: symbolic execution of the real /repo function ASTs "
                           "(re-read on every run) against sidecar contracts; obligations discharged by z3 (cvc5 second opinion); "
                           "modular (callee contracts), loop invariants, ghost recurrences, unrolling under stated shape preconditions"},
        {"name": "bounded", "path": "bounded/", "serves_properties": [],
         "kind_free_text": "bounded stand-in: the property's clauses evaluated natively on the real code for all inputs up to a "
                           "stated bound; labelled bounded, never counted as proved"},
    ],
    "notes": "See DESIGN.md. Levels follow what was achieved, not the plan. Genuine defects of the pinned tree were repaired by "
             "'fix:' commits in /repo or are listed in known_findings.json.",
    "properties": PROPS,
}


def main() -> None:
    served = sorted(p for p, i in PROPS.items() if not i.get("not_applicable"))
    for eng in PLAN["engines"]:
        key = "deductive" if eng["name"] == "pyvc" else "bounded"
        eng["serves_properties"] = [p for p in served if PROPS[p].get(key)]
    with open(os.path.join(VERIF, "plan.json"), "w", encoding="utf-8") as handle:
        json.dump(PLAN, handle, indent=1)
    subprocess.check_call([sys.executable, os.path.join(VERIF, "tools", "gen_manifest.py")])


if __name__ == "__main__":
    main()
