#!/usr/bin/env python3
"""tools/coverage_gate.py [--write]: developer gate against silent loss of deductive coverage. Compares, per property, the
contracts that were decided in the last run (evidence/*.json) with selftest/expected_contracts.json; --write records the
current state as the expectation. Not part of any registered command (a changed /repo may legitimately leave the subset)."""
import glob, json, os, sys
VERIF = os.path.dirname(os.path.dirname(os.path.abspath(__file__)))
BASE = os.path.join(VERIF, "selftest", "expected_contracts.json")
now = {}
for path in sorted(glob.glob(os.path.join(VERIF, "evidence", "C*.json"))):
    ev = json.load(open(path))
    cov = ev["coverage"]
    if "obligations" not in cov:
        continue
    lost = sorted({o["contract"] for o in cov.get("out_of_subset", [])})
    now[ev["property_id"]] = {"obligations": cov["obligations"], "discharged": cov["discharged"],
                              "undecided": len(cov.get("undecided", [])), "out_of_subset": lost,
                              "functions": sorted(f if isinstance(f, str) else f.get("contract", str(f)) for f in cov.get("functions_under_contract", []))}
if "--write" in sys.argv:
    json.dump(now, open(BASE, "w"), indent=1)
    print("written", BASE)
    sys.exit(0)
want = json.load(open(BASE))
bad = 0
for prop, exp in want.items():
    got = now.get(prop)
    if got is None:
        print("MISSING evidence", prop); bad += 1; continue
    if got["out_of_subset"] or got["undecided"] > exp["undecided"] or got["obligations"] < exp["obligations"] * 0.98 \
            or set(exp["functions"]) - set(got["functions"]):
        print("LOST", prop, "expected", exp["obligations"], "obligations, got", got["obligations"], "out_of_subset", got["out_of_subset"],
              "undecided", got["undecided"], "missing functions", sorted(set(exp["functions"]) - set(got["functions"])))
        bad += 1
print("coverage gate:", "FAILED" if bad else "ok", f"({len(want)} properties)")
sys.exit(1 if bad else 0)
