#!/usr/bin/env python3
"""Append/replace one entry of /verif/known_findings.json (by id), under a file lock.
Usage: add_finding.py '<json object>'   (development-time tool; checks never write this file)"""
import fcntl
import json
import os
import sys

PATH = os.path.join(os.path.dirname(os.path.dirname(os.path.abspath(__file__))), "known_findings.json")
REQUIRED = {"id", "property", "status", "clause", "class", "what"}


def main() -> int:
    entry = json.loads(sys.argv[1] if len(sys.argv) > 1 else sys.stdin.read())
    missing = REQUIRED - set(entry)
    if missing:
        raise SystemExit(f"missing keys: {sorted(missing)}")
    with open(PATH, "r+", encoding="utf-8") as handle:
        fcntl.flock(handle, fcntl.LOCK_EX)
        data = json.load(handle)
        data["findings"] = [f for f in data["findings"] if f["id"] != entry["id"]] + [entry]
        data["findings"].sort(key=lambda f: f["id"])
        handle.seek(0)
        handle.truncate()
        json.dump(data, handle, indent=1)
        handle.write("\n")
    print(f"recorded {entry['id']}")
    return 0


if __name__ == "__main__":
    sys.exit(main())
