#!/usr/bin/env python3
"""Entry point of the /verif checks (stdlib only; runs under python3-vt).

    ./check Cxx [--tier quick|thorough] [--seed N] [--only deductive|bounded]
    ./check replay <replay-file>

Per property: (1) deductive part — pyvc generates verification conditions from the CURRENT
/repo sources for the functions under contract and discharges them with z3/cvc5;
(2) bounded stand-in — the same kind of clauses evaluated natively on the real code up to a
stated bound; (3) verdicts per DESIGN.md §2.9; (4) evidence/<id>.json.

Exit codes: 0 held (KNOWN-FINDING lines allowed) / 1 VIOLATION / 3 checker error.
"""
from __future__ import annotations

import argparse
import json
import os
import subprocess
import sys
import tempfile
import time
import traceback

VERIF = os.path.dirname(os.path.abspath(__file__))
REPO = os.environ.get("VERIF_REPO", "/repo")
VENV_PY = "/venv/bin/python"
sys.path.insert(0, VERIF)

QUICK_BUDGET_S = 150.0
THOROUGH_BUDGET_S = 1500.0


def load_json(path: str):
    with open(path, encoding="utf-8") as handle:
        return json.load(handle)


def properties() -> dict:
    props = {}
    with open(os.path.join(VERIF, "properties.jsonl"), encoding="utf-8") as handle:
        for line in handle:
            if line.strip():
                prop = json.loads(line)
                props[prop["id"]] = prop
    return props


def plan() -> dict:
    """plan.json: per property the claimed level, whether deductive / bounded parts exist,
    explanation text. Kept next to MANIFEST.json (which is generated from it)."""
    return load_json(os.path.join(VERIF, "plan.json"))


def run_bounded(prop: str, tier: str, seed: int, budget: float) -> dict:
    env = dict(os.environ)
    env["PYTHONPATH"] = VERIF + os.pathsep + env.get("PYTHONPATH", "")
    if os.path.realpath(REPO) != "/repo":
        # a scratch copy of the repository under test (development: seeded mutants)
        env["PYTHONPATH"] = REPO + os.pathsep + env["PYTHONPATH"]
    env.setdefault("PYTHONHASHSEED", "0")
    env["PYTHONDONTWRITEBYTECODE"] = "1"
    with tempfile.TemporaryDirectory(prefix="verif-b-") as tmp:
        out = os.path.join(tmp, "out.json")
        # every temporary file of the bounded run lives under this private directory (removed afterwards)
        scratch = os.path.join(tmp, "scratch")
        os.makedirs(scratch)
        env["TMPDIR"] = scratch
        cmd = [VENV_PY, "-m", "bounded.common", "run", prop, tier, str(seed), str(budget), out]
        proc = subprocess.run(cmd, cwd=VERIF, env=env, capture_output=True, text=True,
                              timeout=budget * 4 + 600, check=False)
        if proc.returncode != 0 or not os.path.exists(out):
            return {"errors": [f"bounded driver failed (exit {proc.returncode}):\n"
                               f"{proc.stdout[-3000:]}\n{proc.stderr[-6000:]}"],
                    "failures": [], "known_seen": {}, "witness_status": {}, "evaluations": 0,
                    "distinct_nontrivial": 0, "samples": [], "clauses": {}, "rule": "",
                    "exhaustive": False, "wall_s": 0.0}
        return load_json(out)


def run_deductive(prop: str, tier: str, seed: int) -> dict:
    from pyvc import driver  # imported lazily: needs z3 (python3-vt)
    return driver.run_property(prop, tier, seed, REPO)


def write_replay(prop: str, index: int, payload: dict) -> str:
    os.makedirs(os.path.join(VERIF, "replays"), exist_ok=True)
    path = os.path.join(VERIF, "replays", f"{prop}-{index:03d}.json")
    with open(path, "w", encoding="utf-8") as handle:
        json.dump(payload, handle, indent=1, default=repr)
    return path


def check_property(prop: str, tier: str, seed: int, only: str | None) -> int:
    started = time.time()
    info = plan()["properties"].get(prop)
    if info is None or info.get("not_applicable"):
        print(f"property {prop} is not claimed (not applicable or not built)")
        return 3
    budget = QUICK_BUDGET_S if tier == "quick" else THOROUGH_BUDGET_S
    budget = float(info.get(f"{tier}_budget_s", budget))

    errors: list[str] = []
    violations: list[dict] = []
    known_lines: list[str] = []
    findings = [f for f in load_json(os.path.join(VERIF, "known_findings.json"))["findings"]
                if f["property"] == prop]
    by_id = {f["id"]: f for f in findings}

    ded: dict = {}
    if info.get("deductive") and only in (None, "deductive"):
        try:
            ded = run_deductive(prop, tier, seed)
        except Exception:  # pylint: disable=broad-except
            errors.append("deductive part crashed:\n" + traceback.format_exc())
            ded = {}
        errors.extend(ded.get("errors", []))
        for viol in ded.get("violations", []):
            violations.append(viol)
        for fid, count in ded.get("known_seen", {}).items():
            what = by_id.get(fid, {}).get("what", "")
            known_lines.append(f"KNOWN-FINDING: property={prop} {fid} {what} "
                               f"[deductive: {count} obligation(s) refuted inside the listed class]")

    bnd: dict = {}
    if info.get("bounded") and only in (None, "bounded"):
        bnd = run_bounded(prop, tier, seed, budget)
        errors.extend(bnd.get("errors", []))
        for failure in bnd.get("failures", []):
            violations.append({"kind": "bounded", "clause": failure["clause"], "case": failure["case"],
                               "detail": failure.get("detail", ""), "has_input": True})
        for fid, count in bnd.get("known_seen", {}).items():
            what = by_id.get(fid, {}).get("what", "")
            known_lines.append(f"KNOWN-FINDING: property={prop} {fid} {what} "
                               f"[bounded: {count} failing case(s) inside the listed class]")
        for fid, status in bnd.get("witness_status", {}).items():
            if status == "still-fails" and fid not in bnd.get("known_seen", {}) \
                    and fid not in ded.get("known_seen", {}):
                what = by_id.get(fid, {}).get("what", "")
                known_lines.append(f"KNOWN-FINDING: property={prop} {fid} {what} [stored witness still fails]")

    # ---- verdict lines ---------------------------------------------------------------
    seen_lines = set()
    for line in known_lines:
        key = line.split(" [")[0]
        if key not in seen_lines:
            seen_lines.add(key)
            print(line)
    replay_paths = []
    for index, viol in enumerate(violations[:40]):
        payload = {"property": prop, "tier": tier, "seed": seed, **viol}
        path = write_replay(prop, index, payload)
        replay_paths.append(path)
        suffix = "" if viol.get("has_input") else " no-failing-input-found"
        what = viol.get("obligation") or viol.get("clause")
        print(f"VIOLATION property={prop} replay={path}{suffix}")
        print(f"  failed: {what}: {str(viol.get('detail', ''))[:400]}")
    for item in ded.get("out_of_subset", []):
        # a function under contract that the generator could not take this time: not a violation,
        # but nothing is proved about it in this run (listed in the evidence as well)
        print(f"UNDECIDED: property={prop} {str(item)[:300]}")
    for item in ded.get("undecided", [])[:8]:
        print(f"UNDECIDED: property={prop} {item.get('obligation')}: {str(item.get('detail'))[:200]}")
    for err in errors:
        print("CHECKER-ERROR:", err, file=sys.stderr)

    # ---- evidence --------------------------------------------------------------------
    level = info["level"]
    coverage: dict = {}
    obligations = ded.get("obligations", 0)
    discharged = ded.get("discharged", 0)
    if ded:
        coverage.update({
            "obligations": obligations,
            "discharged": discharged,
            "checker_cmd": f"./check {prop} --tier {tier}  (pyvc: VCs from /repo AST -> z3 {ded.get('z3_version', '?')}"
                           f", cvc5 on z3-unknowns{' and on every discharged VC' if tier == 'thorough' else ''})",
            "trusted_base": ded.get("trusted_base", []),
            "functions_under_contract": ded.get("functions", []),
            "obligations_by_kind": ded.get("by_kind", {}),
            "undecided": ded.get("undecided", []),
            "out_of_subset": ded.get("out_of_subset", []),
            "inlined": ded.get("inlined", []),
            "backends": ded.get("backends", {}),
            "solver_s": ded.get("solver_s", 0.0),
            "vacuity": ded.get("vacuity", {}),
            "known_class_obligations": ded.get("known_class_obligations", []),
            "discharged_obligations_cross_checked_with_cvc5": ded.get("cross_checked", {}),
            "obligation_samples": ded.get("samples", []),
        })
    if bnd:
        coverage.update({
            "evaluations": bnd.get("evaluations", 0),
            "distinct_nontrivial": bnd.get("distinct_nontrivial", 0),
            "rule": bnd.get("rule", ""),
            "samples": bnd.get("samples", []) or ded.get("samples", []),
            "exhaustive": bool(bnd.get("exhaustive", False)),
            "bounded_clauses": bnd.get("clauses", {}),
            "bounded_truncated_by_time_budget": bool(bnd.get("truncated", False)),
            "bounded_wall_s": bnd.get("wall_s", 0.0),
        })
    elif ded:
        coverage.setdefault("samples", ded.get("samples", []))
    coverage["explanation"] = info.get("explanation", "")
    coverage["known_findings_seen"] = sorted(set(list(ded.get("known_seen", {})) + list(bnd.get("known_seen", {}))))
    coverage["witness_status"] = bnd.get("witness_status", {})
    evidence = {
        "property_id": prop,
        "tier": tier,
        "seed": seed,
        "level": level,
        "coverage": coverage,
        "assumptions": sorted(set(info.get("assumptions", []) + ded.get("assumptions", []))),
        "wall_s": round(time.time() - started, 2),
        "violations": len(violations),
        "checker_errors": len(errors),
    }
    os.makedirs(os.path.join(VERIF, "evidence"), exist_ok=True)
    with open(os.path.join(VERIF, "evidence", f"{prop}.json"), "w", encoding="utf-8") as handle:
        json.dump(evidence, handle, indent=1, default=repr)
        handle.write("\n")

    summary = (f"{prop} {tier}: obligations {discharged}/{obligations} discharged"
               f" ({len(ded.get('undecided', []))} undecided), bounded evaluations "
               f"{bnd.get('evaluations', 0)} ({bnd.get('distinct_nontrivial', 0)} distinct non-trivial), "
               f"violations {len(violations)}, known findings {len(seen_lines)}, "
               f"errors {len(errors)}, {evidence['wall_s']}s")
    print(summary)
    if violations:
        return 1
    if errors:
        return 3
    return 0


def replay(path: str) -> int:
    data = load_json(path)
    prop = data["property"]
    if data.get("kind") == "bounded":
        env = dict(os.environ)
        env["PYTHONPATH"] = VERIF + os.pathsep + env.get("PYTHONPATH", "")
        proc = subprocess.run([VENV_PY, "-m", "bounded.common", "replay", prop, path], cwd=VERIF,
                              env=env, check=False)
        if proc.returncode == 1:
            print(f"VIOLATION property={prop} replay={path}")
        return proc.returncode
    from pyvc import driver
    return driver.replay(data, REPO, path)


def main() -> int:
    parser = argparse.ArgumentParser()
    parser.add_argument("target")
    parser.add_argument("path", nargs="?")
    parser.add_argument("--tier", default=os.environ.get("VERIF_TIER", "quick"), choices=["quick", "thorough"])
    parser.add_argument("--seed", type=int, default=int(os.environ.get("VERIF_SEED", "0") or 0))
    parser.add_argument("--only", choices=["deductive", "bounded"])
    args = parser.parse_args()
    if args.target == "replay":
        return replay(args.path)
    if args.target == "all":
        worst = 0
        for prop, info in sorted(plan()["properties"].items()):
            if info.get("not_applicable"):
                continue
            worst = max(worst, check_property(prop, args.tier, args.seed, args.only))
        return worst
    return check_property(args.target, args.tier, args.seed, args.only)


if __name__ == "__main__":
    try:
        sys.exit(main())
    except SystemExit:
        raise
    except Exception:  # pylint: disable=broad-except
        traceback.print_exc()
        sys.exit(3)
