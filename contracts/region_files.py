"""C12: cross references of a region's GenBank file (features/region/helpers.py)."""
# pylint: disable=no-self-argument,no-method-argument,missing-function-docstring
from pyvc.dsl import (contract, spec, Int, Bool, Real, Str, Opt, OneOf, Rec, Ref, External, ListOf, SeqOf, SetOf,
                      DictOf, Const, Loop, implies, iff, forall, exists)
from contracts.locations import FL

FILE = "antismash/common/secmet/features/region/helpers.py"

REGION_DATA = Rec("RegionData", label="RegionStartEnd", start=Int, end=Int)


def _motif(leader, tail):
    qualifiers = {"note": ["x"]}
    if leader is not None:
        qualifiers["leader_location"] = [leader]
    if tail is not None:
        qualifiers["tail_location"] = [tail]
    return SeqFeature(None, "CDS_motif", "motif", qualifiers)


@contract(f"{FILE}::_adjust_motif", props=["C12"])
class AdjustMotif:
    """Each of the two location qualifiers of a precursor peptide that is present is read and rewritten relative to
    the region, whether or not the other one is present (core + tail without a leader included); absent ones are
    not invented."""
    params = {"leader": Opt(Str), "tail": Opt(Str), "region": REGION_DATA, "record_length": Int}
    ghost_params = ["leader", "tail"]
    derived = {"feature": _motif}
    stubs = {
        # reading the text of a location: an external function of the text (effect 'parse' marks that it was read)
        "location_from_string": External(returns=FL, effect="parse"),
        "FeatureLocation.clone_with_offset": External(returns=FL),
    }

    def requires(region, record_length):
        return 0 <= region.start and 0 <= region.end and record_length > 0

    ensures = {
        "every-present-qualifier-is-read-exactly-once-in-order": lambda leader, tail, effects:
            len(effects) == (0 if leader is None else 1) + (0 if tail is None else 1)
            and all(e[0] == "parse" for e in effects)
            and implies(leader is not None, effects[0][1] == leader)
            and implies(tail is not None, effects[len(effects) - 1][1] == tail),
        "no-qualifier-is-invented-or-lost": lambda leader, tail, feature:
            (("leader_location" in feature.qualifiers) == (leader is not None))
            and (("tail_location" in feature.qualifiers) == (tail is not None))
            and "note" in feature.qualifiers,
    }
