"""C20: which entries of an output directory do not count as 'other files' (main.py)."""
# pylint: disable=no-self-argument,no-method-argument,missing-function-docstring
from pyvc.dsl import (contract, spec, Int, Bool, Real, Str, Opt, OneOf, Rec, Ref, External, Uninterpreted, ListOf, SeqOf,
                      SetOf, DictOf, Const, Loop, implies, iff, forall, exists)

FILE = "antismash/main.py"

abspath = Uninterpreted("abspath", [Str], Str)
is_dir = Uninterpreted("is_dir", [Str], Bool)
exists_ = Uninterpreted("path_exists", [Str], Bool)
basename = Uninterpreted("basename", [Str], Str)
realpath = Uninterpreted("realpath", [Str], Str)


@contract(f"{FILE}::_ignore_patterns", props=["C20"])
class IgnorePatterns:
    """An entry of the output directory is exempt from the 'directory contains other files' refusal only if it is
    the run's own input copy - a DIRECTORY named input - or the log file."""
    variant = True      # not used in place of the function by its callers (it speaks about a ghost parameter)
    params = {"entry": Str, "logfile": Str}
    ghost_params = ["logfile"]
    stubs = {
        "get_config": External(returns=Rec("Config", label="ConfigLogfile", logfile=Str), over_contract_params=True,
                               ensures=lambda result, logfile: result.logfile == logfile),
        "os.path.isdir": is_dir,
        "os.path.exists": exists_,
        "os.path.abspath": abspath,
        "os.path.basename": basename,
        "os.path.realpath": realpath,
    }
    ensures = {
        "counts-as-other-file-unless-input-directory-or-logfile": lambda entry, logfile, result:
            result == (not ((entry.endswith("/input") and is_dir(entry)) or abspath(entry) == abspath(logfile))),
    }
    returns = Bool
