"""C19: coordinates of the genes in the region overview (outputs/html/js.py)."""
# pylint: disable=no-self-argument,no-method-argument,missing-function-docstring
from pyvc.dsl import (contract, spec, Int, Bool, Real, Str, Opt, OneOf, Rec, Ref, External, ListOf, SeqOf, SetOf,
                      DictOf, Const, Loop, implies, iff, forall, exists)
from contracts.locations import FL, CL, wf, contains_spec
from contracts.membership import forward_area, gene_ok

FILE = "antismash/outputs/html/js.py"

FUNCTION = Ref("GeneFunction")
ANNOTATIONS = Ref("GeneFunctionAnnotations")
GENE = Rec("CDSFeature", label="DrawnGene", location=OneOf(FL, CL(2, 2)), _gene_functions=ANNOTATIONS,
           translation=Str, product=Str)
RECORD = Rec("Record", label="RecordLenSeq", _verif_length=Int, _record=Rec("SeqRecord", label="SeqRecordStr", seq=Str))
REGION = Rec("Region", label="DrawnRegion", location=OneOf(FL, CL(2, 2)))


@spec
def record_len(self):
    return self._verif_length


STUBS = {
    "Record.__len__": record_len,
    "get_description": External(returns=Str),
    "GeneFunctionAnnotations.get_classification": External(returns=FUNCTION, pure=True),
    "GeneFunctionAnnotations.get_by_tool": External(returns=ListOf(Ref("Annotation"), 0, 1)),
    "CDSFeature.get_name": External(returns=Str, pure=True),
    "FeatureLocation.extract": External(returns=Str),
    "CompoundLocation.extract": External(returns=Str),
    "id": External(returns=Int),
}


@spec
def in_post_origin_part(gene, region):
    """the whole gene lies in the part of the region after the origin"""
    last = region.location.parts[len(region.location.parts) - 1]
    return all(last.start <= p.start and p.end <= last.end for p in gene.location.parts)


@spec
def gene_start(gene):
    parts = gene.location.parts
    return parts[0].start if parts[0].strand != -1 else parts[len(parts) - 1].start


@spec
def gene_end(gene):
    parts = gene.location.parts
    return parts[len(parts) - 1].end if parts[0].strand != -1 else parts[0].end


@contract(f"{FILE}::convert_cds_features", props=["C19"])
class ConvertCdsFeatures:
    """The drawing coordinates of one gene of a region: 1-based, start <= end, inside the drawn extent (one record
    length, two for a region over the origin); a region over the origin is drawn unrolled (genes after the origin
    moved up by the record length, a gene over the origin ending there), a gene over the origin in any other
    region is drawn as its two halves."""
    params = {"record": RECORD, "features": ListOf(GENE, 1, 1), "options": Ref("Config"), "mibig_entries": Const({}),
              "region": REGION}
    stubs = STUBS

    def requires(record, features, region):
        gene = features[0]
        length = record._verif_length
        return (forward_area(region) and gene_ok(gene) and contains_spec(region.location, gene.location)
                and length > 0 and all(p.end <= length for p in region.location.parts)
                and implies(len(region.location.parts) == 2, region.location.parts[0].end == length)
                and implies(len(gene.location.parts) == 2,
                            gene.location.parts[0].end == length or gene.location.parts[1].end == length))

    ensures = {
        "in-range-and-ordered": lambda record, region, result:
            all(1 <= entry["start"] and entry["start"] <= entry["end"]
                and entry["end"] <= (2 if len(region.location.parts) == 2 else 1) * record._verif_length
                for entry in result),
        "region-over-the-origin-is-drawn-unrolled": lambda record, features, region, result:
            implies(len(region.location.parts) == 2,
                    len(result) == 1
                    and result[0]["start"] == gene_start(features[0]) + 1
                    + (record._verif_length if in_post_origin_part(features[0], region) else 0)
                    and result[0]["end"] == gene_end(features[0])
                    + (record._verif_length if (in_post_origin_part(features[0], region)
                                                or len(features[0].location.parts) == 2) else 0)),
        "gene-over-the-origin-is-drawn-as-two-halves-elsewhere": lambda record, features, region, result:
            implies(len(region.location.parts) == 1 and len(features[0].location.parts) == 2,
                    len(result) == 2 and result[0]["start"] == gene_start(features[0]) + 1
                    and result[0]["end"] == record._verif_length
                    and result[1]["start"] == 1 and result[1]["end"] == gene_end(features[0])),
        "other-genes-are-drawn-where-they-are": lambda features, region, result:
            implies(len(region.location.parts) == 1 and len(features[0].location.parts) == 1,
                    len(result) == 1 and result[0]["start"] == features[0].location.start + 1
                    and result[0]["end"] == features[0].location.end),
    }
