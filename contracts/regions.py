"""C06: the sorted, disjoint list of regions kept by Record.add_region (common/secmet/record.py) and the
collection ordering it relies on (features/cdscollection.py)."""
# pylint: disable=no-self-argument,no-method-argument,missing-function-docstring
from pyvc.dsl import (contract, spec, Int, Bool, Real, Str, Opt, OneOf, Rec, Ref, External, ListOf, SeqOf, SetOf,
                      DictOf, Const, Loop, implies, iff, forall, exists)
from contracts.locations import FL, CL

RECORD_FILE = "antismash/common/secmet/record.py"
COLLECTION_FILE = "antismash/common/secmet/features/cdscollection.py"

# a collection without children on one stretch of a contig (the regions of a linear record, and every
# region of a circular record except one spanning the origin)
COLLECTION = Rec("CDSCollection", label="SimpleCollection", location=FL, _children=Const([]))


@spec
def extent_ok(c):
    return (0 <= c.location.start and c.location.start < c.location.end
            and (c.location.strand == 1 or c.location.strand == -1 or c.location.strand == 0))


@spec
def sorts_before(a, b):
    """documented order of collections: by start, ties from longest to shortest"""
    return (a.location.start < b.location.start
            or (a.location.start == b.location.start and a.location.end > b.location.end))


@spec
def extents_overlap(a, b):
    return a.location.start < b.location.end and b.location.start < a.location.end


@spec
def sort_start(c):
    """an area over the origin ([a, L) + [0, b)) sorts by where it starts before the origin, i.e. at a - L < 0"""
    parts = c.location.parts
    if len(parts) == 2:
        return parts[0].start - parts[0].end
    return parts[0].start


@spec
def extent_length(c):
    return sum(p.end - p.start for p in c.location.parts)


@spec
def sorts_before_any(a, b):
    """documented order of collections: by start (areas over the origin first, by their start before it), ties from longest to shortest"""
    return (sort_start(a) < sort_start(b)
            or (sort_start(a) == sort_start(b) and extent_length(a) > extent_length(b)))


@spec
def area_shape_ok(c):
    """forward strand; two parts only as an area over the origin: [a, L) + [0, b) with b <= a"""
    parts = c.location.parts
    return (all(0 <= p.start and p.start < p.end
                and (p.strand == 1 or (len(parts) == 1 and (p.strand == -1 or p.strand == 0))) for p in parts)
            and (len(parts) == 1 or (parts[1].start == 0 and parts[1].end <= parts[0].start)))


ANY_COLLECTION = Rec("CDSCollection", label="CollectionAnyShape", location=OneOf(FL, CL(2, 2)), _children=Const([]))


@contract(f"{COLLECTION_FILE}::CDSCollection.__lt__", props=["C06", "C05", "C10"])
class CollectionLessThan:
    """`a < b` for two child-less collections is the documented order: by start - an area over the origin sorts by its
    start before the origin, ahead of everything else - and from longest to shortest among equal starts. Both areas
    of one record (the parts before the origin end at the same record length)."""
    params = {"self": ANY_COLLECTION, "other": ANY_COLLECTION}

    def requires(self, other):
        return (area_shape_ok(self) and area_shape_ok(other)
                and implies(len(self.location.parts) == 2 and len(other.location.parts) == 2,
                            self.location.parts[0].end == other.location.parts[0].end)
                and implies(len(self.location.parts) == 2 and len(other.location.parts) == 1,
                            other.location.end <= self.location.parts[0].end)
                and implies(len(other.location.parts) == 2 and len(self.location.parts) == 1,
                            self.location.end <= other.location.parts[0].end))

    ensures = {"start-then-longest-first": lambda self, other, result: result == sorts_before_any(self, other)}
    returns = Bool


# ---- Record.add_region ----------------------------------------------------------------------------
REGION = Rec("Region", label="SimpleRegion", location=FL, _children=Const([]))
RECORD = Rec("Record", label="RecordWithRegions", _regions=SeqOf(REGION), _region_numbering=DictOf(REGION, Int),
             _verif_length=Int, _record=Rec("SeqRecord", label="SeqRecordWithSeq", seq=SeqOf(Int)))


@spec
def record_len(self):
    return self._verif_length


@spec
def no_genes(self, location):
    return []


@spec
def regions_sorted_and_disjoint(regions):
    n = len(regions)
    return (forall(range(0, n), lambda j: extent_ok(regions[j]))
            and forall(range(0, n), lambda i: forall(range(0, n), lambda j: implies(
                i < j, sorts_before(regions[i], regions[j]) and not extents_overlap(regions[i], regions[j])))))


@spec
def numbered_in_order(record, upto):
    """region numbers are the 1-based positions in the sorted list"""
    return forall(range(0, upto), lambda j: record._regions[j] in record._region_numbering
                  and record._region_numbering[record._regions[j]] == j + 1)


@spec
def same_region(a, b):
    return a.location.start == b.location.start and a.location.end == b.location.end


@contract(f"{RECORD_FILE}::Record.add_region", props=["C06"])
class RecordAddRegion:
    """Any number of regions already held (loops cut by invariants), each on one stretch of the contig
    (no region spanning the origin), record without genes."""
    params = {"self": RECORD, "region": REGION}
    stubs = {"Record.__len__": record_len, "Record.get_cds_features_within_location": no_genes}

    def requires(self, region):
        return (regions_sorted_and_disjoint(self._regions) and extent_ok(region)
                and region.location.end <= len(self)
                and forall(range(0, len(self._regions)), lambda j: self._regions[j].location.end <= len(self))
                and numbered_in_order(self, len(self._regions)))

    raises = {"ValueError": lambda self, region:
              exists(range(0, len(self._regions)), lambda j: extents_overlap(region, self._regions[j]))}
    on_raise = {"a-refused-region-changes-nothing": lambda self, old:
                len(self._regions) == len(old.self._regions)
                and forall(range(0, len(self._regions)), lambda j: same_region(self._regions[j], old.self._regions[j]))}
    loops = {
        0: Loop(index="_i", invariant={
            "nothing-seen-so-far-overlaps": lambda self, region, _i:
                forall(range(0, _i), lambda j: not extents_overlap(region, self._regions[j]))}),
        1: Loop(index="_i", invariant={
            "insertion-point-is-the-iteration-count": lambda index, _i: index == _i,
            "nothing-seen-so-far-sorts-after": lambda self, region, _i:
                forall(range(0, _i), lambda j: not sorts_before(region, self._regions[j]))}),
        2: Loop(index="_k", modifies=["self._region_numbering"],
                invariant={
                    "list-sorted-and-disjoint-after-the-insertion": lambda self: regions_sorted_and_disjoint(self._regions),
                    "numbered-up-to-here": lambda self, index, _k: numbered_in_order(self, index + _k)})}
    ensures = {
        "regions-stay-sorted-and-disjoint": lambda self: regions_sorted_and_disjoint(self._regions),
        "regions-are-numbered-by-position": lambda self: numbered_in_order(self, len(self._regions)),
        "the-region-is-held-and-nothing-is-lost": lambda self, region, old:
            len(self._regions) == len(old.self._regions) + 1
            and exists(range(0, len(self._regions)), lambda k: same_region(self._regions[k], region)
                       and forall(range(0, len(old.self._regions)), lambda j: same_region(
                           old.self._regions[j], self._regions[j if j < k else j + 1]))),
    }
