"""C13: HMM hit refinement kernels and list passes (hmmscan_refinement.py, cluster_prediction.py)."""
# pylint: disable=no-self-argument,no-method-argument,missing-function-docstring
from pyvc.dsl import (contract, spec, Int, Bool, Real, Str, Opt, OneOf, Rec, Ref, External, ListOf, SeqOf, SetOf,
                      DictOf, Const, Loop, implies, iff, forall, exists)

FILE = "antismash/common/hmmscan_refinement.py"
RULES = "antismash/common/hmm_rule_parser/cluster_prediction.py"

HIT = Rec("HMMResult", label="HIT", _hit_id=Str, _query_start=Int, _query_end=Int, _evalue=Real, _bitscore=Real)
HSP = Rec("HSP", label="HSP", hit_start=Int, hit_end=Int)


@spec
def hit_ok(h):
    return 0 <= h._query_start and h._query_start < h._query_end


@contract(f"{RULES}::hsp_overlap_size", props=["C13"])
class HspOverlapSize:
    params = {"first": HSP, "second": HSP}

    def requires(first, second):
        return first.hit_start < first.hit_end and second.hit_start < second.hit_end

    def ensures(first, second, result):
        # |[a) ∩ [b)|
        lo = max(first.hit_start, second.hit_start)
        hi = min(first.hit_end, second.hit_end)
        return result == (hi - lo if hi > lo else 0) and result >= 0


@contract(f"{FILE}::HMMResult.overlaps_with", props=["C13"])
class HitOverlapsWith:
    params = {"self": HIT, "other": HIT}

    def requires(self, other):
        return hit_ok(self) and hit_ok(other)

    def ensures(self, other, result):
        return result == (self._query_start < other._query_end and other._query_start < self._query_end)

    returns = Bool


@contract(f"{FILE}::HMMResult.is_contained_by", props=["C13"])
class HitIsContainedBy:
    params = {"self": HIT, "other": HIT}

    def requires(self, other):
        return hit_ok(self) and hit_ok(other)

    def ensures(self, other, result):
        return result == (other._query_start <= self._query_start and self._query_end <= other._query_end)

    returns = Bool


@spec
def merge_shrinks(self, other):
    """one fragment is nested in the other in the way for which the pinned merge keeps the inner end"""
    return ((self._query_start < other._query_start and other._query_end < self._query_end)
            or (self._query_start >= other._query_start and self._query_end < other._query_end))


@contract(f"{FILE}::HMMResult.merge", props=["C13"])
class HitMerge:
    """'the merge of same-profile fragments ... spanning them, with their best score'"""
    params = {"self": HIT, "other": HIT}

    def requires(self, other):
        return hit_ok(self) and hit_ok(other) and self._hit_id == other._hit_id

    ensures = {
        "spans-both-fragments": lambda self, other, result:
            result._query_start == min(self._query_start, other._query_start)
            and result._query_end == max(self._query_end, other._query_end),
        "same-profile-best-score": lambda self, other, result:
            result._hit_id == self._hit_id
            and result._bitscore == max(self._bitscore, other._bitscore)
            and result._evalue == min(self._evalue, other._evalue),
    }
    ensures["well-formed-one-of-the-input-ends"] = lambda self, other, result: (
        hit_ok(result) and result._query_start == min(self._query_start, other._query_start)
        and (result._query_end == self._query_end or result._query_end == other._query_end))
    known = {"C13-F1": (merge_shrinks, ["spans-both-fragments"])}
    returns = HIT


@spec
def margin(a, b, hmm_lengths):
    return 0.20 * max(hmm_lengths[a._hit_id], hmm_lengths[b._hit_id])


@spec
def neighbours_within_margin(results, hmm_lengths, upto):
    """each of the first `upto` hits starts no earlier than a fifth of the longer of the two profiles before
    the end of the hit before it ('an overlap of 20% or less is not an overlap')"""
    return forall(range(0, upto - 1), lambda j: results[j + 1]._query_start >= results[j]._query_end - 0.20 * max(
        hmm_lengths[results[j + 1]._hit_id], hmm_lengths[results[j]._hit_id]))


@contract(f"{FILE}::_remove_overlapping", props=["C13"])
class RemoveOverlapping:
    """Any number of hits (loop cut by an invariant). Input sorted by start, as the callers pass it."""
    params = {"results": SeqOf(HIT), "hmm_lengths": DictOf(Str, Int, total=True)}

    def requires(results, hmm_lengths):
        return (len(results) >= 1 and forall(range(0, len(results)), lambda i: hit_ok(results[i]))
                and forall(range(0, len(results)), lambda i: hmm_lengths[results[i]._hit_id] > 0)
                and forall(range(0, len(results)), lambda i: forall(
                    range(0, len(results)), lambda j: implies(i <= j, results[i]._query_start <= results[j]._query_start))))

    loops = {0: Loop(
        types={"non_overlapping": SeqOf(HIT), "previous": HIT, "result": HIT, "maxoverlap": Real},
        invariant={
            "nonempty": lambda non_overlapping: len(non_overlapping) >= 1,
            "last-kept-is-an-input-seen-so-far": lambda non_overlapping, results, _i:
                exists(range(0, _i + 1), lambda m: same_hit(non_overlapping[len(non_overlapping) - 1], results[m])),
            "kept-hits-sorted-by-start": lambda non_overlapping:
                forall(range(0, len(non_overlapping) - 1),
                       lambda j: non_overlapping[j]._query_start <= non_overlapping[j + 1]._query_start),
            "every-kept-hit-is-an-input": lambda non_overlapping, results:
                forall(range(0, len(non_overlapping)),
                       lambda j: exists(range(0, len(results)), lambda m: same_hit(non_overlapping[j], results[m]))),
            "nothing-dropped-while-neighbours-stay-within-the-margin": lambda non_overlapping, results, hmm_lengths, _i:
                implies(neighbours_within_margin(results, hmm_lengths, _i + 1), len(non_overlapping) == _i + 1),
            "kept-hits-are-the-inputs-in-order-while-neighbours-stay-within-the-margin":
                lambda non_overlapping, results, hmm_lengths, _i:
                implies(neighbours_within_margin(results, hmm_lengths, _i + 1),
                        forall(range(0, _i + 1), lambda j: same_hit(non_overlapping[j], results[j]))),
        })}

    ensures = {
        "hits-overlapping-by-at-most-a-fifth-of-the-longer-profile-are-all-kept": lambda results, hmm_lengths, result:
            implies(neighbours_within_margin(results, hmm_lengths, len(results)),
                    len(result) == len(results)
                    and forall(range(0, len(results)), lambda j: same_hit(result[j], results[j]))),
        "nonempty-sorted-subset-of-input": lambda results, result:
            len(result) >= 1
            and forall(range(0, len(result) - 1), lambda j: result[j]._query_start <= result[j + 1]._query_start)
            and forall(range(0, len(result)),
                       lambda j: exists(range(0, len(results)), lambda m: same_hit(result[j], results[m]))),
    }


@spec
def same_hit(a, b):
    return (a._hit_id == b._hit_id and a._query_start == b._query_start and a._query_end == b._query_end
            and a._evalue == b._evalue and a._bitscore == b._bitscore)


@spec
def neighbours_differ(domains, upto):
    """no two adjacent hits among the first `upto` are hits of the same profile"""
    return forall(range(0, upto - 1), lambda j: domains[j + 1]._hit_id != domains[j]._hit_id)


@contract(f"{FILE}::_merge_immediate_neigbours", props=["C13"])
class MergeImmediateNeighbours:
    """Every output is an input or a merge of adjacent same-profile inputs close enough to be one domain."""
    params = {"domains": SeqOf(HIT), "hmm_lengths": DictOf(Str, Int, total=True)}

    def requires(domains, hmm_lengths):
        return len(domains) >= 1 and forall(range(0, len(domains)), lambda i: hit_ok(domains[i]))

    loops = {0: Loop(
        types={"result": SeqOf(HIT), "domain": HIT},
        invariant={
            "nonempty": lambda result: len(result) >= 1,
            "no-more-outputs-than-inputs-seen": lambda result, _i: len(result) <= _i + 1,
            "outputs-are-well-formed-hits": lambda result:
                forall(range(0, len(result)), lambda j: hit_ok(result[j])),
            "output-profiles-come-from-inputs": lambda result, domains:
                forall(range(0, len(result)), lambda j: exists(
                    range(0, len(domains)), lambda m: result[j]._hit_id == domains[m]._hit_id)),
            "nothing-merged-while-neighbours-differ-in-profile": lambda result, domains, _i:
                implies(neighbours_differ(domains, _i + 1), len(result) == _i + 1),
            "kept-as-they-are-while-neighbours-differ-in-profile": lambda result, domains, _i:
                implies(neighbours_differ(domains, _i + 1),
                        forall(range(0, _i + 1), lambda j: same_hit(result[j], domains[j]))),
        })}
    stubs = {}
    ensures = {
        "hits-of-different-profiles-are-never-merged": lambda domains, result:
            implies(neighbours_differ(domains, len(domains)),
                    len(result) == len(domains)
                    and forall(range(0, len(domains)), lambda j: same_hit(result[j], domains[j]))),
        "never-empty-never-longer": lambda domains, result: 1 <= len(result) and len(result) <= len(domains),
        "well-formed": lambda result: forall(range(0, len(result)), lambda j: hit_ok(result[j])),
    }


@contract(f"{FILE}::remove_incomplete", props=["C13"])
class RemoveIncomplete:
    params = {"domains": SeqOf(HIT), "hmm_lengths": DictOf(Str, Int, total=True),
              "threshold": Real, "fallback": Real}
    stubs = {}

    def requires(domains, hmm_lengths, threshold, fallback):
        return (forall(range(0, len(domains)), lambda i: hit_ok(domains[i]) and hmm_lengths[domains[i]._hit_id] > 0)
                and 0 < fallback and fallback <= threshold)

    loops = {
        0: Loop(types={"complete": SeqOf(HIT), "domain": HIT, "domainlength": Int},
                invariant={
                    "complete-holds-exactly-the-long-enough-hits-seen": lambda complete, domains, hmm_lengths, threshold, _i:
                        forall(range(0, len(complete)), lambda j: exists(range(0, _i), lambda m:
                               same_hit(complete[j], domains[m]) and long_enough(domains[m], hmm_lengths, threshold)))
                        and forall(range(0, _i), lambda m: implies(
                            long_enough(domains[m], hmm_lengths, threshold), len(complete) >= 1)),
                    "every-long-enough-hit-seen-is-kept": lambda complete, domains, hmm_lengths, threshold, _i:
                        forall(range(0, _i), lambda m: implies(
                            long_enough(domains[m], hmm_lengths, threshold),
                            exists(range(0, len(complete)), lambda j: same_hit(complete[j], domains[m])))),
                }),
    }
    loops[1] = Loop(types={"longest": Real, "longest_index": Int, "i": Int, "domain": HIT, "domain_length": Int,
                           "proportional_length": Real},
                    invariant={
                        "longest-index-in-range": lambda longest, longest_index, domains, _i:
                            0 <= longest_index and implies(longest > 0, longest_index < _i),
                        "longest-is-the-maximum-so-far": lambda longest, domains, hmm_lengths, _i:
                            longest >= 0 and forall(range(0, _i), lambda m: prop_len(domains[m], hmm_lengths) <= longest),
                        "longest-attained-at-index": lambda longest, longest_index, domains, hmm_lengths, _i:
                            implies(longest > 0, longest == prop_len(domains[longest_index], hmm_lengths)),
                    })
    loops[2] = Loop(types={"domain": HIT}, invariant=lambda domains: len(domains) >= 0)
    ensures = {
        "fallback-is-the-proportionally-longest": lambda domains, hmm_lengths, threshold, fallback, result:
            implies(not exists(range(0, len(domains)), lambda m: long_enough(domains[m], hmm_lengths, threshold))
                    and exists(range(0, len(domains)), lambda m: prop_len(domains[m], hmm_lengths) > fallback),
                    len(result) == 1 and prop_len(result[0], hmm_lengths) > fallback
                    and forall(range(0, len(domains)), lambda m: prop_len(domains[m], hmm_lengths)
                               <= prop_len(result[0], hmm_lengths))),
        "every-complete-hit-is-kept": lambda domains, hmm_lengths, threshold, result:
            forall(range(0, len(domains)), lambda m: implies(
                long_enough(domains[m], hmm_lengths, threshold),
                exists(range(0, len(result)), lambda j: same_hit(result[j], domains[m])))),
        "complete-hits-win": lambda domains, hmm_lengths, threshold, result:
            implies(exists(range(0, len(domains)), lambda m: long_enough(domains[m], hmm_lengths, threshold)),
                    len(result) >= 1 and forall(range(0, len(result)), lambda j: exists(
                        range(0, len(domains)), lambda m: same_hit(result[j], domains[m])
                        and long_enough(domains[m], hmm_lengths, threshold)))),
    }


@spec
def prop_len(hit, hmm_lengths):
    return (hit._query_end - hit._query_start) / hmm_lengths[hit._hit_id]


@spec
def long_enough(hit, hmm_lengths, threshold):
    return hit._query_end - hit._query_start > threshold * hmm_lengths[hit._hit_id]


# ---- saved form ---------------------------------------------------------------------------------------
INNER_SAVED = Rec("HMMResult", label="InnerHitSaved", _hit_id=Str, _query_start=Int, _query_end=Int, _evalue=Real,
                  _bitscore=Real, _internal_hits=Const([]))
HIT_SAVED = Rec("HMMResult", label="HitSaved", _hit_id=Str, _query_start=Int, _query_end=Int, _evalue=Real,
                _bitscore=Real, _internal_hits=ListOf(INNER_SAVED, 0, 1))


def _saved_form(hit):
    return hit.to_json()


@spec
def same_hit_values(a, b):
    return (a._hit_id == b._hit_id and a._query_start == b._query_start and a._query_end == b._query_end
            and a._evalue == b._evalue and a._bitscore == b._bitscore)


@contract(f"{FILE}::HMMResult.from_json", props=["C14", "C11"])
class HitJsonRoundTrip:
    """A domain hit (with at most one sub-hit, as NRPS/PKS subtypes have) rebuilt from its saved form is the same hit:
    HMMResult.from_json(hit.to_json()) has the same values and the same sub-hit."""
    variant = True     # the recursive call for the sub-hit is executed, not replaced by this contract
    params = {"hit": HIT_SAVED}
    ghost_params = ["hit"]
    derived = {"data": _saved_form}

    def requires(hit):
        # what the constructor guarantees of any hit that can have been saved
        return hit_ok(hit) and all(hit_ok(sub) and sub._query_start < hit._query_end
                                   and hit._query_start < sub._query_end for sub in hit._internal_hits)

    ensures = {
        "rebuilt-hit-equals-the-saved-one": lambda hit, result:
            same_hit_values(result, hit) and len(result._internal_hits) == len(hit._internal_hits)
            and all(same_hit_values(result._internal_hits[k], hit._internal_hits[k])
                    and len(result._internal_hits[k]._internal_hits) == 0
                    for k in range(len(hit._internal_hits))),
    }
