"""C09: protein coordinates -> nucleotide sub-locations (locations.py, feature.py)."""
# pylint: disable=no-self-argument,no-method-argument,missing-function-docstring
from pyvc.dsl import (contract, spec, Int, Bool, Opt, OneOf, Rec, ListOf, SeqOf, Const, Loop, count,
                      implies, iff, forall, exists)
from contracts.locations import (FL, CL, LOC, wf, disjoint, same_strand, bridges_spec, covers, simple,
                                 total_len, parts_equal)

FILE = "antismash/common/secmet/locations.py"
FEATURE = "antismash/common/secmet/features/feature.py"

GENE = OneOf(FL, CL(2, 4))


@spec
def transcript_order(loc):
    """Biopython part order is transcript order and the gene does not span the origin:
    ascending coordinates on the forward strand, descending on the reverse strand."""
    n = len(loc.parts)
    if loc.parts[0].strand == -1:
        return all(loc.parts[i + 1].end <= loc.parts[i].start for i in range(n - 1))
    return all(loc.parts[i].end <= loc.parts[i + 1].start for i in range(n - 1))


@spec
def cum(loc, k):
    """number of transcript bases before part k"""
    return sum(loc.parts[j].end - loc.parts[j].start for j in range(len(loc.parts)) if j < k)


@spec
def nt(loc, t):
    """genome coordinate of transcript base t (DESIGN §3 C09)"""
    n = len(loc.parts)
    rev = loc.parts[0].strand == -1
    result = -1
    for k in range(n):
        p = loc.parts[k]
        lo = cum(loc, k)
        if lo <= t and t < lo + (p.end - p.start):
            result = (p.end - 1 - (t - lo)) if rev else (p.start + (t - lo))
    return result


@spec
def gene_ok(loc):
    return wf(loc) and same_strand(loc) and disjoint(loc) and loc.parts[0].strand != 0


@contract(f"{FILE}::convert_protein_position_to_dna", props=["C09"])
class ConvertProteinPosition:
    """Genes whose parts are in transcript order without spanning the origin (<= 4 exons unrolled;
    origin-spanning genes are the known finding C09-F1)."""
    params = {"start": Int, "end": Int, "location": GENE}

    def requires(start, end, location):
        return gene_ok(location) and transcript_order(location)

    def _raises(start, end, location):
        return not (0 <= start and start < end and end <= total_len(location) // 3)

    raises = {"ValueError": _raises}

    def ensures(start, end, location, result):
        a = nt(location, 3 * start)
        b = nt(location, 3 * end - 1)
        return result[0] == min(a, b) and result[1] == max(a, b) + 1

    returns = ListOf(Int, 2, 2, as_tuple=True)


@spec
def encoded(loc, t0, t1, x):
    """genome base x encodes one of the transcript bases t0 <= t < t1 (per exon: the image of the
    clipped transcript interval is an interval again, so no quantifier over t is needed)"""
    rev = loc.parts[0].strand == -1
    found = False
    for k in range(len(loc.parts)):
        p = loc.parts[k]
        lo = cum(loc, k)
        a = max(t0, lo) - lo
        b = min(t1, lo + (p.end - p.start)) - lo
        if a < b:
            if rev:
                found = found or (p.end - b <= x and x < p.end - a)
            else:
                found = found or (p.start + a <= x and x < p.start + b)
    return found


FEAT = Rec("Feature", label="FeatureWithLocation", location=OneOf(FL, CL(2, 3)), type=Const("CDS"))


@contract(f"{FEATURE}::Feature.get_sub_location_from_protein_coordinates", props=["C09"])
class GetSubLocation:
    params = {"self": FEAT, "start": Int, "end": Int}
    budget_s = 400

    def requires(self, start, end):
        return gene_ok(self.location) and transcript_order(self.location)

    def _raises(self, start, end):
        return not (0 <= start and start < end and end <= total_len(self.location) // 3)

    raises = {"ValueError": _raises}

    ensures = {
        "covers-exactly-the-encoding-bases": lambda self, start, end, result:
            forall(range(0, max(p.end for p in self.location.parts) + 1),
                   lambda x: covers(result, x) == encoded(self.location, 3 * start, 3 * end, x)),
        "three-bases-per-residue-in-transcript-order": lambda self, start, end, result:
            total_len(result) == 3 * (end - start) and wf(result) and disjoint(result)
            and all(p.strand == self.location.parts[0].strand for p in result.parts)
            and transcript_order(result),
    }
