"""C15: ORF scanning (common/all_orfs.py)."""
# pylint: disable=no-self-argument,no-method-argument,missing-function-docstring
from pyvc.dsl import (contract, spec, Int, Bool, Real, Str, Opt, OneOf, Rec, Ref, External, ListOf, SeqOf, SetOf,
                      DictOf, TupleOf, Union, Const, Loop, Recurrence, implies, iff, forall, exists)
from contracts.locations import FL

FILE = "antismash/common/all_orfs.py"
CL2 = Rec("CompoundLocation", label="CL2", parts=ListOf(FL, 2, 2), operator=Const("join"))
ORF_LOC = Union(FL, CL2)
PIECES = TupleOf(Int, Int, Int, Int)    # (start0, end0, start1, end1); the second part is (-1, -1) when not split


@spec
def is_start(seq, i):
    return seq.upper()[i:i + 3] in ("ATG", "GTG", "TTG")


@spec
def is_stop(seq, i):
    return seq.upper()[i:i + 3] in ("TAA", "TAG", "TGA")


@spec
def codons(seq, frame):
    """number of complete codons of the frame"""
    n = len(seq.upper()) - 2 - frame
    return (n + 2) // 3 if n > 0 else 0


# -- the scanner of the property statement as an automaton over codon index k of one frame ------------
@spec
def open_start_init(seq, frame):
    return -1


@spec
def open_start_step(prev, k, seq, frame):
    """position of the first start codon since the last in-frame stop (or -1)"""
    i = frame + 3 * k
    if prev == -1 and is_start(seq, i):
        return i
    if is_stop(seq, i):
        return -1
    return prev


open_start = Recurrence("open_start", open_start_init, open_start_step, Int)


@spec
def emits(k, seq, frame, minimum_length):
    """codon k of the frame is the stop codon of a reported ORF: an open start exists and the stretch
    from that start to this stop codon inclusive has at least the minimum length"""
    s = open_start(k, seq, frame)
    i = frame + 3 * k
    return s != -1 and is_stop(seq, i) and i + 3 - s >= minimum_length


@spec
def pieces(s, i, seq_len, direction, offset, record_length):
    """record coordinates of the ORF from start codon s to stop codon i (window coordinates), split at
    the origin when it wraps; parts in the order in which extraction on that strand yields the ORF"""
    if direction == 1:
        a = s + offset
        b = i + 3 + offset
    else:
        a = seq_len + offset - i - 3
        b = seq_len + offset - s
    if record_length is None:
        return (a, b, -1, -1)
    a = (a + record_length) % record_length
    b = ((b - 1 + record_length) % record_length) + 1
    if a >= b:   # wraps over the origin (a == b: the ORF covers the whole record)
        if direction == 1:
            return (a, record_length, 0, b)
        return (0, b, a, record_length)
    return (a, b, -1, -1)


@spec
def found_init(seq, frame, direction, offset, minimum_length, record_length):
    if frame == 0:
        return []
    return found(codons(seq, frame - 1), seq, frame - 1, direction, offset, minimum_length, record_length)


@spec
def found_step(prev, k, seq, frame, direction, offset, minimum_length, record_length):
    if emits(k, seq, frame, minimum_length):
        return prev + [pieces(open_start(k, seq, frame), frame + 3 * k, len(seq.upper()), direction, offset, record_length)]
    return prev


found = Recurrence("found", found_init, found_step, SeqOf(PIECES))


@spec
def loc_pieces(loc):
    if len(loc.parts) == 1:
        return (loc.parts[0].start, loc.parts[0].end, -1, -1)
    return (loc.parts[0].start, loc.parts[0].end, loc.parts[1].start, loc.parts[1].end)


@spec
def represents(matches, ghost, direction):
    return (len(matches) == len(ghost)
            and forall(range(0, len(matches)), lambda j: loc_pieces(matches[j]) == ghost[j]
                       and all(p.strand == direction for p in matches[j].parts)))


@spec
def frames_inv(matches, seq, direction, offset, minimum_length, record_length, _f):
    """before frame _f is scanned, the list holds exactly what the frames before it produced"""
    return (0 <= _f and _f <= 3
            and represents(matches, found_init(seq, _f, direction, offset, minimum_length, record_length), direction))


@spec
def frame_inv(matches, start, seq, frame, direction, offset, minimum_length, record_length, _i):
    s = open_start(_i, seq, frame)
    return (represents(matches, found(_i, seq, frame, direction, offset, minimum_length, record_length), direction)
            and ((start is None) == (s == -1)) and implies(start is not None, start == s)
            and (s == -1 or (frame <= s and s < frame + 3 * _i)))


@spec
def some_orf_of_exactly_the_minimum_length(seq, direction, offset, minimum_length, record_length):
    """some in-frame start..stop stretch has exactly the minimum length (finding C15-F1: it is dropped)"""
    return exists(range(0, 3), lambda frame: exists(range(0, codons(seq, frame)), lambda k:
                  open_start(k, seq.upper(), frame) != -1 and is_stop(seq, frame + 3 * k)
                  and frame + 3 * k + 3 - open_start(k, seq.upper(), frame) == minimum_length))


class _ScanOrfsBase:
    """Any sequence length: the inner loop is cut by the invariant `matches represents found(k)`.
    The three frames are the three iterations of the outer loop (unrolled). One contract per
    strand x topology so that the configurations are verified in parallel."""

    def requires(seq, direction, offset, minimum_length, record_length):
        return offset >= 0 and (record_length is None or (record_length > 0 and len(seq.upper()) <= record_length))

    loops = {
        # the three frames: one symbolic frame (the outer loop is cut as well, so the inner loop is verified once)
        0: Loop(invariant=frames_inv, index="_f", iterable="_frames",
                types={"matches": SeqOf(ORF_LOC), "start": Opt(Int), "frame": Int, "i": Int, "codon": Str,
                       "end": Int, "loc_start": Int, "loc_end": Int}),
        1: Loop(invariant=frame_inv, types={"matches": SeqOf(ORF_LOC), "start": Opt(Int), "i": Int, "codon": Str,
                                            "end": Int, "loc_start": Int, "loc_end": Int}),
    }
    unroll = 3
    budget_s = 600
    prove_timeout_s = 60   # wrapped coordinates: modulus by the symbolic record length
    known = {"C15-F1": some_orf_of_exactly_the_minimum_length}
    ensures = {
        "reports-exactly-the-orfs-of-the-three-frames": lambda seq, direction, offset, minimum_length, record_length, result:
            all_found(result, found_init(seq.upper(), 3, direction, offset, minimum_length, record_length), direction),
    }


def _variant(name, direction, ring):
    attrs = {k: v for k, v in _ScanOrfsBase.__dict__.items() if not k.startswith("__")}
    attrs["__doc__"] = _ScanOrfsBase.__doc__
    attrs["__module__"] = __name__
    attrs["params"] = {"seq": Str, "direction": Const(direction), "offset": Int, "minimum_length": Int,
                       "record_length": Int if ring else Const(None)}
    attrs["variant"] = name != "ScanOrfsForwardLinear"
    if ring:
        # modulus by the symbolic record length: minutes of solver time, and luck-dependent (see prove_timeout_s)
        attrs["tiers"] = ("thorough",)

    cls = type(name, (), attrs)
    return contract(f"{FILE}::scan_orfs", props=["C15"])(cls)


ScanOrfsForwardLinear = _variant("ScanOrfsForwardLinear", 1, False)
ScanOrfsReverseLinear = _variant("ScanOrfsReverseLinear", -1, False)
ScanOrfsForwardRing = _variant("ScanOrfsForwardRing", 1, True)
ScanOrfsReverseRing = _variant("ScanOrfsReverseRing", -1, True)


@spec
def low_coordinate(loc):
    return min(min(p.start for p in loc.parts), max(p.end for p in loc.parts))


@spec
def all_found(result, ghost, direction):
    """same number of locations, and every reported location is one of the expected ones with the strand"""
    return (len(result) == len(ghost)
            and forall(range(0, len(result)), lambda j: exists(range(0, len(ghost)), lambda m:
                       loc_pieces(result[j]) == ghost[m]) and all(p.strand == direction for p in result[j].parts)))
