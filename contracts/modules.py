"""C14: NRPS/PKS module construction (detection/nrps_pks_domains/module_identification.py)."""
# pylint: disable=no-self-argument,no-method-argument,missing-function-docstring
from pyvc.dsl import (contract, spec, Int, Bool, Real, Str, Opt, OneOf, Rec, Ref, External, ListOf, SeqOf, SetOf,
                      DictOf, Const, ClassOf, Loop, implies, iff, forall, exists)

FILE = "antismash/detection/nrps_pks_domains/module_identification.py"

INNER = Rec("HMMResult", label="InnerHit", _hit_id=Str, _internal_hits=Const([]))
DOMAIN = Rec("HMMResult", label="DomainHit", _hit_id=Str, _internal_hits=Const([]))
DOMAIN_SUB = Rec("HMMResult", label="DomainHitWithSubtype", _hit_id=Str, _internal_hits=ListOf(INNER, 0, 1))
COMP = Rec("Component", label="Component", _domain=DOMAIN, classification=Str, locus=Str)
# only the subtype of the starter is ever looked at (trans-AT KS)
STARTER = Rec("Component", label="StarterComponent", _domain=DOMAIN_SUB, classification=Str, locus=Str)
MODULE = Rec("Module", label="Module", _components=ListOf(COMP, 0, 1), _starter=Opt(STARTER), _loader=Opt(COMP),
             _modifications=ListOf(COMP, 0, 1), _carrier_protein=Opt(COMP), _end=Opt(COMP),
             _others=ListOf(COMP, 0, 1), _first_in_cds=Bool, _unambiguous_accept=Const(0))


@spec
def outside_modules(component):
    """docking/COM and other domains external to modules, and the special pass-through domains"""
    return component.is_ignored() or component.is_special()


@spec
def promised_by_lookahead(lookahead):
    """the documented exception: a second carrier protein directly followed by the two named modification domains"""
    return (len(lookahead) >= 2 and lookahead[0]._domain._hit_id == "LPG_synthase_C"
            and lookahead[1]._domain._hit_id == "Beta_elim_lyase")


@spec
def same_state(a, b):
    return (len(a._components) == len(b._components) and len(a._modifications) == len(b._modifications)
            and len(a._others) == len(b._others) and (a._starter is None) == (b._starter is None)
            and (a._loader is None) == (b._loader is None) and (a._carrier_protein is None) == (b._carrier_protein is None)
            and (a._end is None) == (b._end is None) and a._unambiguous_accept == b._unambiguous_accept)


class _ModuleAddComponentBase:
    """One step of module construction: a component is accepted only where the documented layout allows it
    (module states with <= 1 entry per list; all labels symbolic, tables read from the real source)."""
    budget_s = 600

    def requires(self, component, lookahead):
        # the classification symbol is one of the keys of the real table (asserted by the code itself)
        return component.classification in ("A", "AT", "C", "S", "E", "KS", "+", "CP", "!", ".", "ignore")

    may_raise = {"IncompatibleComponentError": lambda self, component, lookahead: not component.is_ignored()}
    on_raise = {"module-left-unchanged-when-a-component-is-refused": lambda self, old: same_state(self, old.self)}
    ensures = {
        "ignored-domains-change-nothing": lambda self, component, old:
            implies(component.is_ignored(), same_state(self, old.self)),
        "appended-in-order": lambda self, component, old:
            implies(not component.is_ignored(),
                    len(self._components) == len(old.self._components) + 1
                    and self._components[len(self._components) - 1] is component),
        "nothing-after-the-terminating-domain": lambda self, component, old:
            implies(not outside_modules(component), old.self._end is None),
        "at-most-one-starter-and-it-comes-first": lambda self, component, old:
            implies(not outside_modules(component) and component.is_starter() and not component.is_loader(),
                    len(old.self._components) == 0),
        "at-most-one-loader-before-modifications-and-carrier-protein": lambda self, component, old:
            implies(not outside_modules(component) and component.is_loader(),
                    old.self._loader is None and old.self._carrier_protein is None
                    and len(old.self._modifications) == 0),
        "no-mixing-of-nrps-and-pks-starter-and-loader": lambda self, component, old:
            implies(not outside_modules(component) and component.is_loader() and old.self._starter is not None,
                    not (old.self._starter.is_pks_specific() and component.is_nrps_specific())
                    and not (old.self._starter.is_nrps_specific() and component.is_pks_specific())),
        "modifications-before-the-carrier-protein-except-trans-at-kr": lambda self, component, old:
            implies(not outside_modules(component) and component.is_modification() and not component.is_loader()
                    and not (component.is_starter() and old.self._starter is None)
                    and old.self._carrier_protein is not None,
                    old.self.is_trans_at() and component._domain._hit_id == "PKS_KR"),
        "at-most-one-carrier-protein": lambda self, component, old:
            implies(not outside_modules(component) and component.is_carrier_protein() and not component.is_loader()
                    and not component.is_modification() and not (component.is_starter() and old.self._starter is None),
                    old.self._carrier_protein is None),
    }
    ensures["a-second-carrier-protein-accepted-on-a-promised-look-ahead-books-exactly-the-two-promised-domains"] = \
        lambda self, component, lookahead, old: implies(
            not outside_modules(component) and component.is_carrier_protein() and not component.is_loader()
            and not component.is_modification() and not (component.is_starter() and old.self._starter is None)
            and old.self._carrier_protein is not None and promised_by_lookahead(lookahead),
            self._unambiguous_accept == 2 and len(self._others) == len(old.self._others) + 1)
    # C14-F2 (open): the code deliberately accepts a second carrier protein when the look-ahead shows the
    # documented pair of modification domains; outside that class the clause is proved
    known = {"C14-F2": (lambda self, component, lookahead: self._carrier_protein is not None
                        and component.is_carrier_protein() and promised_by_lookahead(lookahead),
                        ["at-most-one-carrier-protein"])}


def _module(starter, carrier, end):
    return Rec("Module", label=f"Module[{starter},{carrier},{end}]", _components=ListOf(COMP, 0, 1),
               _starter={"none": Const(None), "plain": COMP, "subtyped": Rec("Component", label="StarterSub", _domain=Rec(
                   "HMMResult", label="DomainHitSub", _hit_id=Str, _internal_hits=ListOf(INNER, 1, 1)),
                   classification=Str, locus=Str)}[starter],
               _loader=Opt(COMP), _modifications=ListOf(COMP, 0, 1),
               _carrier_protein=COMP if carrier else Const(None), _end=COMP if end else Const(None),
               _others=ListOf(COMP, 0, 1), _first_in_cds=Bool, _unambiguous_accept=Const(0))


def _variant(starter, carrier, end):
    name = f"ModuleAddComponent_{starter}_{'cp' if carrier else 'nocp'}_{'end' if end else 'noend'}"
    attrs = {k: v for k, v in _ModuleAddComponentBase.__dict__.items() if not k.startswith("__")}
    attrs["__doc__"] = _ModuleAddComponentBase.__doc__
    attrs["__module__"] = __name__
    attrs["params"] = {"self": _module(starter, carrier, end), "component": COMP,
                       # no look-ahead, exactly the promised pair, or more domains following it (a module reloaded
                       # from its saved form is rebuilt with the whole remainder as look-ahead)
                       "lookahead": OneOf(ListOf(COMP, 0, 0), ListOf(COMP, 2, 2), ListOf(COMP, 3, 3))}
    attrs["variant"] = not (starter == "none" and not carrier and not end)
    return contract(f"{FILE}::Module.add_component", props=["C14"])(type(name, (), attrs))


for _s in ("none", "plain", "subtyped"):
    for _c in (False, True):
        for _e in (False, True):
            _variant(_s, _c, _e)


@contract(f"{FILE}::Module.is_complete", props=["C14"])
class ModuleIsComplete:
    """A module is reported complete only with starter, loader and carrier protein, or as a trans-AT module
    (ketosynthase starter, no loader) with a carrier protein. Starter and loader are distinct components here
    (a single component serving as both - the loader-only first module - is covered by the bounded part only)."""
    params = {"self": Rec("Module", label="ModuleAnyState", _components=ListOf(COMP, 0, 2),
                          _starter=Opt(STARTER), _loader=Opt(COMP), _modifications=ListOf(COMP, 0, 1),
                          _carrier_protein=Opt(COMP), _end=Opt(COMP), _others=ListOf(COMP, 0, 2),
                          _first_in_cds=Bool, _unambiguous_accept=Const(0))}
    ensures = {
        "complete-only-with-the-vital-parts": lambda self, result:
            implies(result, self._carrier_protein is not None
                    and ((self._starter is not None and self._loader is not None)
                         or (self._starter is not None and self._loader is None
                             and self._starter._domain._hit_id == "PKS_KS"))),
        "the-three-vital-parts-suffice": lambda self, result:
            implies(self._starter is not None and self._loader is not None and self._carrier_protein is not None
                    and not (self._starter is self._loader and not self._first_in_cds), result),
    }
    returns = Bool


@contract(f"{FILE}::Module.add_component", props=["C14"])
class ModuleAddToEmptyNeverFails:
    """'module construction never fails': build_modules_for_cds answers a refused component by opening a new,
    empty module and adding the component there with an empty look-ahead - that call accepts every component."""
    variant = True
    params = {"self": Rec("Module", label="EmptyModule", _components=Const([]), _starter=Const(None), _loader=Const(None),
                          _modifications=Const([]), _carrier_protein=Const(None), _end=Const(None), _others=Const([]),
                          _first_in_cds=Bool, _unambiguous_accept=Const(0)),
              "component": COMP, "lookahead": ListOf(COMP, 0, 0)}

    def requires(self, component, lookahead):
        return component.classification in ("A", "AT", "C", "S", "E", "KS", "+", "CP", "!", ".", "ignore")

    ensures = {
        "accepted-unless-ignored": lambda self, component:
            len(self._components) == (0 if component.is_ignored() else 1),
    }


@contract(f"{FILE}::classify", props=["C14"])
class Classify:
    """Every profile name of the tables has exactly one classification (the tables are pairwise disjoint), and a
    name in none of them is refused."""
    params = {"profile_name": Str}
    raises = {"ValueError": lambda profile_name: not any(profile_name in names for names in CLASSIFICATIONS.values())}
    ensures = {
        "the-one-table-holding-the-name": lambda profile_name, result:
            all((profile_name in names) == (key == result) for key, names in CLASSIFICATIONS.items()),
    }
    returns = Str


def _saved_component(component):
    return component.to_json()


@contract(f"{FILE}::Component.from_json", props=["C14", "C11"])
class ComponentJsonRoundTrip:
    """A component rebuilt from its saved form is the same component: same domain hit (and sub-hit), same gene,
    same classification."""
    params = {"component": Rec("Component", label="ComponentSaved",
                               _domain=Rec("HMMResult", label="DomainSaved", _hit_id=Str, _query_start=Int, _query_end=Int,
                                           _evalue=Real, _bitscore=Real,
                                           _internal_hits=ListOf(Rec("HMMResult", label="SubtypeSaved", _hit_id=Str,
                                                                     _query_start=Int, _query_end=Int, _evalue=Real,
                                                                     _bitscore=Real, _internal_hits=Const([])), 0, 1)),
                               classification=Str, locus=Str),
              "cls": ClassOf("Component")}
    ghost_params = ["component"]
    derived = {"data": _saved_component}

    def requires(component):
        domain = component._domain
        return (0 <= domain._query_start and domain._query_start < domain._query_end and component.locus != ""
                and all(0 <= sub._query_start and sub._query_start < sub._query_end
                        and sub._query_start < domain._query_end and domain._query_start < sub._query_end
                        for sub in domain._internal_hits)
                # a component that exists was classified when it was built
                and any(domain._hit_id in names for names in CLASSIFICATIONS.values())
                and all((domain._hit_id in names) == (key == component.classification)
                        for key, names in CLASSIFICATIONS.items()))

    ensures = {
        "rebuilt-component-equals-the-saved-one": lambda component, result:
            result.locus == component.locus and result.classification == component.classification
            and result._domain._hit_id == component._domain._hit_id
            and result._domain._query_start == component._domain._query_start
            and result._domain._query_end == component._domain._query_end
            and result._domain._evalue == component._domain._evalue
            and result._domain._bitscore == component._domain._bitscore
            and len(result._domain._internal_hits) == len(component._domain._internal_hits)
            and all(result._domain._internal_hits[k]._hit_id == component._domain._internal_hits[k]._hit_id
                    for k in range(len(component._domain._internal_hits))),
    }
