"""C03: which protoclusters are dropped in favour of their rule's superiors (hmm_rule_parser/cluster_prediction.py)."""
# pylint: disable=no-self-argument,no-method-argument,missing-function-docstring
from pyvc.dsl import (contract, spec, Int, Bool, Real, Str, Opt, OneOf, Rec, Ref, External, ListOf, SeqOf, SetOf,
                      DictOf, Const, Loop, implies, iff, forall, exists)
from contracts.locations import FL, wf, contains_spec

FILE = "antismash/common/hmm_rule_parser/cluster_prediction.py"

GENE = Ref("CDSFeature")
INFERIOR = Rec("Protocluster", label="InferiorProtocluster", _core_location=FL, product=Const("minor"))
OTHER = Rec("Protocluster", label="SuperiorProtocluster", _core_location=FL,
            product=OneOf(Const("alpha"), Const("beta")))
SUPERIOR_NAME = OneOf(Const("alpha"), Const("beta"))


def _clusters(inferior, others, position):
    # the inferior protocluster before, between or after the others
    if position <= 0 or not others:
        return [inferior] + others
    if position == 1:
        return others[:1] + [inferior] + others[1:]
    return others + [inferior]


def _rules(listed):
    return {"minor": RuleWithSuperiors(listed), "alpha": RuleWithSuperiors([]), "beta": RuleWithSuperiors([])}


@spec
def covered_by_a_listed_superior(inferior, others, listed):
    return any(other.product in listed and contains_spec(other._core_location, inferior._core_location)
               for other in others)


@contract(f"{FILE}::remove_redundant_protoclusters", props=["C03", "C07"])
class RemoveRedundantProtoclusters:
    """A protocluster whose core lies inside the core of a protocluster of ANY of its rule's superiors is dropped -
    whichever position that superior has in the list and whether or not the superiors listed before it found
    anything; a protocluster none of whose superiors found anything is kept; protoclusters of rules without
    superiors are always kept, in order. (One inferior protocluster, up to two protoclusters of two other rules,
    up to two listed superiors.)"""
    params = {"inferior": INFERIOR, "others": ListOf(OTHER, 0, 2), "position": OneOf(Const(0), Const(2)),
              "listed": ListOf(SUPERIOR_NAME, 0, 2), "record": Ref("Record")}
    ghost_params = ["inferior", "others", "position", "listed"]
    derived = {"clusters": _clusters, "rules_by_name": _rules}
    stubs = {
        # the genes of a core, as the record reports them: external (the lookup itself is the subject of C08)
        "Record.get_cds_features_within_location": External(returns=ListOf(GENE, 1, 1)),
        "CDSFeature.__lt__": External(returns=Bool),
    }

    def requires(inferior, others, position):
        return wf(inferior._core_location) and all(wf(o._core_location) for o in others) and 0 <= position and position <= 2

    ensures = {
        "covered-by-any-listed-superior-is-dropped": lambda inferior, others, listed, result:
            implies(covered_by_a_listed_superior(inferior, others, listed), not any(c is inferior for c in result)),
        "kept-when-no-listed-superior-found-anything": lambda inferior, others, listed, result:
            implies(not any(other.product in listed for other in others), any(c is inferior for c in result)),
        "protoclusters-of-rules-without-superiors-are-kept-in-order": lambda others, result:
            all(any(c is other for c in result) for other in others)
            and len(result) <= len(others) + 1,
    }
