"""C20: a failed conversion never damages the existing results file (serialiser.py, main.py).

Ghost file-system effect trace (DESIGN §2.3): `effects` is the list of (op, path) appended by
open(..., "w"), handle.write, os.remove, os.mkdir. Conversions are external callees that may raise
and have no effect (assumed contracts, listed in the evidence)."""
# pylint: disable=no-self-argument,no-method-argument,missing-function-docstring
from pyvc.dsl import (contract, spec, Int, Bool, Str, Opt, OneOf, Rec, Ref, External, ListOf, SeqOf, DictOf,
                      Const, Loop, implies, iff, forall, exists)

FILE = "antismash/common/serialiser.py"

JSONISH = Ref("Json", abstract=True)
MODULE_RESULTS = Ref("ModuleResultsOrOther", maybe=["ModuleResults"])
RECORD = Ref("Record", original_id=Opt(Str))
IO = Ref("IO")

CONVERSION_ERRORS = ["TypeError", "Exception"]


@spec
def no_effects(effects):
    return len(effects) == 0


@contract(f"{FILE}::dump_records", props=["C20"])
class DumpRecords:
    """Any number of records and modules (loops cut by the frame invariant `no effect so far`)."""
    params = {
        "results": SeqOf(DictOf(Str, Opt(MODULE_RESULTS))),
        "secmet_records": SeqOf(RECORD),
        "handle": OneOf(Str, Const(None), IO),
    }
    stubs = {
        "Record.to_biopython": External(returns=Ref("SeqRecord"), raises=CONVERSION_ERRORS),
        "Record.get_gc_content": External(returns=Int, raises=CONVERSION_ERRORS),
        "record_to_json": External(returns=Const({}), raises=CONVERSION_ERRORS),
        "gather_record_areas": External(returns=Const([]), raises=CONVERSION_ERRORS),
        "ModuleResultsOrOther.to_json": External(returns=Const({}), raises=CONVERSION_ERRORS),
        "dumps": External(returns=Str, raises=["TypeError"]),
        "dump": External(raises=["TypeError"], effect="write"),
        "IO.write": External(effect="write"),
    }

    def requires(results, secmet_records, handle):
        return len(results) >= len(secmet_records)

    def _may_raise(results, secmet_records, handle):
        return True

    may_raise = {"Exception": _may_raise}
    on_raise = {"existing-file-untouched": no_effects}
    loops = {
        0: Loop(invariant=no_effects, types={"data": SeqOf(JSONISH), "json_record": Const({}),
                                             "modules": DictOf(Str, JSONISH), "record": Ref("SeqRecord"),
                                             "result": DictOf(Str, Opt(MODULE_RESULTS)), "secmet": RECORD,
                                             "i": Int, "module": Str, "m_results": Opt(MODULE_RESULTS)}),
        1: Loop(invariant=no_effects, types={"modules": DictOf(Str, JSONISH), "module": Str,
                                             "m_results": Opt(MODULE_RESULTS)}),
    }

    ensures = {
        "writes-only-after-all-conversions": lambda handle, effects:
            (len(effects) == 0 if handle is None else
             (len(effects) == 2 and effects[0][0] == "open-write" and effects[1][0] == "write"
              if isinstance(handle, str) else len(effects) == 1 and effects[0][0] == "write")),
    }


RESULTS = Ref("AntismashResults")


@contract(f"{FILE}::AntismashResults.write_to_file", props=["C20"])
class WriteToFile:
    params = {"self": RESULTS, "handle": OneOf(Str, IO)}
    stubs = {
        "AntismashResults.to_json": External(returns=Const({}), raises=CONVERSION_ERRORS),
        "dumps": External(returns=Str, raises=["TypeError"]),
        "dump": External(raises=["TypeError"], effect="write"),
        "IO.write": External(effect="write"),
    }

    def _may_raise(self, handle):
        return True

    may_raise = {"Exception": _may_raise}
    on_raise = {"existing-file-untouched": no_effects}
    ensures = {
        "file-opened-only-after-conversion": lambda handle, effects:
            (len(effects) == 2 and effects[0][0] == "open-write" and effects[1][0] == "write"
             if isinstance(handle, str) else len(effects) == 1 and effects[0][0] == "write"),
    }


MAIN = "antismash/main.py"


@spec
def only_removes_region_genbanks(effects):
    return all(e[0] == "remove" for e in effects)


@contract(f"{MAIN}::prepare_output_directory", props=["C20"])
class PrepareOutputDirectory:
    """Refusal (AntismashInputError) precedes every remove/mkdir; observations of the file system
    (exists/isdir/glob) are uninterpreted."""
    params = {"name": Str, "input_file": Str}
    unroll = 2
    stubs = {
        "canonical_base_filename": External(returns=Str),
        "get_config": External(returns=Ref("Config", logfile=Str)),
        "update_config": External(),
        "os.path.basename": External(returns=Str),
        "os.path.abspath": External(returns=Str),
        "os.path.exists": External(returns=Bool),
        "os.path.isdir": External(returns=Bool),
        "os.path.join": External(returns=Str),
        "glob.glob": External(returns=ListOf(Str, 0, 2)),
        "os.listdir": External(returns=ListOf(Str, 0, 2)),
    }

    def _may_raise(name, input_file):
        return True

    may_raise = {"AntismashInputError": _may_raise}
    on_raise = {"directory-untouched-on-refusal": no_effects}
    ensures = {
        "only-region-genbanks-removed-or-dir-created": lambda effects:
            all(e[0] == "remove" for e in effects) or (len(effects) == 1 and effects[0][0] == "mkdir"),
    }
