"""Contracts for antismash/common/secmet/locations.py (C04; used by C01, C03, C07, C09, C12)."""
# pylint: disable=no-self-argument,no-method-argument,missing-function-docstring
from pyvc.dsl import (contract, spec, Int, Bool, Opt, OneOf, Rec, ListOf, SeqOf, Const, Loop,
                      implies, iff, forall, exists)

FILE = "antismash/common/secmet/locations.py"

# a simple location of the real class; strand in {1, -1, 0} (None is handled where it matters)
FL = Rec("FeatureLocation", label="FL", start=Int, end=Int, strand=Int)


def CL(lo, hi):
    """A compound location with lo..hi parts (each length is a separate configuration)."""
    return Rec("CompoundLocation", label=f"CL[{lo}..{hi}]", parts=ListOf(FL, lo, hi), operator=Const("join"))


LOC = OneOf(FL, CL(2, 3))


# ---- spec functions (set-of-bases model, DESIGN §3 C04) ----------------------------------------
@spec
def part_ok(p):
    return 0 <= p.start and p.start < p.end and (p.strand == 1 or p.strand == -1 or p.strand == 0)


@spec
def wf(loc):
    """parts non-empty, non-negative"""
    return all(part_ok(p) for p in loc.parts)


@spec
def share(a, b):
    return a.start < b.end and b.start < a.end


@spec
def share_bases(first, second):
    return any(share(p, q) for p in first.parts for q in second.parts)


@spec
def inside(inner, outer):
    return outer.start <= inner.start and inner.end <= outer.end


@spec
def contains_spec(outer, inner):
    return all(any(inside(i, o) for o in outer.parts) for i in inner.parts)


@spec
def d_line(a, b):
    if share(a, b):
        return 0
    if a.end <= b.start:
        return b.start - a.end
    return a.start - b.end


@spec
def d_ring(a, b, wrap):
    if share(a, b):
        return 0
    lin = d_line(a, b)
    rnd = wrap - max(a.end, b.end) + min(a.start, b.start)
    return min(lin, rnd)


# ---- contracts -------------------------------------------------------------------------------------
@contract(f"{FILE}::locations_overlap", props=["C04", "C01", "C03", "C06", "C08"])
class LocationsOverlap:
    params = {"first": LOC, "second": LOC}

    def requires(first, second):
        return wf(first) and wf(second)

    def ensures(first, second, result):
        return result == share_bases(first, second)

    functional = share_bases
    returns = Bool


@contract(f"{FILE}::location_contains_other", props=["C04", "C08", "C05"])
class LocationContainsOther:
    params = {"outer": LOC, "inner": LOC}

    def requires(outer, inner):
        return wf(outer) and wf(inner)

    def ensures(outer, inner, result):
        return result == contains_spec(outer, inner)

    functional = contains_spec
    returns = Bool


@contract(f"{FILE}::get_distance_between_locations", props=["C04", "C01", "C03", "C07"])
class DistanceSimple:
    """Simple (single-part) locations; multi-part arguments are the known finding C04-F2."""
    params = {"first": FL, "second": FL, "wrap_point": Opt(Int)}

    def requires(first, second, wrap_point):
        return wf(first) and wf(second) and (wrap_point is None or (
            wrap_point > 0 and first.end <= wrap_point and second.end <= wrap_point))

    def ensures(first, second, wrap_point, result):
        if wrap_point is None:
            return result == d_line(first, second)
        return result == d_ring(first, second, wrap_point)

    returns = Int
