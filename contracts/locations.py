"""Contracts for antismash/common/secmet/locations.py (C04; used by C01, C03, C07, C09, C12)."""
# pylint: disable=no-self-argument,no-method-argument,missing-function-docstring
from pyvc.dsl import (contract, spec, Int, Bool, Opt, OneOf, Rec, ListOf, SeqOf, Const, Loop, count,
                      implies, iff, forall, exists)

FILE = "antismash/common/secmet/locations.py"

# a simple location of the real class; strand in {1, -1, 0} (None is handled where it matters)
FL = Rec("FeatureLocation", label="FL", start=Int, end=Int, strand=Int)


def CL(lo, hi):
    """A compound location with lo..hi parts (each length is a separate configuration)."""
    return Rec("CompoundLocation", label=f"CL[{lo}..{hi}]", parts=ListOf(FL, lo, hi), operator=Const("join"))


LOC = OneOf(FL, CL(2, 3))


# ---- spec functions (set-of-bases model, DESIGN §3 C04) ----------------------------------------
@spec
def part_ok(p):
    return 0 <= p.start and p.start < p.end and (p.strand == 1 or p.strand == -1 or p.strand == 0)


@spec
def wf(loc):
    """parts non-empty, non-negative"""
    return all(part_ok(p) for p in loc.parts)


@spec
def nonempty_parts(loc):
    """parts non-empty (coordinates may be negative: temporaries of extend_location)"""
    return all(p.start < p.end for p in loc.parts)


@spec
def share(a, b):
    return a.start < b.end and b.start < a.end


@spec
def disjoint(loc):
    """no two parts share a base"""
    n = len(loc.parts)
    return all(not share(loc.parts[i], loc.parts[j]) for i in range(n) for j in range(n) if i < j)


@spec
def share_bases(first, second):
    return any(share(p, q) for p in first.parts for q in second.parts)


@spec
def inside(inner, outer):
    return outer.start <= inner.start and inner.end <= outer.end


@spec
def contains_spec(outer, inner):
    return all(any(inside(i, o) for o in outer.parts) for i in inner.parts)


@spec
def d_line(a, b):
    if share(a, b):
        return 0
    if a.end <= b.start:
        return b.start - a.end
    return a.start - b.end


@spec
def d_ring(a, b, wrap):
    if share(a, b):
        return 0
    lin = d_line(a, b)
    rnd = wrap - max(a.end, b.end) + min(a.start, b.start)
    return min(lin, rnd)


# ---- contracts -------------------------------------------------------------------------------------
@spec
def raw_pair_overlap(a, b):
    """what the function computes for two single parts (also for empty or negative temporaries)"""
    return ((b.start <= a.start and a.start < b.end) or (b.start <= a.end - 1 and a.end - 1 < b.end)
            or (a.start <= b.start and b.start < a.end) or (a.start <= b.end - 1 and b.end - 1 < a.end))


@spec
def raw_overlap(first, second):
    return any(raw_pair_overlap(p, q) for p in first.parts for q in second.parts)


@contract(f"{FILE}::locations_overlap", props=["C04", "C01", "C03", "C06", "C08"])
class LocationsOverlap:
    """total contract (callers pass temporaries with negative or empty parts); for locations with non-empty parts the
    result is exactly 'the two locations share a base'"""
    params = {"first": LOC, "second": LOC}

    ensures = {
        "membership-tests-of-the-ends": lambda first, second, result: result == raw_overlap(first, second),
        "iff-they-share-a-base": lambda first, second, result:
            implies(nonempty_parts(first) and nonempty_parts(second), result == share_bases(first, second)),
    }
    functional = raw_overlap
    returns = Bool


@contract(f"{FILE}::location_contains_other", props=["C04", "C08", "C05"])
class LocationContainsOther:
    params = {"outer": LOC, "inner": LOC}

    def requires(outer, inner):
        return wf(outer) and wf(inner)

    def ensures(outer, inner, result):
        return result == contains_spec(outer, inner)

    functional = contains_spec
    returns = Bool


@contract(f"{FILE}::get_distance_between_locations", props=["C04", "C01", "C03", "C07"])
class DistanceSimple:
    """Simple (single-part) locations; multi-part arguments are the known finding C04-F2."""
    params = {"first": FL, "second": FL, "wrap_point": Opt(Int)}

    def requires(first, second, wrap_point):
        return wf(first) and wf(second) and (wrap_point is None or (
            wrap_point > 0 and first.end <= wrap_point and second.end <= wrap_point))

    def ensures(first, second, wrap_point, result):
        if wrap_point is None:
            return result == d_line(first, second)
        return result == d_ring(first, second, wrap_point)

    returns = Int


# ---- origin bridging ---------------------------------------------------------------------------------
@spec
def same_strand(loc):
    return all(p.strand == loc.parts[0].strand for p in loc.parts)


@spec
def descends_somewhere(loc):
    """some adjacent pair of parts has a decreasing start"""
    return any(loc.parts[i].start > loc.parts[i + 1].start for i in range(len(loc.parts) - 1))


@spec
def ascends_somewhere(loc):
    return any(loc.parts[i].start < loc.parts[i + 1].start for i in range(len(loc.parts) - 1))


@spec
def bridges_spec(loc):
    """part starts are not monotone in the direction the strand demands (forward when unstranded)"""
    if len(loc.parts) < 2:
        return False
    if same_strand(loc) and loc.parts[0].strand == -1:
        return ascends_somewhere(loc)
    return descends_somewhere(loc)


@contract(f"{FILE}::location_bridges_origin", props=["C04", "C03", "C08", "C09"])
class LocationBridgesOrigin:
    params = {"location": LOC}

    def requires(location):
        return wf(location)

    def ensures(location, result):
        return result == bridges_spec(location)

    functional = bridges_spec
    returns = Bool


@spec
def first_break(loc):
    """index of the first part that does not continue the strand's direction"""
    if len(loc.parts) == 2:
        return 1
    if loc.parts[0].strand == -1:
        return 1 if not loc.parts[1].start < loc.parts[0].start else 2
    return 1 if not loc.parts[1].start > loc.parts[0].start else 2


@spec
def monotone(parts, strand):
    if strand == -1:
        return all(parts[i].start >= parts[i + 1].start for i in range(len(parts) - 1))
    return all(parts[i].start <= parts[i + 1].start for i in range(len(parts) - 1))


@spec
def hull_start(parts):
    return min(p.start for p in parts)


@spec
def hull_end(parts):
    return max(p.end for p in parts)


@contract(f"{FILE}::split_origin_bridging_location", props=["C04", "C03", "C08"])
class SplitOriginBridging:
    """Compound locations of one strand whose parts bridge the origin exactly once."""
    params = {"location": CL(2, 3)}
    modules = ["antismash/common/secmet/locations.py"]

    def requires(location):
        return wf(location) and same_strand(location) and bridges_spec(location)

    def _raises_value_error(location):
        return not split_valid(location)

    raises = {"ValueError": _raises_value_error}

    def ensures(location, result):
        k = first_break(location)
        head = location.parts[:k]
        tail = location.parts[k:]
        lower = result[0]
        upper = result[1]
        if location.parts[0].strand == -1:
            return parts_equal(lower, head) and parts_equal(upper, tail)
        return parts_equal(upper, head) and parts_equal(lower, tail)

    returns = ListOf(ListOf(FL, 1, 2), 2, 2, as_tuple=True)


@spec
def parts_equal(xs, ys):
    return len(xs) == len(ys) and all(
        xs[i].start == ys[i].start and xs[i].end == ys[i].end and xs[i].strand == ys[i].strand
        for i in range(min(len(xs), len(ys))))


@spec
def split_valid(location):
    """the two sections cover disjoint hull spans and each is ordered for the strand"""
    k = first_break(location)
    head = location.parts[:k]
    tail = location.parts[k:]
    strand = location.parts[0].strand
    disjoint = not (hull_start(head) < hull_end(tail) and hull_start(tail) < hull_end(head))
    return disjoint and monotone(head, strand) and monotone(tail, strand)


# ---- connect (linear), reduce, forwards, exons ---------------------------------------------------------
@spec
def covers(loc, x):
    """base x belongs to the location"""
    return any(p.start <= x and x < p.end for p in loc.parts)


@spec
def loc_min(loc):
    return min(p.start for p in loc.parts)


@spec
def loc_max(loc):
    return max(p.end for p in loc.parts)


@spec
def simple(loc):
    return len(loc.parts) == 1


LOCS = ListOf(LOC, 1, 2)


@contract(f"{FILE}::connect_locations", props=["C04", "C05", "C06"])
class ConnectLinear:
    """wrap_point=None: the exact hull on a line; raises iff an input bridges the origin."""
    name = "ConnectLinear"
    params = {"locations": LOCS, "wrap_point": Const(None)}

    def requires(locations):
        return all(wf(loc) and (simple(loc) or same_strand(loc)) for loc in locations)

    def _raises(locations):
        return any(bridges_spec(loc) for loc in locations)

    raises = {"ValueError": _raises}

    def ensures(locations, result):
        lo = min(loc_min(loc) for loc in locations)
        hi = max(loc_max(loc) for loc in locations)
        s0 = locations[0].parts[0].strand
        same = all(loc.parts[0].strand == s0 for loc in locations)
        return (simple(result) and result.start == lo and result.end == hi
                and implies(same, result.strand == s0) and implies(not same, result.strand is None))

    returns = Rec("FeatureLocation", label="FLoptstrand", start=Int, end=Int, strand=Opt(Int))


@contract(f"{FILE}::make_forwards", props=["C04"])
class MakeForwards:
    params = {"location": LOC}

    def requires(location):
        return wf(location) and same_strand(location)

    def ensures(location, result):
        n = len(location.parts)
        rev = location.parts[0].strand == -1
        return (len(result.parts) == n
                and all(result.parts[i].strand == 1 for i in range(n))
                and all(result.parts[i].start == location.parts[n - 1 - i if rev else i].start
                        and result.parts[i].end == location.parts[n - 1 - i if rev else i].end for i in range(n)))


@contract(f"{FILE}::location_contains_overlapping_exons", props=["C04"])
class OverlappingExons:
    params = {"location": LOC}

    def requires(location):
        return wf(location)

    def ensures(location, result):
        n = len(location.parts)
        return result == any(location.parts[i].end == location.parts[j].end
                             for i in range(n) for j in range(n) if i < j)

    returns = Bool


@contract(f"{FILE}::remove_redundant_exons", props=["C04"])
class RemoveRedundantExons:
    params = {"location": LOC}

    def requires(location):
        n = len(location.parts)
        return wf(location) and all(not parts_equal([location.parts[i]], [location.parts[j]])
                                    for i in range(n) for j in range(n) if i < j)

    def ensures(location, result):
        # same bases; no kept part lies inside another kept part; kept parts are input parts in order
        n = len(result.parts)
        return (forall(range(0, loc_max(location) + 1), lambda x: covers(result, x) == covers(location, x))
                and all(not inside(result.parts[i], result.parts[j]) for i in range(n) for j in range(n) if i != j)
                and all(any(parts_equal([r], [p]) for p in location.parts) for r in result.parts))


@contract(f"{FILE}::build_location_from_others", props=["C04"])
class BuildLocationFromOthers:
    """simple inputs: concatenation merging exactly the touching boundaries"""
    params = {"locations": ListOf(FL, 1, 3)}

    def requires(locations):
        # call sites pass consecutive, ascending, non-overlapping pieces
        return (all(wf(loc) for loc in locations)
                and all(locations[i].end <= locations[i + 1].start for i in range(len(locations) - 1)))

    def ensures(locations, result):
        touching = count(range(len(locations) - 1), lambda i: locations[i + 1].start == locations[i].end)
        return (len(result.parts) == len(locations) - touching
                and result.parts[0].start == locations[0].start
                and result.parts[len(result.parts) - 1].end == locations[len(locations) - 1].end
                and forall(range(0, max(loc.end for loc in locations) + 1),
                           lambda x: covers(result, x) == any(covers(loc, x) for loc in locations)))


# ---- frameshift ------------------------------------------------------------------------------------------
@contract(f"{FILE}::_adjust_location_by_offset", props=["C04", "C09", "C10"])
class AdjustLocationByOffset:
    params = {"location": LOC, "offset": Int}

    def requires(location, offset):
        return (wf(location) and same_strand(location) and -2 <= offset and offset <= 2
                and (simple(location) or not bridges_spec(location)) and disjoint(location)
                and all(p.end - p.start > 2 for p in location.parts))

    def ensures(location, offset, result):
        n = len(location.parts)
        rev = location.parts[0].strand == -1
        first = result.parts[0]
        orig = location.parts[0]
        return (len(result.parts) == n
                and all(parts_equal([result.parts[i]], [location.parts[i]]) for i in range(1, n))
                and first.strand == orig.strand
                and (first.start == orig.start and first.end == orig.end + offset if rev
                     else first.start == orig.start + offset and first.end == orig.end))

    returns = LOC


# ---- offset ------------------------------------------------------------------------------------------------
@spec
def rot(x, offset, wrap):
    """(x + offset) mod wrap for -wrap < offset < wrap and 0 <= x < wrap, without nonlinear terms"""
    y = x + offset
    if y >= wrap:
        return y - wrap
    if y < 0:
        return y + wrap
    return y


@spec
def total_len(loc):
    return sum(p.end - p.start for p in loc.parts)


@spec
def within(loc, limit):
    return all(0 <= p.start and p.start < p.end and p.end <= limit for p in loc.parts)


@spec
def lands_on_wrap(location, offset, wrap_point):
    """some shifted part ends exactly on (a multiple of) the wrap point"""
    return any(p.end + offset == 0 or p.end + offset == wrap_point for p in location.parts)


@contract(f"{FILE}::offset_location", props=["C04", "C12"])
class OffsetLocationRing:
    params = {"location": FL, "offset": Int, "wrap_point": Int}

    def requires(location, offset, wrap_point):
        return (wrap_point > 0 and within(location, wrap_point) and disjoint(location) and same_strand(location)
                and -wrap_point < offset and offset < wrap_point)

    ensures = {
        "same-bases-rotated": lambda location, offset, wrap_point, result:
            forall(range(0, wrap_point), lambda x: covers(result, rot(x, offset, wrap_point)) == covers(location, x)),
        "parts-inside-the-record-and-strand-kept": lambda location, offset, wrap_point, result:
            within(result, wrap_point) and all(p.strand == location.parts[0].strand for p in result.parts),
        "parts-disjoint": lambda location, offset, wrap_point, result: disjoint(result),
        "length-kept": lambda location, offset, wrap_point, result: total_len(result) == total_len(location),
    }
    known = {"C04-F1": lands_on_wrap}


@contract(f"{FILE}::offset_location", props=["C04", "C12"])
class OffsetLocationLine:
    variant = True
    params = {"location": OneOf(FL, CL(2, 3)), "offset": Int, "wrap_point": Const(None)}

    def requires(location, offset):
        return wf(location) and all(p.start + offset >= 0 for p in location.parts)

    def ensures(location, offset, result):
        n = len(location.parts)
        return (len(result.parts) == n and all(
            result.parts[i].start == location.parts[i].start + offset
            and result.parts[i].end == location.parts[i].end + offset
            and result.parts[i].strand == location.parts[i].strand for i in range(n)))


@contract(f"{FILE}::offset_location", props=["C04", "C12"])
class OffsetLocationRingTwoParts:
    """the same contract for two-part (multi-exon or origin-spanning) locations"""
    variant = True
    params = {"location": CL(2, 2), "offset": Int, "wrap_point": Int}
    requires = OffsetLocationRing.__dict__["requires"]
    ensures = OffsetLocationRing.__dict__["ensures"]
    known = OffsetLocationRing.__dict__["known"]


@contract(f"{FILE}::offset_location", props=["C04", "C12"])
class OffsetLocationRingThreeParts:
    """the same contract for three-part locations (e.g. a three-exon gene over the origin whose exons touch: the
    pieces are merged in a chain)"""
    variant = True
    tiers = ("thorough",)    # several minutes of solver time (three parts, each possibly split at the wrap point)
    budget_s = 1800
    params = {"location": CL(3, 3), "offset": Int, "wrap_point": Int}
    requires = OffsetLocationRing.__dict__["requires"]
    ensures = OffsetLocationRing.__dict__["ensures"]
    known = OffsetLocationRing.__dict__["known"]


# ---- distance between multi-part locations; reduction of parts --------------------------------------------
@spec
def d_parts(first, second, wrap_point):
    """set-of-bases distance: the closest pair of parts (ring distance when a wrap point is given)"""
    if share_bases(first, second):
        return 0
    if wrap_point is None:
        return min(d_line(p, q) for p in first.parts for q in second.parts)
    return min(d_ring(p, q, wrap_point) for p in first.parts for q in second.parts)


@contract(f"{FILE}::get_distance_between_locations", props=["C04", "C01", "C03", "C07"])
class DistanceMultiPart:
    """multi-exon / origin-spanning operands (2 parts each at most): the distance between the closest parts"""
    variant = True
    params = {"first": OneOf(FL, CL(2, 2)), "second": CL(2, 2), "wrap_point": Opt(Int)}

    def requires(first, second, wrap_point):
        return wf(first) and wf(second) and (wrap_point is None or (
            wrap_point > 0 and within(first, wrap_point) and within(second, wrap_point)))

    def ensures(first, second, wrap_point, result):
        return result == d_parts(first, second, wrap_point) and result >= 0

    returns = Int


@contract(f"{FILE}::_reduce_parts_to_location", props=["C04", "C05", "C06", "C03", "C07"])
class ReducePartsToLocation:
    """parts of one location (<= 3) reduced to a span: the hull, or for an origin-bridging location the two-part
    span [min start of the pre-origin parts, wrap) + [0, max end of the post-origin parts)"""
    params = {"parts": ListOf(FL, 1, 3), "wrap_point": Opt(Int)}

    def requires(parts, wrap_point):
        return (all(part_ok(p) for p in parts) and all(p.strand == parts[0].strand for p in parts)
                and (wrap_point is None or (wrap_point > 0 and all(p.end <= wrap_point for p in parts)))
                and implies(len(parts) > 1 and bridges_parts(parts), split_valid_parts(parts)))

    def _raises(parts, wrap_point):
        return len(parts) > 1 and bridges_parts(parts) and wrap_point is None

    raises = {"ValueError": _raises}

    def ensures(parts, wrap_point, result):
        if len(parts) == 1:
            return same_part(result, parts[0])
        if not bridges_parts(parts):
            return (simple(result) and result.start == min(p.start for p in parts)
                    and result.end == max(p.end for p in parts) and result.strand == parts[0].strand)
        k = first_break_parts(parts)
        head = parts[:k]
        tail = parts[k:]
        upper = tail if parts[0].strand == -1 else head
        lower = head if parts[0].strand == -1 else tail
        return (len(result.parts) == 2
                and result.parts[0].start == min(p.start for p in upper) and result.parts[0].end == wrap_point
                and result.parts[1].start == 0 and result.parts[1].end == max(p.end for p in lower)
                and all(p.strand == 1 for p in result.parts))

    returns = OneOf(FL, CL(2, 2))


@spec
def same_part(a, b):
    return a.start == b.start and a.end == b.end and a.strand == b.strand


@spec
def bridges_parts(parts):
    if len(parts) < 2:
        return False
    if parts[0].strand == -1:
        return any(parts[i].start < parts[i + 1].start for i in range(len(parts) - 1))
    return any(parts[i].start > parts[i + 1].start for i in range(len(parts) - 1))


@spec
def first_break_parts(parts):
    if len(parts) == 2:
        return 1
    if parts[0].strand == -1:
        return 1 if not parts[1].start < parts[0].start else 2
    return 1 if not parts[1].start > parts[0].start else 2


@spec
def split_valid_parts(parts):
    k = first_break_parts(parts)
    head = parts[:k]
    tail = parts[k:]
    strand = parts[0].strand
    disjoint_hulls = not (hull_start(head) < hull_end(tail) and hull_start(tail) < hull_end(head))
    return disjoint_hulls and monotone(head, strand) and monotone(tail, strand)


# ---- Record.extend_location -----------------------------------------------------------------------------
RECORD_FILE = "antismash/common/secmet/record.py"
RECORD = Rec("Record", label="RecordLenCirc", _verif_length=Int, _verif_circular=Bool)


@spec
def record_len(self):
    return self._verif_length


@spec
def record_is_circular(self):
    return self._verif_circular


RECORD_STUBS = {"Record.__len__": record_len, "Record.is_circular": record_is_circular}


@spec
def within_distance(loc, x, distance, length, circular):
    """base x lies within `distance` of the (single-part) location, the other way round too on a ring"""
    lo = loc.start - distance
    hi = loc.end + distance
    if circular:
        return (lo <= x and x < hi) or (lo <= x - length and x - length < hi) or (lo <= x + length and x + length < hi)
    return lo <= x and x < hi


@contract(f"{RECORD_FILE}::Record.extend_location", props=["C04", "C03"])
class ExtendSimpleLocation:
    """a single-part location extended by a distance: exactly the bases within the distance, clipped at the ends
    of a linear record and wrapped around the origin of a circular one; result a well-formed span"""
    params = {"self": RECORD, "location": FL, "distance": Int}
    stubs = RECORD_STUBS
    class_pref = {"Record": RECORD_FILE}

    def requires(self, location, distance):
        return (wf(location) and distance >= 0 and self._verif_length > 0 and location.end <= self._verif_length)

    ensures = {
        "covers-exactly-the-bases-within-the-distance": lambda self, location, distance, result:
            forall(range(0, self._verif_length), lambda x: covers(result, x) == within_distance(
                location, x, distance, self._verif_length, self._verif_circular)),
        "well-formed-span": lambda self, location, distance, result:
            within(result, self._verif_length) and disjoint(result) and len(result.parts) <= 2
            and implies(len(result.parts) == 2,
                        (result.parts[0].start == 0) if location.strand == -1 else (result.parts[1].start == 0)),
    }


# ---- codon_start: the frame shift and its undo are inverse (C10: a partial gene survives the round trip) --------
def _shifted(original, raw_start):
    return frameshift_location_by_qualifier(original, raw_start)


@contract(f"{FILE}::frameshift_location_by_qualifier", props=["C10", "C09"])
class FrameshiftUndoIsInverse:
    """Reading a CDS applies its /codon_start to the location, writing it undoes that: the undo of a frame shift gives back
    exactly the location it started from (locations of up to 3 parts, either strand, coordinates unbounded)."""
    variant = True
    params = {"original": LOC, "raw_start": Int, "undo": Const(True)}
    ghost_params = ["original"]
    derived = {"location": _shifted}

    def requires(original, raw_start):
        return (wf(original) and same_strand(original) and 1 <= raw_start and raw_start <= 3
                and (simple(original) or not bridges_spec(original)) and disjoint(original)
                and all(p.end - p.start > 4 for p in original.parts))

    ensures = {
        "undo-gives-back-the-original-location": lambda original, result:
            len(result.parts) == len(original.parts)
            and all(parts_equal([result.parts[i]], [original.parts[i]]) for i in range(len(original.parts))),
    }


@contract(f"{FILE}::frameshift_location_by_qualifier", props=["C10", "C09"])
class FrameshiftByQualifier:
    """/codon_start n moves the 5' end of the gene by n-1 bases into the gene (the start of the first part on the forward
    strand, the end of the first part on the reverse strand), any other value is refused."""
    params = {"location": LOC, "raw_start": Int, "undo": Const(False)}

    def requires(location, raw_start):
        return (wf(location) and same_strand(location)
                and (simple(location) or not bridges_spec(location)) and disjoint(location)
                and all(p.end - p.start > 2 for p in location.parts))

    raises = {"SecmetInvalidInputError": lambda raw_start: not (1 <= raw_start and raw_start <= 3)}
    ensures = {
        "five-prime-end-moved-into-the-gene": lambda location, raw_start, result:
            len(result.parts) == len(location.parts)
            and all(parts_equal([result.parts[i]], [location.parts[i]]) for i in range(1, len(location.parts)))
            and result.parts[0].strand == location.parts[0].strand
            and (result.parts[0].end == location.parts[0].end - (raw_start - 1)
                 and result.parts[0].start == location.parts[0].start
                 if location.parts[0].strand == -1 else
                 result.parts[0].start == location.parts[0].start + (raw_start - 1)
                 and result.parts[0].end == location.parts[0].end),
    }
    returns = LOC
