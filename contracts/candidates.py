"""C05: pairing steps of candidate cluster formation (features/candidate_cluster/formation.py)."""
# pylint: disable=no-self-argument,no-method-argument,missing-function-docstring
from pyvc.dsl import (contract, spec, Int, Bool, Real, Str, Opt, OneOf, Rec, Ref, External, ListOf, SeqOf, SetOf,
                      DictOf, Const, Loop, implies, iff, forall, exists)
from contracts.locations import FL, CL, wf, share_bases

FILE = "antismash/common/secmet/features/candidate_cluster/formation.py"

MEMBER = Ref("Protocluster")
# a candidate as the pairing steps see it: the span of its members' cores (already computed), its full extent, its members
CANDIDATE = Rec("CandidateCluster", label="CandidateCores", _core_location=OneOf(FL, CL(2, 2)), location=OneOf(FL, CL(2, 2)),
                _protoclusters=ListOf(MEMBER, 1, 1))


@spec
def cores_overlap(a, b):
    return share_bases(a._core_location, b._core_location)


@contract(f"{FILE}::_find_interleaved_candidates", props=["C05"])
class FindInterleavedCandidates:
    """Candidates are paired for interleaving exactly when the spans of their cores share a base (not their full
    extents): one group per overlapping pair, made of the members of both (up to 3 candidates)."""
    params = {"candidates": ListOf(CANDIDATE, 0, 3)}

    def requires(candidates):
        return (all(wf(c._core_location) and wf(c.location) for c in candidates)
                and all(candidates[i]._protoclusters[0] != candidates[j]._protoclusters[0]
                        for i in range(len(candidates)) for j in range(len(candidates)) if i < j))

    ensures = {
        "every-pair-with-overlapping-cores-is-grouped": lambda candidates, result:
            all(implies(cores_overlap(candidates[i], candidates[j]),
                        any(candidates[i]._protoclusters[0] in group and candidates[j]._protoclusters[0] in group
                            for group in result))
                for i in range(len(candidates)) for j in range(len(candidates)) if i < j),
        "every-group-is-a-pair-with-overlapping-cores": lambda candidates, result:
            all(any(cores_overlap(candidates[i], candidates[j])
                    and candidates[i]._protoclusters[0] in group and candidates[j]._protoclusters[0] in group
                    and len(group) == 2
                    for i in range(len(candidates)) for j in range(len(candidates)) if i < j)
                for group in result),
    }


AREA_ONLY = Rec("Protocluster", label="ProtoclusterExtent", location=OneOf(FL, CL(2, 2)))


@contract(f"{FILE}::_find_neighbouring_protoclusters", props=["C05"])
class FindNeighbouringProtoclusters:
    """Protoclusters are paired as neighbours exactly when their full extents share a base (up to 3 protoclusters)."""
    params = {"protoclusters": ListOf(AREA_ONLY, 0, 3)}

    def requires(protoclusters):
        return all(wf(p.location) for p in protoclusters)

    ensures = {
        "every-pair-with-overlapping-extents-is-grouped": lambda protoclusters, result:
            all(implies(share_bases(protoclusters[i].location, protoclusters[j].location),
                        any(protoclusters[i] in group and protoclusters[j] in group for group in result))
                for i in range(len(protoclusters)) for j in range(len(protoclusters)) if i < j),
        "every-group-is-a-pair-with-overlapping-extents": lambda protoclusters, result:
            all(any(share_bases(protoclusters[i].location, protoclusters[j].location)
                    and protoclusters[i] in group and protoclusters[j] in group and len(group) == 2
                    for i in range(len(protoclusters)) for j in range(len(protoclusters)) if i < j)
                for group in result),
    }


@contract(f"{FILE}::_find_neighbouring_protoclusters", props=["C05"])
class FindNeighbouringProtoclustersFour(FindNeighbouringProtoclusters):
    """Four protoclusters on one stretch each (with three, the extra first/last comparison hides a scan that stops early)."""
    variant = True
    params = {"protoclusters": ListOf(Rec("Protocluster", label="ProtoclusterSimpleExtent", location=FL), 4, 4)}
    requires = FindNeighbouringProtoclusters.__dict__["requires"]
    ensures = FindNeighbouringProtoclusters.__dict__["ensures"]


@contract(f"{FILE}::_find_interleaved_candidates", props=["C05"])
class FindInterleavedCandidatesFour(FindInterleavedCandidates):
    """Four candidates with cores on one stretch each (with three, the extra first/last comparison hides a scan that stops early)."""
    variant = True
    params = {"candidates": ListOf(Rec("CandidateCluster", label="CandidateSimpleCores", _core_location=FL, location=FL,
                                       _protoclusters=ListOf(MEMBER, 1, 1)), 4, 4)}
    requires = FindInterleavedCandidates.__dict__["requires"]
    ensures = FindInterleavedCandidates.__dict__["ensures"]
