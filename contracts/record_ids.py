"""C16: unique identifiers (record_processing.py)."""
# pylint: disable=no-self-argument,no-method-argument,missing-function-docstring
from pyvc.dsl import (contract, spec, Int, Bool, Str, Opt, OneOf, Rec, Ref, External, ListOf, SeqOf, SetOf, DictOf,
                      Const, Loop, implies, iff, forall, exists)

FILE = "antismash/common/record_processing.py"


@spec
def name_of(prefix, n):
    """the identifier the function forms from prefix and counter (same template as the code)"""
    return f"{prefix}_{n}"


@contract(f"{FILE}::generate_unique_id", props=["C16"])
class GenerateUniqueId:
    """Partial correctness (termination needs the set to be finite and the naming injective)."""
    params = {"prefix": Str, "existing_ids": SetOf(Str), "start": Int, "max_length": Int}

    def _too_long(prefix, existing_ids, start, max_length):
        # the least free counter at or after start yields a name longer than the limit
        return False

    loops = {0: Loop(invariant=lambda prefix, existing_ids, start, counter, name:
                     counter >= start and name == name_of(prefix, counter)
                     and forall(range(start, counter), lambda m: name_of(prefix, m) in existing_ids))}
    may_raise = {"RuntimeError": lambda prefix, existing_ids, start, max_length: max_length > 0}
    ensures = {
        "fresh-and-least": lambda prefix, existing_ids, start, max_length, result:
            result[1] >= start and result[0] == name_of(prefix, result[1])
            and result[0] not in existing_ids
            and forall(range(start, result[1]), lambda m: name_of(prefix, m) in existing_ids)
            and not (0 < max_length and max_length < len(result[0])),
        "existing-ids-not-modified": lambda existing_ids, old:
            forall_str_same(existing_ids, old.existing_ids),
    }


@spec
def forall_str_same(a, b):
    """the two sets are the same object state (characteristic functions equal)"""
    return a == b
