"""C01: rule conditions evaluate to their documented boolean meaning (hmm_rule_parser/rule_parser.py).

World (U): 1..3 genes with simple locations, each with 0..2 hits; the Details object is built by the REAL
Details.__init__ / the real dicts the caller (apply_cluster_rules) passes: results only for genes with hits."""
# pylint: disable=no-self-argument,no-method-argument,missing-function-docstring
from pyvc.dsl import (contract, spec, Int, Bool, Real, Str, Opt, OneOf, Rec, Ref, External, ListOf, SeqOf, SetOf, FiniteSet,
                      DictOf, TupleOf, Union, Const, Loop, implies, iff, forall, exists)
from contracts.locations import FL, wf, d_line, d_ring, share

FILE = "antismash/common/hmm_rule_parser/rule_parser.py"

HITP = Rec("ProfileHit", label="ProfileHit", query_id=Str, bitscore=Real)


def GENE(max_hits):
    return Rec("CDSFeature", label=f"Gene{max_hits}", name=Str, location=FL, hits=ListOf(HITP, 0, max_hits))


def build_details(genes, focus, cutoff, circular_origin):
    feats = {g.name: g for g in genes}
    results = {g.name: g.hits for g in genes if g.hits}
    return Details(genes[focus].name, feats, results, cutoff, circular_origin)


@spec
def world_ok(genes, focus, cutoff, circular_origin):
    n = len(genes)
    return (0 <= focus and focus < n and cutoff >= 0
            and all(wf(g.location) for g in genes)
            and all(genes[i].name != genes[j].name for i in range(n) for j in range(n) if i < j)
            and (circular_origin is None or (circular_origin > 0 and all(g.location.end <= circular_origin for g in genes))))


@spec
def dist(a, b, circular_origin):
    """ring distance iff circular_origin is truthy"""
    if circular_origin is None:
        return d_line(a, b)
    return d_ring(a, b, circular_origin)


@spec
def near(genes, i, j, cutoff, circular_origin):
    return dist(genes[i].location, genes[j].location, circular_origin) < cutoff


@spec
def hits_profile(gene, name):
    return any(h.query_id == name for h in gene.hits)


@spec
def scores(gene, name, score):
    return any(h.query_id == name and h.bitscore >= score for h in gene.hits)


@contract(f"{FILE}::Details.in_range", props=["C01", "C03"])
class DetailsInRange:
    params = {"self": Rec("Details", label="DetailsCore", cutoff=Int, circular_origin=Opt(Int)), "cds": FL, "other": FL}

    def requires(self, cds, other):
        return wf(cds) and wf(other) and (self.circular_origin is None or (
            self.circular_origin > 0 and cds.end <= self.circular_origin and other.end <= self.circular_origin))

    def ensures(self, cds, other, result):
        return result == (dist(cds, other, self.circular_origin) < self.cutoff)

    returns = Bool


SINGLE = Rec("SingleCondition", label="SingleCondition", negated=Bool, name=Str, hits=Const(0))


@contract(f"{FILE}::SingleCondition.is_satisfied", props=["C01"])
class SingleIsSatisfied:
    """a profile name is true if it hits the gene or (unless local) any gene closer than the cutoff;
    reason profiles: the name iff it hits the gene itself"""
    params = {"self": SINGLE, "genes": ListOf(GENE(1), 1, 3), "focus": Int, "cutoff": Int,
              "circular_origin": Opt(Int), "local_only": Bool}
    ghost_params = ["genes", "focus", "cutoff", "circular_origin"]
    derived = {"details": build_details}
    budget_s = 600

    def requires(self, genes, focus, cutoff, circular_origin):
        return world_ok(genes, focus, cutoff, circular_origin)

    ensures = {
        "met-iff-documented-meaning": lambda self, genes, focus, cutoff, circular_origin, local_only, result:
            result.met == (self.negated != (
                hits_profile(genes[focus], self.name)
                or (not local_only and any(j != focus and near(genes, focus, j, cutoff, circular_origin)
                                           and hits_profile(genes[j], self.name) for j in range(len(genes)))))),
        "reasons-are-the-profile-iff-it-hits-this-gene": lambda self, genes, focus, result:
            (self.name in result.matches) == hits_profile(genes[focus], self.name)
            and all(m == self.name for m in result.matches),
    }


SCORE = Rec("ScoreCondition", label="ScoreCondition", negated=Bool, name=Str, score=Int, hits=Const(0))


@spec
def neighbour_scores_but_gene_does_not(self, genes, focus, cutoff, circular_origin, local_only):
    """finding C01-F?: inside cds(...) (local_only) a minscore is satisfied by a neighbouring gene"""
    return (local_only and not scores(genes[focus], self.name, self.score)
            and any(j != focus and near(genes, focus, j, cutoff, circular_origin)
                    and scores(genes[j], self.name, self.score) for j in range(len(genes))))


@contract(f"{FILE}::ScoreCondition.is_satisfied", props=["C01"])
class ScoreIsSatisfied:
    """minscore(p, s): as a profile name, but the hit needs bitscore >= s; reason only when the gene's own score suffices"""
    params = {"self": SCORE, "genes": ListOf(GENE(2), 1, 2), "focus": Int, "cutoff": Int,
              "circular_origin": Opt(Int), "local_only": Bool}
    ghost_params = ["genes", "focus", "cutoff", "circular_origin"]
    derived = {"details": build_details}
    budget_s = 600

    def requires(self, genes, focus, cutoff, circular_origin):
        return world_ok(genes, focus, cutoff, circular_origin) and self.score >= 0

    ensures = {
        "met-iff-documented-meaning": lambda self, genes, focus, cutoff, circular_origin, local_only, result:
            result.met == (self.negated != (
                scores(genes[focus], self.name, self.score)
                or (not local_only and any(j != focus and near(genes, focus, j, cutoff, circular_origin)
                                           and scores(genes[j], self.name, self.score) for j in range(len(genes)))))),
        "reason-only-when-own-score-suffices": lambda self, genes, focus, result:
            (self.name in result.matches) == scores(genes[focus], self.name, self.score)
            and all(m == self.name for m in result.matches),
    }
    known = {"C01-F1": (neighbour_scores_but_gene_does_not, ["met-iff-documented-meaning"])}


MINIMUM = Rec("MinimumCondition", label="MinimumCondition", negated=Bool, count=Int,
              options=FiniteSet(Str, 1, 2), hits=Const(0))
MINIMUM3 = Rec("MinimumCondition", label="MinimumCondition3", negated=Bool, count=Int,
               options=FiniteSet(Str, 3, 3), hits=Const(0))


@spec
def option_hits(gene, options):
    """number of listed profiles that hit the gene"""
    return sum(1 for o in options if hits_profile(gene, o))


@contract(f"{FILE}::MinimumCondition.is_satisfied", props=["C01"])
class MinimumIsSatisfied:
    """minimum(n, [...]) counts the listed profiles over the gene and the genes in range"""
    params = {"self": MINIMUM, "genes": ListOf(GENE(2), 1, 2), "focus": Int, "cutoff": Int,
              "circular_origin": Opt(Int), "local_only": Const(False)}
    ghost_params = ["genes", "focus", "cutoff", "circular_origin"]
    derived = {"details": build_details}
    budget_s = 600

    def requires(self, genes, focus, cutoff, circular_origin):
        return world_ok(genes, focus, cutoff, circular_origin) and self.count >= 1

    ensures = {
        "met-iff-count-over-gene-and-genes-in-range": lambda self, genes, focus, cutoff, circular_origin, result:
            result.met == (self.negated != (
                option_hits(genes[focus], self.options)
                + sum(option_hits(genes[j], self.options) for j in range(len(genes))
                      if j != focus and near(genes, focus, j, cutoff, circular_origin)) >= self.count)),
        "reasons-are-the-listed-profiles-hitting-this-gene": lambda self, genes, focus, result:
            all((o in result.matches) == hits_profile(genes[focus], o) for o in self.options)
            and all(m in self.options for m in result.matches),
    }


# ---- composite conditions: structural induction over abstract operands ---------------------------------------
# The meaning of an operand is abstract: Sem(condition, gene, local_only) and Why(condition, gene, local_only).
# Every operand is ASSUMED to meet the abstract contract of Conditions.get_satisfied (induction hypothesis);
# each composite class is PROVED to compute the documented combination of its operands' meanings.
from pyvc.dsl import Uninterpreted, forall_str  # noqa: E402  pylint: disable=wrong-import-position

COND = Ref("Conditions")
Sem = Uninterpreted("Sem", [COND, Str, Bool], Bool)
Why = Uninterpreted("Why", [COND, Str, Bool], SetOf(Str))
CM = Rec("ConditionMet", label="ConditionMet", met=Bool, matches=SetOf(Str), ancillary_hits=Const({}))
DETAILS_ABS = Rec("Details", label="DetailsAbstract", cds=Str)


def operand_contract(self, details, local_only=False, result=None):
    return (result.met == Sem(self, details.cds, local_only)
            and result.matches == Why(self, details.cds, local_only))


OPERAND_STUBS = {"Conditions.get_satisfied": External(returns=CM, ensures=operand_contract)}


def build_and(operands):
    subs = [operands[0]]
    for op in operands[1:]:
        subs.append(TokenTypes.AND)
        subs.append(op)
    return AndCondition(subs)


def build_or(negated, operands):
    subs = [operands[0]]
    for op in operands[1:]:
        subs.append(TokenTypes.OR)
        subs.append(op)
    return Conditions(negated, subs)


@contract(f"{FILE}::AndCondition.is_satisfied", props=["C01"])
class AndIsSatisfied:
    """'and' is plain conjunction; reasons are the union of the operands' reasons"""
    params = {"operands": ListOf(COND, 2, 3), "details": DETAILS_ABS, "local_only": Bool}
    ghost_params = ["operands"]
    derived = {"self": build_and}
    stubs = OPERAND_STUBS
    ensures = {
        "met-is-the-conjunction": lambda operands, details, local_only, result:
            result.met == all(Sem(op, details.cds, local_only) for op in operands),
        "reasons-are-the-union": lambda operands, details, local_only, result:
            forall_str(lambda x: (x in result.matches) == any(x in Why(op, details.cds, local_only) for op in operands)),
    }


@contract(f"{FILE}::Conditions.is_satisfied", props=["C01"])
class GroupIsSatisfied:
    """a group / or-list: negation xor the disjunction of the operands; reasons are the union"""
    params = {"negated": Bool, "operands": ListOf(COND, 1, 3), "details": DETAILS_ABS, "local_only": Bool}
    ghost_params = ["operands", "negated"]
    derived = {"self": build_or}
    stubs = OPERAND_STUBS
    ensures = {
        "met-is-negation-xor-disjunction": lambda negated, operands, details, local_only, result:
            result.met == (negated != any(Sem(op, details.cds, local_only) for op in operands)),
        "reasons-are-the-union": lambda operands, details, local_only, result:
            forall_str(lambda x: (x in result.matches) == any(x in Why(op, details.cds, local_only) for op in operands)),
    }


def build_cds(negated, operands):
    subs = [operands[0]]
    for op in operands[1:]:
        subs.append(TokenTypes.OR)
        subs.append(op)
    return CDSCondition(negated, subs)


@spec
def inner_sem(operands, gene_name):
    """the inner formula of cds(...) evaluated on one single gene on its own"""
    return any(Sem(op, gene_name, True) for op in operands)


@contract(f"{FILE}::CDSCondition.is_satisfied", props=["C01"])
class CdsIsSatisfied:
    """cds(...) is true if one single gene in range satisfies the inner formula on its own; it counts as
    a reason only when this gene satisfies the group itself"""
    params = {"negated": Bool, "operands": ListOf(COND, 1, 2), "genes": ListOf(GENE(1), 1, 2), "focus": Int,
              "cutoff": Int, "circular_origin": Opt(Int), "local_only": Const(False)}
    ghost_params = ["negated", "operands", "genes", "focus", "cutoff", "circular_origin"]
    derived = {"self": build_cds, "details": build_details}
    stubs = OPERAND_STUBS
    budget_s = 600

    def requires(genes, focus, cutoff, circular_origin):
        return world_ok(genes, focus, cutoff, circular_origin)

    ensures = {
        "met-iff-some-single-gene-in-range-satisfies-the-inner-formula": lambda negated, operands, genes, focus, cutoff, circular_origin, result:
            result.met == (negated != (
                inner_sem(operands, genes[focus].name)
                or any(j != focus and near(genes, focus, j, cutoff, circular_origin)
                       and inner_sem(operands, genes[j].name) for j in range(len(genes))))),
        "reasons-only-when-this-gene-satisfies-the-group": lambda operands, genes, focus, result:
            forall_str(lambda x: (x in result.matches) == (
                inner_sem(operands, genes[focus].name)
                and any(x in Why(op, genes[focus].name, True) for op in operands))),
    }


RULE = Rec("DetectionRule", label="DetectionRule", conditions=COND, cutoff=Int, hits=Int, name=Str)


@contract(f"{FILE}::DetectionRule.detect", props=["C01", "C03"])
class RuleDetect:
    """a gene anchors the rule iff the rule's condition is true at that gene (non-local) and the gene itself
    contributes a reason profile; the reported reasons are the condition's reasons"""
    params = {"self": RULE, "cds_name": Str, "feature_by_id": DictOf(Str, GENE(0)),
              "results_by_id": DictOf(Str, SeqOf(HITP)), "circular_origin": Opt(Int)}
    stubs = OPERAND_STUBS
    ensures = {
        "condition-evaluated-at-the-gene-non-locally": lambda self, cds_name, result:
            result.met == Sem(self.conditions, cds_name, False)
            and result.matches == Why(self.conditions, cds_name, False),
        "hit-counter-counts-anchoring-genes": lambda self, cds_name, old:
            self.hits == old.self.hits + (1 if Sem(self.conditions, cds_name, False)
                                          and exists_reason(self.conditions, cds_name) else 0),
    }


@spec
def exists_reason(condition, gene_name):
    return not forall_str(lambda x: x not in Why(condition, gene_name, False))


@contract(f"{FILE}::CDSCondition.is_satisfied", props=["C01"])
class CdsIsSatisfiedThreeGenes:
    """the same contract on worlds of exactly three genes (thorough tier only: several minutes)"""
    variant = True
    tiers = ("thorough",)
    params = {"negated": Bool, "operands": ListOf(COND, 1, 2), "genes": ListOf(GENE(1), 3, 3), "focus": Int,
              "cutoff": Int, "circular_origin": Opt(Int), "local_only": Const(False)}
    ghost_params = CdsIsSatisfied.ghost_params
    derived = CdsIsSatisfied.derived
    stubs = OPERAND_STUBS
    budget_s = 1500
    requires = CdsIsSatisfied.__dict__["requires"]
    ensures = CdsIsSatisfied.__dict__["ensures"]


@contract(f"{FILE}::MinimumCondition.is_satisfied", props=["C01"])
class MinimumIsSatisfiedThreeOptions:
    """the same contract with three listed profiles (thorough tier only)"""
    variant = True
    tiers = ("thorough",)
    params = dict(MinimumIsSatisfied.params, self=MINIMUM3)
    ghost_params = MinimumIsSatisfied.ghost_params
    derived = MinimumIsSatisfied.derived
    budget_s = 1500
    requires = MinimumIsSatisfied.__dict__["requires"]
    ensures = MinimumIsSatisfied.__dict__["ensures"]
