"""C08: which genes an area records (features/protocluster.py)."""
# pylint: disable=no-self-argument,no-method-argument,missing-function-docstring
from pyvc.dsl import (contract, spec, Int, Bool, Real, Str, Opt, OneOf, Rec, Ref, External, ListOf, SeqOf, SetOf,
                      DictOf, Const, Loop, implies, iff, forall, exists)
from contracts.locations import FL, LOC, CL, wf, contains_spec, part_ok, inside, share

PROTO_FILE = "antismash/common/secmet/features/protocluster.py"

ANNOTATION = Rec("_GeneFunctionAnnotation", label="CoreAnnotation", product=Str)
FUNCTIONS = Ref("GeneFunctionAnnotations")
CDS = Rec("CDSFeature", label="GeneWithFunctions", location=OneOf(FL, CL(2, 2)), gene_functions=FUNCTIONS)
PROTOCLUSTER = Rec("Protocluster", label="ProtoclusterCore", _core_location=OneOf(FL, CL(2, 2)), product=Str,
                   _definition_cdses=Const(set()))


@spec
def core_products(annotations, product):
    return any(a.product == product for a in annotations)


@contract(f"{PROTO_FILE}::Protocluster.add_cds", props=["C08"])
class ProtoclusterAddCds:
    """A gene added to a protocluster becomes one of its definition genes exactly when every part of the gene
    lies inside a part of the core (so also a gene over the origin inside a core over the origin) and the gene
    carries a core annotation for the protocluster's product."""
    params = {"self": PROTOCLUSTER, "cds": CDS, "section": Const(None),
              "annotations": ListOf(ANNOTATION, 0, 2)}
    ghost_params = ["annotations"]
    stubs = {
        # the part of the collection shared by all areas: may refuse a gene outside the area
        "CDSCollection.add_cds": External(returns=None, raises=["ValueError", "TypeError"]),
        "GeneFunctionAnnotations.get_by_function": External(
            returns=ListOf(ANNOTATION, 0, 2), pure=True, over_contract_params=True,
            ensures=lambda result, annotations: len(result) == len(annotations) and all(
                result[k].product == annotations[k].product for k in range(len(result)))),
    }

    def requires(self, cds):
        return wf(self._core_location) and wf(cds.location)

    may_raise = {"ValueError": lambda self, cds: True, "TypeError": lambda self, cds: True}
    ensures = {
        "definition-gene-iff-inside-the-core-with-a-core-annotation-of-the-product": lambda self, cds, annotations:
            (cds in self._definition_cdses) == (contains_spec(self._core_location, cds.location)
                                                and core_products(annotations, self.product)),
    }


# ---- CDSCollection.add_cds ---------------------------------------------------------------------------
COLLECTION_FILE = "antismash/common/secmet/features/cdscollection.py"


def _cache(label):
    return Rec("_CDSCache", label=label, _features=Const({}), _cached=Const(()), _dirty=Bool)


AREA = Rec("CDSCollection", label="AreaWithoutChildren", location=OneOf(FL, CL(2, 2)), _children=Const([]),
           _cdses=Rec("_SectionedCDSCache", label="SectionedCache", _features=Const({}), _cached=Const(()), _dirty=Bool,
                      _pre_origin=_cache("PreOrigin"), _cross_origin=_cache("CrossOrigin"),
                      _post_origin=_cache("PostOrigin")))
GENE = Rec("CDSFeature", label="GeneLocationOnly", location=OneOf(FL, CL(2, 2)))


@spec
def forward_area(area):
    """areas are on the forward strand, a two-part one is an area over the origin: [a, L) + [0, b) with b <= a"""
    parts = area.location.parts
    return (wf(area.location) and all(p.strand == 1 for p in parts)
            and (len(parts) == 1 or (parts[1].start == 0 and parts[1].end <= parts[0].start)))


@spec
def gene_ok(gene):
    """genes over the origin have two parts, the first reaching the record end, the second starting at 0"""
    parts = gene.location.parts
    return (wf(gene.location) and all(p.strand == parts[0].strand for p in parts)
            and (len(parts) == 1 or (parts[0].strand == 1 and parts[1].start == 0 and parts[1].end <= parts[0].start)
                 or (parts[0].strand == -1 and parts[0].start == 0 and parts[0].end <= parts[1].start)))


@contract(f"{COLLECTION_FILE}::CDSCollection.add_cds", props=["C08"])
class CollectionAddCds:
    """An area (without child areas) takes a gene exactly when every part of the gene lies inside a part of the
    area, lists it once, and files it under the section of the area it lies in."""
    params = {"self": AREA, "cds": GENE, "section": Const(None)}

    def requires(self, cds):
        return forward_area(self) and gene_ok(cds)

    raises = {"ValueError": lambda self, cds: not contains_spec(self.location, cds.location)}
    on_raise = {"a-refused-gene-is-not-listed": lambda self: len(self._cdses._features) == 0}
    ensures = {
        "listed-once": lambda self, cds: len(self._cdses._features) == 1 and cds in self._cdses._features,
        "filed-under-the-section-it-lies-in": lambda self, cds:
            (cds in self._cdses._cross_origin._features) == (len(cds.location.parts) == 2)
            and (cds in self._cdses._pre_origin._features)
            == (len(cds.location.parts) == 1 and len(self.location.parts) == 2
                and not (self.location.parts[1].start <= cds.location.start
                         and cds.location.end <= self.location.parts[1].end))
            and (cds in self._cdses._post_origin._features)
            == (len(cds.location.parts) == 1
                and (len(self.location.parts) == 1
                     or (self.location.parts[1].start <= cds.location.start
                         and cds.location.end <= self.location.parts[1].end))),
    }


# ---- Feature.__lt__: the order genes are kept in (and looked up by bisection) ---------------------------------
from contracts.locations import (same_strand, bridges_spec, split_valid, first_break, hull_start, hull_end)  # noqa: E402

FEATURE_FILE = "antismash/common/secmet/features/feature.py"
SORTABLE = Rec("Feature", label="SortableFeature", location=OneOf(FL, CL(2, 3)), type=Str)


@spec
def pre_origin_parts(loc):
    """the parts of an origin-spanning location that lie before the origin (at the end of the record)"""
    k = first_break(loc)
    if loc.parts[0].strand == -1:
        return loc.parts[k:]
    return loc.parts[:k]


@spec
def sort_position(feature):
    """where the feature starts: a feature over the origin starts before it, at (its lowest pre-origin coordinate) - (record length)"""
    loc = feature.location
    if len(loc.parts) > 1 and bridges_spec(loc):
        return hull_start(pre_origin_parts(loc)) - hull_end(pre_origin_parts(loc))
    return min(p.start for p in loc.parts)


@spec
def total_length(feature):
    return sum(p.end - p.start for p in feature.location.parts)


@spec
def sortable(feature):
    loc = feature.location
    return (wf(loc) and same_strand(loc)
            and implies(len(loc.parts) > 1 and bridges_spec(loc), split_valid(loc)))


@contract(f"{FEATURE_FILE}::Feature.__lt__", props=["C08"])
class FeatureLessThan:
    """Features sort by where they start - a feature over the origin by its lowest coordinate before the origin,
    whatever the order its exons are listed in (reverse-strand genes list them descending) - then shortest first;
    the source feature wins ties."""
    params = {"self": SORTABLE, "other": SORTABLE}

    def requires(self, other):
        return sortable(self) and sortable(other)

    ensures = {
        "by-start-then-length": lambda self, other, result:
            result == (sort_position(self) < sort_position(other)
                       or (sort_position(self) == sort_position(other)
                           and (total_length(self) < total_length(other)
                                or (total_length(self) == total_length(other) and self.type == "source")))),
    }
    returns = Bool


# ---- Record.get_cds_features_within_location: which genes a location holds -------------------------------------
RECORD_FILE = "antismash/common/secmet/record.py"
GENE_ON_ONE_STRETCH = Rec("CDSFeature", label="GeneOnOneStretch", location=FL)
RECORD_WITH_GENES = Rec("Record", label="RecordWithGenes", _cds_features=SeqOf(GENE_ON_ONE_STRETCH))


@spec
def gene_qualifies(gene, location, with_overlapping):
    """wholly inside the location, or (when asked for) sharing a base with it"""
    return inside(gene.location, location) or (with_overlapping and share(gene.location, location))


@spec
def same_gene(a, b):
    return (a.location.start == b.location.start and a.location.end == b.location.end
            and a.location.strand == b.location.strand)


@spec
def genes_in_record_order(genes):
    """the order Feature.__lt__ (FeatureLessThan above) keeps the gene list in, as far as the lookup relies on it"""
    n = len(genes)
    return (forall(range(0, n), lambda j: part_ok(genes[j].location))
            and forall(range(0, n), lambda i: forall(range(0, n), lambda j: implies(
                i <= j, genes[i].location.start <= genes[j].location.start))))


@contract(f"{RECORD_FILE}::Record.get_cds_features_within_location", props=["C08"])
class RecordGenesWithinLocation:
    """A record holding ANY number of genes (loop cut by an invariant), each on one stretch of the contig, asked
    for the genes of a one-part location: the answer holds exactly the genes wholly inside the location - with
    `with_overlapping` exactly those sharing a base with it - however they are nested or tied, in record order."""
    params = {"self": RECORD_WITH_GENES, "location": FL, "with_overlapping": Bool}
    prove_timeout_s = 60     # quantified invariants: 1-10 s each on an idle machine, budgeted for a busy one
    budget_s = 900

    def requires(self, location):
        return genes_in_record_order(self._cds_features) and part_ok(location)

    loops = {1: Loop(
        types={"results": SeqOf(GENE_ON_ONE_STRETCH)},
        invariant={
            "kept-genes-are-qualifying-genes-seen-so-far": lambda self, results, location, with_overlapping, _i:
                forall(range(0, len(results)), lambda k: exists(range(0, _i), lambda m:
                       same_gene(results[k], self._cds_features[m])
                       and gene_qualifies(self._cds_features[m], location, with_overlapping))),
            "no-qualifying-gene-seen-so-far-is-missing": lambda self, results, location, with_overlapping, _i:
                forall(range(0, _i), lambda m: implies(
                    gene_qualifies(self._cds_features[m], location, with_overlapping),
                    exists(range(0, len(results)), lambda k: same_gene(results[k], self._cds_features[m])))),
            "kept-genes-in-record-order": lambda results:
                forall(range(0, len(results) - 1),
                       lambda k: results[k].location.start <= results[k + 1].location.start),
            "kept-genes-start-no-later-than-the-next-gene": lambda self, results, _i:
                implies(_i < len(self._cds_features), forall(range(0, len(results)), lambda k:
                        results[k].location.start <= self._cds_features[_i].location.start)),
            "nothing-kept-twice": lambda results, _i: len(results) <= _i,
        })}

    ensures = {
        "only-genes-of-the-record-that-qualify": lambda self, location, with_overlapping, result:
            forall(range(0, len(result)), lambda k: exists(range(0, len(self._cds_features)), lambda m:
                   same_gene(result[k], self._cds_features[m])
                   and gene_qualifies(self._cds_features[m], location, with_overlapping))),
        "every-qualifying-gene-however-nested-or-tied": lambda self, location, with_overlapping, result:
            forall(range(0, len(self._cds_features)), lambda m: implies(
                gene_qualifies(self._cds_features[m], location, with_overlapping),
                exists(range(0, len(result)), lambda k: same_gene(result[k], self._cds_features[m])))),
        "in-record-order-nothing-twice": lambda self, result:
            len(result) <= len(self._cds_features)
            and forall(range(0, len(result) - 1), lambda k: result[k].location.start <= result[k + 1].location.start),
    }


# ---- the same lookup on a record that also holds genes over the origin -------------------------------------------
from pyvc.dsl import Union  # noqa: E402
from contracts.locations import share_bases  # noqa: E402

CL2 = Rec("CompoundLocation", label="CL2", parts=ListOf(FL, 2, 2), operator=Const("join"))
GENE_ANYWHERE = Rec("CDSFeature", label="GeneAnywhere", location=Union(FL, CL2))
RECORD_WITH_ANY_GENES = Rec("Record", label="RecordWithAnyGenes", _cds_features=SeqOf(GENE_ANYWHERE))


@spec
def envelope_start(gene):
    return min(p.start for p in gene.location.parts)


@spec
def envelope_end(gene):
    return max(p.end for p in gene.location.parts)


@spec
def gene_pieces(gene):
    parts = gene.location.parts
    if len(parts) == 1:
        return (parts[0].start, parts[0].end, parts[0].strand, -1, -1)
    return (parts[0].start, parts[0].end, parts[0].strand, parts[1].start, parts[1].end)


@spec
def gene_qualifies_anywhere(gene, location, with_overlapping):
    return contains_spec(location, gene.location) or (with_overlapping and share_bases(location, gene.location))


@spec
def any_genes_in_record_order(genes, location):
    """genes of one part, or of two parts over the origin ([a, L) + [0, b) with b <= a, listed in either order); the
    envelope starts do not decrease along the list (genes over the origin, whose envelope starts at 0, come first in
    the order of Feature.__lt__) and the query lies inside the record (it ends no later than a gene over the origin does)"""
    n = len(genes)
    return (forall(range(0, n), lambda j: gene_ok(genes[j])
                   and implies(len(genes[j].location.parts) == 2, location.end <= envelope_end(genes[j])))
            and forall(range(0, n), lambda i: forall(range(0, n), lambda j: implies(
                i <= j, envelope_start(genes[i]) <= envelope_start(genes[j])))))


@contract(f"{RECORD_FILE}::Record.get_cds_features_within_location", props=["C08"])
class RecordGenesWithinLocationOverOrigin:
    """The same for a record whose genes may also span the origin (two parts): any number of genes, one-part query."""
    variant = True
    params = {"self": RECORD_WITH_ANY_GENES, "location": FL, "with_overlapping": Bool}
    prove_timeout_s = 60
    budget_s = 900

    def requires(self, location):
        return any_genes_in_record_order(self._cds_features, location) and part_ok(location)

    loops = {1: Loop(
        types={"results": SeqOf(GENE_ANYWHERE)},
        invariant={
            "kept-genes-are-qualifying-genes-seen-so-far": lambda self, results, location, with_overlapping, _i:
                forall(range(0, len(results)), lambda k: exists(range(0, _i), lambda m:
                       gene_pieces(results[k]) == gene_pieces(self._cds_features[m])
                       and gene_qualifies_anywhere(self._cds_features[m], location, with_overlapping))),
            "no-qualifying-gene-seen-so-far-is-missing": lambda self, results, location, with_overlapping, _i:
                forall(range(0, _i), lambda m: implies(
                    gene_qualifies_anywhere(self._cds_features[m], location, with_overlapping),
                    exists(range(0, len(results)), lambda k: gene_pieces(results[k]) == gene_pieces(self._cds_features[m])))),
            "nothing-kept-twice": lambda results, _i: len(results) <= _i,
        })}

    ensures = {
        "only-genes-of-the-record-that-qualify": lambda self, location, with_overlapping, result:
            forall(range(0, len(result)), lambda k: exists(range(0, len(self._cds_features)), lambda m:
                   gene_pieces(result[k]) == gene_pieces(self._cds_features[m])
                   and gene_qualifies_anywhere(self._cds_features[m], location, with_overlapping))),
        "every-qualifying-gene-also-one-over-the-origin": lambda self, location, with_overlapping, result:
            forall(range(0, len(self._cds_features)), lambda m: implies(
                gene_qualifies_anywhere(self._cds_features[m], location, with_overlapping),
                exists(range(0, len(result)), lambda k: gene_pieces(result[k]) == gene_pieces(self._cds_features[m])))),
        "nothing-twice": lambda self, result: len(result) <= len(self._cds_features),
    }
