"""C08: which genes an area records (features/protocluster.py)."""
# pylint: disable=no-self-argument,no-method-argument,missing-function-docstring
from pyvc.dsl import (contract, spec, Int, Bool, Real, Str, Opt, OneOf, Rec, Ref, External, ListOf, SeqOf, SetOf,
                      DictOf, Const, Loop, implies, iff, forall, exists)
from contracts.locations import FL, LOC, CL, wf, contains_spec

PROTO_FILE = "antismash/common/secmet/features/protocluster.py"

ANNOTATION = Rec("_GeneFunctionAnnotation", label="CoreAnnotation", product=Str)
FUNCTIONS = Ref("GeneFunctionAnnotations")
CDS = Rec("CDSFeature", label="GeneWithFunctions", location=OneOf(FL, CL(2, 2)), gene_functions=FUNCTIONS)
PROTOCLUSTER = Rec("Protocluster", label="ProtoclusterCore", _core_location=OneOf(FL, CL(2, 2)), product=Str,
                   _definition_cdses=Const(set()))


@spec
def core_products(annotations, product):
    return any(a.product == product for a in annotations)


@contract(f"{PROTO_FILE}::Protocluster.add_cds", props=["C08"])
class ProtoclusterAddCds:
    """A gene added to a protocluster becomes one of its definition genes exactly when every part of the gene
    lies inside a part of the core (so also a gene over the origin inside a core over the origin) and the gene
    carries a core annotation for the protocluster's product."""
    params = {"self": PROTOCLUSTER, "cds": CDS, "section": Const(None),
              "annotations": ListOf(ANNOTATION, 0, 2)}
    ghost_params = ["annotations"]
    stubs = {
        # the part of the collection shared by all areas: may refuse a gene outside the area
        "CDSCollection.add_cds": External(returns=None, raises=["ValueError", "TypeError"]),
        "GeneFunctionAnnotations.get_by_function": External(
            returns=ListOf(ANNOTATION, 0, 2), pure=True, over_contract_params=True,
            ensures=lambda result, annotations: len(result) == len(annotations) and all(
                result[k].product == annotations[k].product for k in range(len(result)))),
    }

    def requires(self, cds):
        return wf(self._core_location) and wf(cds.location)

    may_raise = {"ValueError": lambda self, cds: True, "TypeError": lambda self, cds: True}
    ensures = {
        "definition-gene-iff-inside-the-core-with-a-core-annotation-of-the-product": lambda self, cds, annotations:
            (cds in self._definition_cdses) == (contains_spec(self._core_location, cds.location)
                                                and core_products(annotations, self.product)),
    }
