"""Native constructors for the record descriptors used in sidecars (runs under /venv/bin/python)."""
# pylint: disable=import-outside-toplevel


def _fl(start, end, strand):
    from antismash.common.secmet.locations import FeatureLocation
    return FeatureLocation(start, end, strand)


def _cl(parts, operator="join"):
    from antismash.common.secmet.locations import CompoundLocation
    return CompoundLocation(list(parts), operator=operator)


REAL = {
    "FL": _fl,
    "FeatureLocation": _fl,
    "CompoundLocation": _cl,
}
for _lo in range(2, 5):
    for _hi in range(_lo, 6):
        REAL[f"CL[{_lo}..{_hi}]"] = _cl


def _feature(location, type="CDS"):  # pylint: disable=redefined-builtin
    from antismash.common.secmet.features.feature import Feature
    return Feature(location, feature_type=type)


REAL["FeatureWithLocation"] = _feature
REAL["SortableFeature"] = _feature


def _hmmer_hit(evalue, score):
    from antismash.common.hmmer import HmmerHit
    return HmmerHit(location="[0:3](+)", label="label", locus_tag="tag", domain="dom", evalue=evalue, score=score,
                    identifier="PF00001", description="", protein_start=0, protein_end=1, translation="M")


def _hmmer_results(hits, evalue, score):
    from antismash.common.hmmer import HmmerResults
    return HmmerResults("record", evalue, score, "db", "tool", list(hits))


REAL["HmmerHitScores"] = _hmmer_hit
REAL["HmmerResults"] = _hmmer_results


def _hmm_result(_hit_id, _query_start, _query_end, _evalue, _bitscore):
    from antismash.common.hmmscan_refinement import HMMResult
    return HMMResult(_hit_id, _query_start, _query_end, _evalue, _bitscore)


REAL["HIT"] = _hmm_result


# ---- NRPS/PKS modules (C14): objects put together field by field, so that every label of a counter-model
# (also one outside all tables) can be represented; the methods that run are the real ones
def _domain_hit(_hit_id, _internal_hits=(), _query_start=0, _query_end=30, _evalue=0.0, _bitscore=1.0):
    from antismash.common.hmmscan_refinement import HMMResult
    hit = HMMResult(_hit_id, _query_start, _query_end, _evalue, _bitscore)
    hit._internal_hits = list(_internal_hits)  # pylint: disable=protected-access
    return hit


def _component(_domain, classification, locus):
    from antismash.detection.nrps_pks_domains.module_identification import Component
    comp = object.__new__(Component)
    comp._domain = _domain  # pylint: disable=protected-access
    comp.locus = locus
    comp.classification = classification
    return comp


def _module(_components, _starter, _loader, _modifications, _carrier_protein, _end, _others, _first_in_cds,
            _unambiguous_accept):
    from antismash.detection.nrps_pks_domains.module_identification import Module
    module = Module(first_in_cds=_first_in_cds)
    module._components = list(_components)  # pylint: disable=protected-access
    module._starter, module._loader = _starter, _loader  # pylint: disable=protected-access
    module._modifications = list(_modifications)  # pylint: disable=protected-access
    module._carrier_protein, module._end = _carrier_protein, _end  # pylint: disable=protected-access
    module._others = list(_others)  # pylint: disable=protected-access
    module._unambiguous_accept = _unambiguous_accept  # pylint: disable=protected-access
    return module


for _label in ("DomainHit", "DomainHitSub", "DomainHitWithSubtype", "InnerHit"):
    REAL[_label] = _domain_hit
REAL["Component"] = _component
REAL["Module"] = _module


# ---- regions of a record (C06): a real Record without genes and real Region objects reduced to their location
def _simple_region(location, _children=()):
    from antismash.common.secmet.features.region import Region
    from antismash.common.secmet.features.cdscollection import _SectionedCDSCache
    region = object.__new__(Region)
    region.location = location
    region.type = "region"
    region.notes = []
    region._qualifiers = {}  # pylint: disable=protected-access
    region.created_by_antismash = True
    region._children = list(_children)  # pylint: disable=protected-access
    region._cdses = _SectionedCDSCache()  # pylint: disable=protected-access
    region._parent_record = None  # pylint: disable=protected-access
    region._parent = None  # pylint: disable=protected-access
    region._contig_edge = False  # pylint: disable=protected-access
    return region


def _record_with_regions(_regions, _region_numbering, _verif_length, _record=None):
    from Bio.Seq import Seq
    from antismash.common.secmet import Record
    record = Record(Seq("A" * max(int(_verif_length), 0)))
    regions = list(_regions)
    record._regions = regions  # pylint: disable=protected-access
    # the numbering is keyed by the region objects themselves: rebuilt from the model's (location-keyed) entries
    record._region_numbering = {region: index + 1 for index, region in enumerate(regions)}  # pylint: disable=protected-access
    return record


REAL["SimpleRegion"] = _simple_region
REAL["SimpleCollection"] = _simple_region
REAL["RecordWithRegions"] = _record_with_regions
REAL["SeqRecordWithSeq"] = lambda seq=None: None


# ---- areas and genes (C08): real objects reduced to the fields the verified functions read
def _gene_location_only(location, gene_functions=None):
    from antismash.common.secmet.features import CDSFeature
    cds = object.__new__(CDSFeature)
    cds.location = location
    cds.type = "CDS"
    cds.notes = []
    cds._qualifiers = {}  # pylint: disable=protected-access
    cds.created_by_antismash = False
    cds.locus_tag, cds.gene, cds.protein_id = "gene", None, None
    return cds


def _area_without_children(location, _children=(), _cdses=None):
    from antismash.common.secmet.features.cdscollection import CDSCollection, _SectionedCDSCache
    area = object.__new__(CDSCollection)
    area.location = location
    area.type = "area"
    area.notes = []
    area._qualifiers = {}  # pylint: disable=protected-access
    area.created_by_antismash = True
    area._children = []  # pylint: disable=protected-access
    area._cdses = _SectionedCDSCache()  # pylint: disable=protected-access
    area._parent_record = None  # pylint: disable=protected-access
    area._parent = None  # pylint: disable=protected-access
    area._contig_edge = False  # pylint: disable=protected-access
    return area


REAL["GeneLocationOnly"] = _gene_location_only
REAL["AreaWithoutChildren"] = _area_without_children


def _plain_cache(_features=None, _cached=(), _dirty=False):
    from antismash.common.secmet.features.cdscollection import _CDSCache
    return _CDSCache()


def _sectioned_cache(_features=None, _cached=(), _dirty=False, _pre_origin=None, _cross_origin=None, _post_origin=None):
    from antismash.common.secmet.features.cdscollection import _SectionedCDSCache
    return _SectionedCDSCache()


for _label in ("PreOrigin", "CrossOrigin", "PostOrigin"):
    REAL[_label] = _plain_cache
REAL["SectionedCache"] = _sectioned_cache


# ---- rule text tokens (C02): a token of a given kind, put together field by field
def _token_kind(value):
    from antismash.common.hmm_rule_parser.rule_parser import TokenTypes
    return TokenTypes(value)


def _token_of_kind(token_text, type, aliased):  # pylint: disable=redefined-builtin
    from antismash.common.hmm_rule_parser.rule_parser import Token
    token = object.__new__(Token)
    token.__dict__.update({"token_text": token_text, "type": type, "line_number": 1, "position": 1, "aliased": aliased})
    return token


REAL["TokenKind"] = _token_kind
REAL["TokenOfKind"] = _token_of_kind


def _record_with_genes(_cds_features):
    from Bio.Seq import Seq
    from antismash.common.secmet import Record
    genes = list(_cds_features)
    record = Record(Seq("A" * max([int(gene.location.end) for gene in genes] + [1])))
    record._cds_features = genes  # pylint: disable=protected-access
    return record


REAL["GeneOnOneStretch"] = _gene_location_only
REAL["RecordWithGenes"] = _record_with_genes
REAL["GeneAnywhere"] = _gene_location_only
REAL["RecordWithAnyGenes"] = _record_with_genes
REAL["CL2"] = _cl
