"""Native constructors for the record descriptors used in sidecars (runs under /venv/bin/python)."""
# pylint: disable=import-outside-toplevel


def _fl(start, end, strand):
    from antismash.common.secmet.locations import FeatureLocation
    return FeatureLocation(start, end, strand)


def _cl(parts, operator="join"):
    from antismash.common.secmet.locations import CompoundLocation
    return CompoundLocation(list(parts), operator=operator)


REAL = {
    "FL": _fl,
    "FeatureLocation": _fl,
    "CompoundLocation": _cl,
}
for _lo in range(2, 5):
    for _hi in range(_lo, 6):
        REAL[f"CL[{_lo}..{_hi}]"] = _cl


def _feature(location, type="CDS"):  # pylint: disable=redefined-builtin
    from antismash.common.secmet.features.feature import Feature
    return Feature(location, feature_type=type)


REAL["FeatureWithLocation"] = _feature


def _hmmer_hit(evalue, score):
    from antismash.common.hmmer import HmmerHit
    return HmmerHit(location="[0:3](+)", label="label", locus_tag="tag", domain="dom", evalue=evalue, score=score,
                    identifier="PF00001", description="", protein_start=0, protein_end=1, translation="M")


def _hmmer_results(hits, evalue, score):
    from antismash.common.hmmer import HmmerResults
    return HmmerResults("record", evalue, score, "db", "tool", list(hits))


REAL["HmmerHitScores"] = _hmmer_hit
REAL["HmmerResults"] = _hmmer_results


def _hmm_result(_hit_id, _query_start, _query_end, _evalue, _bitscore):
    from antismash.common.hmmscan_refinement import HMMResult
    return HMMResult(_hit_id, _query_start, _query_end, _evalue, _bitscore)


REAL["HIT"] = _hmm_result
