"""Native constructors for the record descriptors used in sidecars (runs under /venv/bin/python)."""
# pylint: disable=import-outside-toplevel


def _fl(start, end, strand):
    from antismash.common.secmet.locations import FeatureLocation
    return FeatureLocation(start, end, strand)


def _cl(parts, operator="join"):
    from antismash.common.secmet.locations import CompoundLocation
    return CompoundLocation(list(parts), operator=operator)


REAL = {
    "FL": _fl,
    "FeatureLocation": _fl,
    "CompoundLocation": _cl,
}
for _lo in range(2, 5):
    for _hi in range(_lo, 6):
        REAL[f"CL[{_lo}..{_hi}]"] = _cl


def _feature(location, type="CDS"):  # pylint: disable=redefined-builtin
    from antismash.common.secmet.features.feature import Feature
    return Feature(location, feature_type=type)


REAL["FeatureWithLocation"] = _feature
