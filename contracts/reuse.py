"""C11: guards and thresholds of reused results (common/hmmer.py HmmerResults, modules/tta)."""
# pylint: disable=no-self-argument,no-method-argument,missing-function-docstring
from pyvc.dsl import (contract, spec, Int, Bool, Real, Str, Opt, OneOf, Rec, Ref, External, ListOf, SeqOf, SetOf,
                      DictOf, Const, Loop, TupleOf, count, implies, iff, forall, exists)

HMMER_FILE = "antismash/common/hmmer.py"

HIT = Rec("HmmerHit", label="HmmerHitScores", evalue=Real, score=Real)
RESULTS = Rec("HmmerResults", label="HmmerResults", hits=SeqOf(HIT), evalue=Real, score=Real)


@spec
def passes(hit, max_evalue, min_score):
    return hit.score >= min_score and hit.evalue <= max_evalue


@contract(f"{HMMER_FILE}::HmmerResults.refilter", props=["C11"])
class HmmerRefilter:
    """Reused hmmer results trimmed to stricter thresholds: the thresholds recorded afterwards are the ones
    just applied, exactly the hits passing both are kept, in order (any number of hits)."""
    params = {"self": RESULTS, "max_evalue": Real, "min_score": Real}
    raises = {"ValueError": lambda self, max_evalue, min_score: max_evalue > self.evalue or min_score < self.score}
    on_raise = {"refused-refilter-changes-nothing": lambda self, old:
                self.evalue == old.self.evalue and self.score == old.self.score
                and len(self.hits) == len(old.self.hits)}
    ensures = {
        "records-the-thresholds-applied": lambda self, max_evalue, min_score:
            self.evalue == max_evalue and self.score == min_score,
        "every-kept-hit-passes-both-thresholds": lambda self, max_evalue, min_score:
            forall(range(0, len(self.hits)), lambda j: passes(self.hits[j], max_evalue, min_score)),
        "kept-hits-are-old-hits": lambda self, old:
            forall(range(0, len(self.hits)), lambda j: exists(range(0, len(old.self.hits)), lambda m:
                   self.hits[j].evalue == old.self.hits[m].evalue and self.hits[j].score == old.self.hits[m].score)),
        "no-passing-hit-is-lost": lambda self, old, max_evalue, min_score:
            forall(range(0, len(old.self.hits)), lambda m: implies(
                passes(old.self.hits[m], max_evalue, min_score),
                exists(range(0, len(self.hits)), lambda j: self.hits[j].evalue == old.self.hits[m].evalue
                       and self.hits[j].score == old.self.hits[m].score))),
        "nothing-is-duplicated": lambda self, old: len(self.hits) <= len(old.self.hits),
    }


# ---- TTA results ------------------------------------------------------------------------------------
TTA_FILE = "antismash/modules/tta/tta.py"


def _tta_json(schema, record_id, gc_content, saved_threshold, codons):
    return {"TTA codons": [{"start": codon.start, "strand": codon.strand} for codon in codons],
            "schema_version": schema, "record_id": record_id, "gc_content": gc_content, "threshold": saved_threshold}


@contract(f"{TTA_FILE}::TTAResults.from_json", props=["C11"])
class TtaFromJson:
    """Saved TTA results are reused exactly when a fresh run would give the same answer: discarded for
    another schema, or when the old run skipped detection (GC content below the saved threshold) and the
    current threshold would not; the saved codons come back exactly when detection runs at the current threshold."""
    params = {"schema": Int, "record_id": Str, "gc_content": Real, "saved_threshold": Real, "current_threshold": Real,
              "codons": ListOf(Rec("SavedCodon", label="SavedCodon", start=Int, strand=Int), 0, 2), "record": Const(None)}
    ghost_params = ["schema", "record_id", "gc_content", "saved_threshold", "current_threshold", "codons"]
    derived = {"json": _tta_json}
    stubs = {"get_config": External(returns=Rec("Config", label="ConfigTta", tta_threshold=Real), pure=True,
                                    over_contract_params=True,
                                    ensures=lambda result, current_threshold: result.tta_threshold == current_threshold)}

    def requires(codons):
        return all(c.start >= 0 and (c.strand == 1 or c.strand == -1) for c in codons)

    ensures = {
        "discarded-exactly-when-a-rerun-is-needed": lambda result, schema, gc_content, saved_threshold, current_threshold:
            (result is None) == (schema != 2 or (saved_threshold > gc_content and current_threshold <= gc_content)),
        "reused-results-carry-the-saved-content-and-the-current-threshold":
            lambda result, record_id, gc_content, current_threshold:
            implies(result is not None, result.record_id == record_id and result.gc_content == gc_content
                    and result.threshold == current_threshold),
        "codons-come-back-exactly-when-detection-would-run": lambda result, gc_content, current_threshold, codons:
            implies(result is not None,
                    len(result.codon_starts) == (len(codons) if gc_content >= current_threshold else 0)
                    and len(result.features) == len(result.codon_starts)
                    and all(result.codon_starts[k][0] == codons[k].start and result.codon_starts[k][1] == codons[k].strand
                            and result.features[k].location.start == codons[k].start
                            and result.features[k].location.end == codons[k].start + 3
                            for k in range(len(result.codon_starts)))),
    }


# ---- C09: where a TTA codon of a gene is marked -------------------------------------------------------------
from contracts.locations import FL, CL, wf   # noqa: E402

GENE_LOC = Rec("Feature", label="GeneForTta", location=OneOf(FL, CL(2, 2)))
TTA_RESULTS = Rec("TTAResults", label="EmptyTtaResults", codon_starts=Const([]), features=Const([]))


@spec
def nth_base(location, n):
    """the record coordinate of the n-th transcribed base of a gene of one or two exons (parts are stored in
    transcription order: ascending on the forward strand, descending on the reverse strand)"""
    first = location.parts[0]
    size = first.end - first.start
    if n < size:
        return first.start + n if first.strand != -1 else first.end - 1 - n
    second = location.parts[len(location.parts) - 1]
    return second.start + (n - size) if second.strand != -1 else second.end - 1 - (n - size)


@spec
def gene_of_more_than_one_exon(self, feature, offset):
    return len(feature.location.parts) > 1


@contract(f"{TTA_FILE}::TTAResults.new_feature_from_other", props=["C09"])
class TtaMarkerPosition:
    """The marker of the codon at nucleotide offset `offset` of a gene covers exactly the three bases that encode it,
    on the gene's strand. (Open finding C09-F2: for a gene of more than one exon the marker is placed as if the gene
    had no introns - that class is split off and reported, the clause is proved for single-exon genes.)"""
    params = {"self": TTA_RESULTS, "feature": GENE_LOC, "offset": Int}

    def requires(self, feature, offset):
        total = sum(p.end - p.start for p in feature.location.parts)
        return (wf(feature.location) and all(p.strand == feature.location.parts[0].strand and p.strand != 0
                                             for p in feature.location.parts)
                and 0 <= offset and offset + 3 <= total)

    known = {"C09-F2": gene_of_more_than_one_exon}
    ensures = {
        "marker-is-exactly-the-encoding-bases-in-order": lambda feature, offset, result:
            result.location.end == result.location.start + 3
            and result.location.strand == feature.location.parts[0].strand
            and all(nth_base(feature.location, offset + k)
                    == (result.location.start + k if result.location.strand != -1 else result.location.end - 1 - k)
                    for k in range(3)),
        "recorded-once": lambda self: len(self.features) == 1 and len(self.codon_starts) == 1,
    }
