"""C02: pieces of the rule parser that are straight set/list code (hmm_rule_parser/rule_parser.py)."""
# pylint: disable=no-self-argument,no-method-argument,missing-function-docstring
from pyvc.dsl import (contract, spec, Int, Bool, Real, Str, Opt, OneOf, Rec, Ref, External, ListOf, SeqOf, SetOf,
                      DictOf, DictEntries, Const, Loop, implies, iff, forall, exists, forall_str)

FILE = "antismash/common/hmm_rule_parser/rule_parser.py"

KNOWN_RULE = Rec("DetectionRule", label="RuleWithSuperiors", superiors=ListOf(Str, 0, 1))
PARSER = Rec("Parser", label="ParserSuperiors", rules_by_name=DictEntries(Str, KNOWN_RULE, 1, 2),
             _verif_listed=ListOf(Str, 1, 2))


@spec
def listed_ids(self):
    """the comma separated identifiers following the SUPERIORS keyword"""
    return self._verif_listed


@spec
def defined(self, name):
    return any(key == name for key in self.rules_by_name)


@spec
def inherited(self, x):
    """x is a superior of one of the listed rules"""
    return any(key == name and x in self.rules_by_name[key].superiors
               for name in self._verif_listed for key in self.rules_by_name)


@contract(f"{FILE}::Parser._parse_superiors", props=["C02"])
class ParseSuperiors:
    """SUPERIORS are closed transitively (every earlier rule carries its own closed list); a repeated or
    not yet defined superior is rejected. <= 2 listed names, <= 2 earlier rules with <= 1 superior each (unrolled)."""
    params = {"self": PARSER}
    abstract_sort = True   # the alphabetical order of the returned names is not part of the property
    stubs = {"Parser._consume": External(), "Parser._parse_comma_separated_ids": listed_ids}

    def _rejected(self):
        n = len(self._verif_listed)
        return (any(self._verif_listed[i] == self._verif_listed[j] for i in range(n) for j in range(n) if i < j)
                or any(not defined(self, name) for name in self._verif_listed))

    raises = {"ValueError": _rejected}
    ensures = {
        "listed-plus-inherited-superiors": lambda self, result:
            forall_str(lambda x: (x in result) == (x in self._verif_listed or inherited(self, x))),
        "no-duplicates": lambda self, result:
            all(result[i] != result[j] for i in range(len(result)) for j in range(len(result)) if i < j),
    }
