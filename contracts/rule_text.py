"""C02: pieces of the rule parser that are straight set/list code (hmm_rule_parser/rule_parser.py)."""
# pylint: disable=no-self-argument,no-method-argument,missing-function-docstring
from pyvc.dsl import (contract, spec, Int, Bool, Real, Str, Opt, OneOf, Rec, Ref, External, ListOf, SeqOf, SetOf,
                      DictOf, DictEntries, Const, Loop, Recurrence, implies, iff, forall, exists, forall_str)

FILE = "antismash/common/hmm_rule_parser/rule_parser.py"

KNOWN_RULE = Rec("DetectionRule", label="RuleWithSuperiors", superiors=ListOf(Str, 0, 1))
PARSER = Rec("Parser", label="ParserSuperiors", rules_by_name=DictEntries(Str, KNOWN_RULE, 1, 2),
             _verif_listed=ListOf(Str, 1, 2))


@spec
def listed_ids(self):
    """the comma separated identifiers following the SUPERIORS keyword"""
    return self._verif_listed


@spec
def defined(self, name):
    return any(key == name for key in self.rules_by_name)


@spec
def inherited(self, x):
    """x is a superior of one of the listed rules"""
    return any(key == name and x in self.rules_by_name[key].superiors
               for name in self._verif_listed for key in self.rules_by_name)


@contract(f"{FILE}::Parser._parse_superiors", props=["C02"])
class ParseSuperiors:
    """SUPERIORS are closed transitively (every earlier rule carries its own closed list); a repeated or
    not yet defined superior is rejected. <= 2 listed names, <= 2 earlier rules with <= 1 superior each (unrolled)."""
    params = {"self": PARSER}
    abstract_sort = True   # the alphabetical order of the returned names is not part of the property
    stubs = {"Parser._consume": External(), "Parser._parse_comma_separated_ids": listed_ids}

    def _rejected(self):
        n = len(self._verif_listed)
        return (any(self._verif_listed[i] == self._verif_listed[j] for i in range(n) for j in range(n) if i < j)
                or any(not defined(self, name) for name in self._verif_listed))

    raises = {"ValueError": _rejected}
    ensures = {
        "listed-plus-inherited-superiors": lambda self, result:
            forall_str(lambda x: (x in result) == (x in self._verif_listed or inherited(self, x))),
        "no-duplicates": lambda self, result:
            all(result[i] != result[j] for i in range(len(result)) for j in range(len(result)) if i < j),
    }


# ---- which identifiers of a rule text must be known profiles ---------------------------------------------
KIND = Rec("TokenTypes", label="TokenKind", value=Int)
TOKEN = Rec("Token", label="TokenOfKind", token_text=Str, type=KIND, aliased=Bool)


@spec
def is_keyword(token):
    """RULE, DESCRIPTION, CUTOFF, ... EXTENDERS: the structure keywords of a rule (free text excepted)"""
    return token.type.value >= 100 and token.type.value != 107


@spec
def in_conditions_init(tokens):
    return False


@spec
def in_conditions_step(prev, k, tokens):
    """inside a CONDITIONS section after token k: from the keyword CONDITIONS up to the next structure keyword"""
    if tokens[k].type.value == 104:
        return True
    if is_keyword(tokens[k]):
        return False
    return prev


in_conditions_after = Recurrence("in_conditions_after", in_conditions_init, in_conditions_step, Bool)


@spec
def condition_identifier(tokens, k):
    """token k is an identifier inside a CONDITIONS section"""
    return (tokens[k].type.value == 6 and not is_keyword(tokens[k]) and tokens[k].type.value != 104
            and in_conditions_after(k, tokens))


@contract(f"{FILE}::find_condition_identifiers", props=["C02"])
class FindConditionIdentifiers:
    """The identifiers checked against the known profiles are exactly the identifier tokens inside CONDITIONS
    sections, whether written directly or substituted from an alias (any number of tokens)."""
    params = {"tokens": SeqOf(TOKEN)}

    def requires(tokens):
        # the kinds of the real enumeration
        return forall(range(0, len(tokens)), lambda k: (1 <= tokens[k].type.value and tokens[k].type.value <= 15
                                                        and tokens[k].type.value != 5)
                      or (100 <= tokens[k].type.value and tokens[k].type.value <= 112))

    loops = {0: Loop(
        types={"identifiers": SetOf(Str), "in_conditions": Bool, "token": TOKEN},
        invariant={
            "flag-follows-the-sections": lambda in_conditions, tokens, _i: in_conditions == in_conditions_after(_i, tokens),
            "collected-so-far": lambda identifiers, tokens, _i:
                forall_str(lambda x: (x in identifiers) == exists(range(0, _i), lambda k:
                           condition_identifier(tokens, k) and tokens[k].token_text == x)),
        })}
    ensures = {
        "exactly-the-identifiers-inside-conditions-sections": lambda tokens, result:
            forall_str(lambda x: (x in result) == exists(range(0, len(tokens)), lambda k:
                       condition_identifier(tokens, k) and tokens[k].token_text == x)),
    }
