"""C19: region overview layout (outputs/html/area_packing.py)."""
# pylint: disable=no-self-argument,no-method-argument,missing-function-docstring
from pyvc.dsl import (contract, spec, Int, Bool, Real, Str, Opt, OneOf, Rec, Ref, External, ListOf, SeqOf, SetOf,
                      DictOf, Const, Loop, implies, iff, forall, exists)

FILE = "antismash/outputs/html/area_packing.py"

# an area feature as the packer sees it: drawing start/end (for an origin-spanning feature start > end),
# whether it spans the origin, and the maximum coordinate of its location (the record length if it spans)
AREA = Rec("AreaF", label="AreaF", start=Int, end=Int, crosses=Bool, location=Rec("LocEnd", label="LocEnd", end=Int))
ROW = Rec("Row", label="RowSeq", start=Int, end=Int, _contents=SeqOf(AREA))


@spec
def area_ok(a):
    """non-spanning: [start, end) non-empty, location.end == end; spanning: [start, L) + [0, end)"""
    if a.crosses:
        return 0 < a.end and a.end < a.start and a.start < a.location.end
    return 0 <= a.start and a.start < a.end and a.location.end == a.end


@spec
def areas_overlap(a, b):
    """share a base (set-of-bases model of the two extents)"""
    if a.crosses and b.crosses:
        return True
    if a.crosses:
        return b.end > a.start or b.start < a.end
    if b.crosses:
        return a.end > b.start or a.start < b.end
    return a.start < b.end and b.start < a.end


@spec
def crosses_origin_stub(self):
    return self.crosses


@spec
def overlaps_with_stub(self, other):
    return areas_overlap(self, other)


AREA_STUBS = {"AreaF.crosses_origin": crosses_origin_stub, "AreaF.overlaps_with": overlaps_with_stub}


@spec
def row_inv(row):
    """representation invariant of a Row (rows created without a length limit)"""
    cs = row._contents
    n = len(cs)
    return (forall(range(0, n), lambda j: area_ok(cs[j]))
            and forall(range(0, n), lambda j: implies(not cs[j].crosses, cs[j].end + 1 <= row.start))
            and forall(range(0, n), lambda j: implies(cs[j].crosses, row.end == cs[j].start - 1
                                                      and row.start >= cs[j].location.end))
            and implies(row.end == -1, forall(range(0, n), lambda j: not cs[j].crosses))
            and row.end >= -1 and row.start >= 0
            and forall(range(0, n), lambda i: forall(range(0, n), lambda j: implies(
                i < j, not areas_overlap(cs[i], cs[j])))))


@spec
def can_fit_spec(row, area):
    """what the packer needs: adding the area keeps every pair in the row disjoint"""
    return forall(range(0, len(row._contents)), lambda j: not areas_overlap(area, row._contents[j]))


@spec
def spanning_area_checked_against_first_only(self, area):
    return area.crosses and len(self._contents) >= 2


@contract(f"{FILE}::Row.can_fit", props=["C19"])
class RowCanFit:
    variant = True
    params = {"self": ROW, "area": AREA}
    stubs = AREA_STUBS

    def requires(self, area):
        return row_inv(self) and area_ok(area)

    ensures = {
        "fits-only-if-disjoint-from-every-content": lambda self, area, result:
            implies(result, can_fit_spec(self, area)),
        "an-empty-row-takes-anything": lambda self, area, result:
            implies(len(self._contents) == 0 and self.start == 0, result),
    }
    returns = Bool


@contract(f"{FILE}::Row.add", props=["C19"])
class RowAdd:
    variant = True
    params = {"self": ROW, "area": AREA}
    stubs = AREA_STUBS

    def requires(self, area):
        return row_inv(self) and area_ok(area)

    may_raise = {"ValueError": lambda self, area: True}
    ensures = {
        "appended-last-nothing-else-changed": lambda self, area, old:
            len(self._contents) == len(old.self._contents) + 1
            and same_area(self._contents[len(self._contents) - 1], area)
            and forall(range(0, len(old.self._contents)), lambda j: same_area(self._contents[j], old.self._contents[j])),
        "no-overlap-with-any-earlier-content": lambda self, area, old:
            forall(range(0, len(old.self._contents)), lambda j: not areas_overlap(area, old.self._contents[j])),
        "row-invariant-kept": lambda self: row_inv(self),
    }


@spec
def same_area(a, b):
    return (a.start == b.start and a.end == b.end and a.crosses == b.crosses
            and a.location.end == b.location.end)


@spec
def later_spanning_area(areas, length):
    """a spanning area arrives when some row may already hold two areas"""
    return any(areas[k].crosses for k in range(2, len(areas)))


@contract(f"{FILE}::pack", props=["C19"])
class Pack:
    """<= 4 areas, unrolled (complete for that shape); Row.can_fit/Row.add are inlined from the real source."""
    params = {"areas": ListOf(AREA, 0, 4), "length": Const(-1)}
    stubs = AREA_STUBS
    budget_s = 300

    def requires(areas, length):
        return all(area_ok(a) for a in areas)

    ensures = {
        "every-area-in-exactly-one-row": lambda areas, result:
            all(sum(1 for row in result for c in row._contents if c is a) == 1 for a in areas)
            and sum(len(row._contents) for row in result) == len(areas),
        "no-two-areas-of-a-row-overlap": lambda areas, result:
            all(not areas_overlap(row._contents[i], row._contents[j])
                for row in result for i in range(len(row._contents)) for j in range(len(row._contents)) if i < j),
        "no-empty-row": lambda areas, result: all(len(row._contents) >= 1 for row in result),
    }


# ---- adjust_cross_origin_area ------------------------------------------------------------------------
AREA_OBJ = Rec("Area", label="AreaObj", start=Int, end=Int, kind=Const("protocluster"), height=Int,
               neighbouring_start=Int, neighbouring_end=Int, product=Const("p"), prefix=Const(""),
               category=Const(""), tool=Const(""), group=Const(0))
PROTO = Rec("ProtoF", label="ProtoF", start=Int, end=Int, core_start=Int, core_end=Int)
PLAIN = Rec("PlainF", label="PlainF", start=Int, end=Int)


@spec
def feature_spans(self):
    return True


@spec
def proto_pre(area, feature, length):
    """the area as Area.from_feature builds it for an origin-spanning protocluster"""
    upper_core = feature.start <= feature.core_start and feature.core_start < feature.core_end and feature.core_end <= length
    lower_core = 0 <= feature.core_start and feature.core_start < feature.core_end and feature.core_end <= feature.end
    cross_core = (feature.start <= feature.core_start and feature.core_start < length
                  and 0 < feature.core_end and feature.core_end <= feature.end)
    return (0 < feature.end and feature.end < feature.start and feature.start < length
            and (upper_core or lower_core or cross_core)
            and area.start == feature.core_start and area.end == feature.core_end
            and area.neighbouring_start == feature.start and area.neighbouring_end == feature.end)


@spec
def core_in_upper_part_with_small_coordinates(area, feature, region_crosses_origin, length):
    """core entirely before the origin, but core_start + core_end <= record length: the pinned test
    `length - core_start < core_end` takes it for a post-origin core"""
    return (feature.core_start < feature.core_end and feature.start <= feature.core_start
            and feature.core_start + feature.core_end <= length)


@spec
def core_in_lower_part_with_large_coordinates(area, feature, region_crosses_origin, length):
    return (feature.core_start < feature.core_end and feature.core_end <= feature.end
            and feature.core_start + feature.core_end > length)


@contract(f"{FILE}::adjust_cross_origin_area", props=["C19"])
class AdjustCrossOriginProto:
    """Origin-spanning protocluster drawn in an origin-spanning region (one area, post-origin positions
    shifted by the record length) or in a whole-record region (two linked halves split at the origin)."""
    params = {"area": AREA_OBJ, "feature": PROTO, "region_crosses_origin": Bool, "length": Int}
    stubs = {"ProtoF.crosses_origin": feature_spans}

    def requires(area, feature, region_crosses_origin, length):
        return proto_pre(area, feature, length)

    ensures = {
        "one-shifted-area-in-a-spanning-region": lambda area, feature, region_crosses_origin, length, result, old:
            implies(region_crosses_origin,
                    result is None
                    and area.neighbouring_start == feature.start and area.neighbouring_end == feature.end + length
                    and area.start == (feature.core_start if feature.core_start >= feature.start else feature.core_start + length)
                    and area.end == (feature.core_end + length if (feature.core_start > feature.core_end or feature.core_end <= feature.end)
                                     and not (feature.core_start < feature.core_end and feature.core_start >= feature.start)
                                     else feature.core_end)
                    and area.neighbouring_start <= area.start and area.start <= area.end
                    and area.end <= area.neighbouring_end),
        "two-linked-halves-in-a-whole-record-region": lambda area, feature, region_crosses_origin, length, result:
            implies(not region_crosses_origin,
                    result is not None and result.group == area.group and area.group != 0
                    and area.neighbouring_start == feature.start and area.neighbouring_end == length
                    and result.neighbouring_start == 0 and result.neighbouring_end == feature.end
                    and area.neighbouring_start <= area.start and area.start <= area.end and area.end <= area.neighbouring_end
                    and result.neighbouring_start <= result.start and result.start <= result.end
                    and result.end <= result.neighbouring_end),
        "halves-carry-the-core-pieces": lambda area, feature, region_crosses_origin, length, result:
            implies(not region_crosses_origin and result is not None,
                    (area.start == feature.core_start and area.end == length and result.start == 0 and result.end == feature.core_end
                     if feature.core_start > feature.core_end else
                     (area.start == feature.core_start and area.end == feature.core_end and result.start == result.end
                      if feature.core_start >= feature.start else
                      area.start == area.end and result.start == feature.core_start and result.end == feature.core_end))),
    }
