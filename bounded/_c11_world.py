"""Private helper of bounded/C11.py: builds records and module inputs from a JSON-able case and runs
the REAL antismash detection/analysis pipeline (main.run_detection / main.run_module /
main.analyse_record / main.annotate_records / serialiser) with only the external binaries replaced:

  * cluster_prediction.run_hmmsearch     -> scripted hits for the real bgc rule profiles
  * subprocessing.run_hmmscan            -> scripted hits, dispatched on the database file name
  * utils.get_hmm_lengths                -> constant lengths for the databases that are not in the
                                            pinned tree (nrpspksdomains.hmm is empty, transATor absent)
  * domain_identification.get_database_path -> a path inside the scratch database directory
  * a scratch --databases directory with two tiny fake Pfam-A.hmm files (NAME/ACC/TC only)

Nothing here is an oracle; it only produces inputs and observations.
"""
from __future__ import annotations

import logging
import os
import random
from contextlib import ExitStack
from typing import Any, Optional
from unittest import mock

_AM: dict[str, Any] = {}

# modules taking part, in the order of the real pipeline stages
DETECTION = ["antismash.detection.sideloader", "antismash.detection.full_hmmer",
             "antismash.detection.hmm_detection", "antismash.detection.nrps_pks_domains",
             "antismash.detection.cluster_hmmer"]
ANALYSIS = ["antismash.modules.tta"]
ALL_MODULES = DETECTION + ANALYSIS


def am() -> dict[str, Any]:
    """ lazy import of everything used from the code under test """
    if _AM:
        return _AM
    logging.disable(logging.CRITICAL)
    # pylint: disable=import-outside-toplevel
    import importlib
    from Bio.Seq import Seq
    from antismash import main as as_main
    from antismash.common import json as as_json, serialiser, subprocessing, utils, hmmer, pfamdb
    from antismash.common.hmm_rule_parser import cluster_prediction
    from antismash.common.module_results import ModuleResults
    from antismash.common.secmet import Record
    from antismash.common.secmet.features import CDSFeature
    from antismash.common.secmet.locations import CompoundLocation, FeatureLocation
    from antismash.config import build_config, destroy_config, get_config, update_config
    from antismash.detection.nrps_pks_domains import domain_identification
    modules = {name: importlib.import_module(name) for name in ALL_MODULES}
    _AM.update(Seq=Seq, main=as_main, json=as_json, serialiser=serialiser, subprocessing=subprocessing,
               utils=utils, hmmer=hmmer, pfamdb=pfamdb, cluster_prediction=cluster_prediction,
               ModuleResults=ModuleResults, Record=Record, CDSFeature=CDSFeature,
               CompoundLocation=CompoundLocation, FeatureLocation=FeatureLocation,
               build_config=build_config, destroy_config=destroy_config, get_config=get_config,
               update_config=update_config, domain_identification=domain_identification,
               modules=modules, real_get_hmm_lengths=utils.get_hmm_lengths)
    return _AM


# ----------------------------------------------------------------------------------------------
# gene types: what the (mocked) binaries find in a gene
#   rule: hits of the real hmm_detection profiles  (profile name, ...)
#   dom:  NRPS/PKS domains in protein order: (hit_id, [KS subtype, [transATor hit]])
#   motifs: abmotifs hits (real names/lengths of abmotifs.hmm), as (name, domain index it sits in)
#   pfam: Pfam hits (name of the fake Pfam db, start_aa, length)
# ----------------------------------------------------------------------------------------------
GENE_TYPES: dict[str, dict[str, Any]] = {
    "plain": {},
    "pfam_only": {"pfam": [("p450", 5, 60), ("Methyltransf_11", 50, 40)]},
    "pks1": {"rule": ["PKS_KS", "PKS_AT", "PP-binding"],
             "dom": [("PKS_KS", "Modular-KS"), ("PKS_AT",), ("PKS_DH",), ("PKS_KR",), ("PKS_PP",)],
             "motifs": [("PKSI-KS_m3", 0), ("PKSI-AT-M_m3", 1)], "pfam": [("ketoacyl-synt", 10, 100)]},
    "pks_iter": {"rule": ["PKS_KS", "PKS_AT"],
                 "dom": [("PKS_KS", "Iterative-KS"), ("PKS_AT",), ("ACP",), ("Thioesterase",)]},
    "pks_head": {"rule": ["PKS_KS", "PKS_AT"], "dom": [("PKS_KS", "Hybrid-KS"), ("PKS_AT",)]},
    "pks_tail": {"rule": ["PP-binding"], "dom": [("PKS_KR",), ("PKS_PP",), ("Thioesterase",)]},
    "pks_2mod": {"rule": ["PKS_KS", "PKS_AT", "PP-binding"],
                 "dom": [("PKS_Docking_Nterm",), ("PKS_KS", "Modular-KS"), ("PKS_AT",), ("PKS_PP",),
                         ("PKS_KS", "Enediyne-KS"), ("PKS_AT",), ("PKS_ER",), ("cMT",), ("PKS_PP",), ("TD",)]},
    "transat": {"rule": ["PKS_KS", "ATd"],
                "dom": [("PKS_KS", "Trans-AT-KS", "ST_2"), ("PKS_DH",), ("PKS_PP",), ("PKS_KR",),
                        ("Trans-AT_docking",)]},
    "transat_head": {"rule": ["PKS_KS", "ATd"], "dom": [("PKS_KS", "Trans-AT-KS", "Clade_12")]},
    "transat_tail": {"rule": ["PP-binding"], "dom": [("ACP",), ("PKS_KR",)]},
    "nrps1": {"rule": ["Condensation", "AMP-binding", "PP-binding"],
              "dom": [("Condensation_LCL",), ("AMP-binding",), ("PCP",), ("Epimerization",)],
              "motifs": [("C2_LCL_024-062", 0), ("NRPS-A_a3", 1), ("PCP_mC", 2)],
              "pfam": [("AMP-binding", 120, 100), ("PP-binding", 230, 60)]},
    "nrps2": {"rule": ["Condensation", "AMP-binding", "PP-binding"],
              "dom": [("NRPS-COM_Nterm",), ("Condensation_Starter",), ("AMP-binding",), ("nMT",), ("PCP",),
                      ("Condensation_DCL",), ("A-OX",), ("PCP",), ("Thioesterase",)]},
    "nrps_head": {"rule": ["Condensation", "AMP-binding"], "dom": [("Cglyc",), ("AMP-binding",)]},
    "nrps_tail": {"rule": ["PP-binding"], "dom": [("PCP",), ("TD",)]},
    "nrpslike": {"rule": ["AMP-binding", "PP-binding"], "dom": [("AMP-binding",), ("PP-binding",), ("NAD_binding_4",)]},
    "cal": {"rule": ["PP-binding"], "dom": [("CAL_domain",), ("ACP",)]},
    "doublecp": {"rule": ["PKS_KS", "PKS_AT", "PP-binding"],
                 "dom": [("PKS_KS",), ("PKS_AT",), ("ACP",), ("ACP",), ("LPG_synthase_C",), ("Beta_elim_lyase",)]},
    "hybrid": {"rule": ["PKS_KS", "PKS_AT", "Condensation", "AMP-binding", "PP-binding"],
               "dom": [("PKS_KS", "Hybrid-KS"), ("PKS_AT",), ("PKS_PP",), ("Condensation_Dual",), ("AMP-binding",),
                       ("PCP",)]},
    "lone_dom": {"dom": [("Aminotran_3",)]},
    "lanc2": {"rule": ["LANC_like", "DUF4135"], "pfam": [("LANC_like", 10, 90)]},
    "lanB": {"rule": ["Lant_dehydr_N", "Lant_dehydr_C"]},
    "lanC": {"rule": ["LANC_like"]},
    "t3pks": {"rule": ["Chal_sti_synt_C", "Chal_sti_synt_N"]},
    "ectoine": {"rule": ["ectoine_synt"]},
    "cdps": {"rule": ["CDPS"]},
    "melanin": {"rule": ["melC"]},
    "hrt2": {"rule": ["hr-t2pks-ksa", "ketoacyl-synt"]},
    "rsam": {"rule": ["PF04055"]},
    "t2ks": {"rule": ["t2ks", "ketoacyl-synt"]},
    "t2clf": {"rule": ["t2clf", "PP-binding"]},
    "mycosporine": {"rule": ["DHQ_synthase", "Methyltransf_3", "ATP-grasp_3"]},
    "myc_ext": {"rule": ["Dala_Dala_lig_C"]},
    "weakhit": {"rule": ["p450", "Glycos_transf_1"]},    # hits that define no protocluster on their own
}

PFAM_DB = [("p450", "PF00067.25", 20.0), ("Methyltransf_11", "PF08241.15", 21.0),
           ("ketoacyl-synt", "PF00109.29", 25.5), ("AMP-binding", "PF00501.31", 22.0),
           ("PP-binding", "PF00550.28", 23.3), ("LANC_like", "PF05147.16", 27.0)]

BITSCORES = [512.3, 275.0, 1234.5678, 300.25, 999.9, 251.0000001, 4321.0]
EVALUES = [1e-180, 3.2e-45, 7.7e-12, 5e-324, 0.0, 1.5e-07, 2.2250738585072014e-308]
DOM_LEN = 100      # aa, every scripted NRPS/PKS domain (and the constant HMM length)
DOM_GAP = 12
DOM_START = 8


def gene_aa(gtype: str) -> int:
    """ amino acids needed by a gene of this type """
    info = GENE_TYPES[gtype]
    need = 100
    if info.get("dom"):
        need = max(need, DOM_START + len(info["dom"]) * (DOM_LEN + DOM_GAP) + 5)
    for _name, start, length in info.get("pfam", []):
        need = max(need, start + length + 5)
    return need


def gene_len(gtype: str) -> int:
    """ nucleotides of a gene of this type (including the stop codon) """
    return 3 * (gene_aa(gtype) + 1)


def dom_coords(index: int) -> tuple[int, int]:
    start = DOM_START + index * (DOM_LEN + DOM_GAP)
    return start, start + DOM_LEN


# ----------------------------------------------------------------------------------------------
# records
# ----------------------------------------------------------------------------------------------
_SEQ_CACHE: dict[tuple[int, int], str] = {}
MAX_L = 160000


def sequence(seed: int, gc_percent: int, length: int) -> str:
    key = (seed, gc_percent)
    if key not in _SEQ_CACHE:
        rng = random.Random(seed * 7919 + gc_percent)
        gc = gc_percent / 100.0
        _SEQ_CACHE[key] = "".join(rng.choices("GCAT", weights=[gc / 2, gc / 2, (1 - gc) / 2, (1 - gc) / 2], k=MAX_L))
    return _SEQ_CACHE[key][:length]


def gene_location(start: int, strand: int, gtype: str, length: int, circular: bool) -> Any:
    mods = am()
    floc, cloc = mods["FeatureLocation"], mods["CompoundLocation"]
    end = start + gene_len(gtype)
    if end <= length:
        return floc(start, end, strand)
    assert circular, "gene runs off a linear record"
    parts = [floc(start, length, strand), floc(0, end - length, strand)]
    if strand == -1:
        parts.reverse()
    return cloc(parts)


def build_record(spec: dict, record_id: Optional[str] = None) -> Any:
    """ spec: {"L", "circ", "sd", "gc", "genes": [[start, strand, type], ...]} """
    mods = am()
    length = spec["L"]
    rid = record_id or spec.get("id", "REC0001")
    record = mods["Record"](mods["Seq"](sequence(spec.get("sd", 1), spec.get("gc", 70), length)), id=rid, name=rid,
                            description="generated record", annotations={"molecule_type": "DNA"})
    if spec.get("circ"):
        record.annotations["topology"] = "circular"
    else:
        record.annotations["topology"] = "linear"
    for index, (start, strand, gtype) in enumerate(spec["genes"]):
        location = gene_location(start, strand, gtype, length, bool(spec.get("circ")))
        aa_len = gene_aa(gtype)
        translation = "M" + "".join("ACDEFGHIKLNPQRSTVWY"[(index + k) % 19] for k in range(aa_len - 1))
        record.add_cds_feature(mods["CDSFeature"](location, translation=translation, locus_tag=f"g{index}",
                                                   product=f"{gtype} protein"))
    return record


# ----------------------------------------------------------------------------------------------
# scripted binaries
# ----------------------------------------------------------------------------------------------
class _Obj:
    def __init__(self, **kwargs: Any) -> None:
        self.__dict__.update(kwargs)


class _ConstLengths(dict):
    def __missing__(self, key: str) -> int:
        return DOM_LEN


_LENGTHS: dict[str, dict] = {}
_PARSER: list = []


def _real_lengths(path: str) -> dict:
    """ the real lengths of a database that exists in the tree (read once per process) """
    if path not in _LENGTHS:
        _LENGTHS[path] = am()["real_get_hmm_lengths"](path)
    return dict(_LENGTHS[path])


class World:
    """ one scratch world: the fake databases + the mocks scripted from a record spec """
    def __init__(self, scratch: str) -> None:
        self.scratch = scratch
        self.calls = {"hmmsearch": 0, "hmmscan": 0}
        self.spec: dict = {}
        self.dbdir = os.path.join(scratch, "databases")
        for version in ("35.0", "36.0"):
            os.makedirs(os.path.join(self.dbdir, "pfam", version), exist_ok=True)
            with open(os.path.join(self.dbdir, "pfam", version, "Pfam-A.hmm"), "w", encoding="utf-8") as handle:
                for name, acc, cutoff in PFAM_DB:
                    handle.write(f"HMMER3/f [3.1b2 | February 2015]\nNAME  {name}\nACC   {acc}\n"
                                 f"DESC  {name} family\nLENG  100\nTC    {cutoff} {cutoff};\n//\n")
        self.transator = os.path.join(self.dbdir, "nrps_pks", "transATor", "1.0", "transATor.hmm")

    # -- the gene table of the current record spec -------------------------------------------
    def _genes(self) -> dict[str, tuple[int, str]]:
        return {f"g{i}": (i, gtype) for i, (_s, _d, gtype) in enumerate(self.spec["genes"])}

    @staticmethod
    def _names_in_fasta(fasta: str) -> list[str]:
        return [line[1:].split()[0].split("|")[0] for line in fasta.splitlines() if line.startswith(">")]

    # -- hmmsearch (hmm_detection) ------------------------------------------------------------
    def hmmsearch(self, _db: str, fasta: str, use_tempfile: bool = False) -> list:  # pylint: disable=unused-argument
        self.calls["hmmsearch"] += 1
        by_profile: dict[str, list] = {}
        present = set(self._names_in_fasta(fasta))
        for name, (index, gtype) in self._genes().items():
            if name not in present:
                continue
            for k, profile in enumerate(GENE_TYPES[gtype].get("rule", [])):
                shape = (index * 3 + k)
                hsp = _Obj(query_id=profile, hit_id=name, bitscore=BITSCORES[shape % len(BITSCORES)],
                           evalue=EVALUES[shape % len(EVALUES)], hit_start=10 + 60 * k, hit_end=60 + 60 * k,
                           query_start=1, query_end=50)
                by_profile.setdefault(profile, []).append(hsp)
        return [_Obj(accession=profile, id=profile, hsps=hsps) for profile, hsps in by_profile.items()]

    # -- hmmscan (nrps_pks_domains, hmmer) -----------------------------------------------------
    def hmmscan(self, target: str, fasta: str, opts: Any = None, results_file: Any = None) -> list:  # pylint: disable=unused-argument
        self.calls["hmmscan"] += 1
        base = os.path.basename(target)
        names = self._names_in_fasta(fasta)
        genes = self._genes()
        results = []
        for name in names:
            if name not in genes:
                continue
            index, gtype = genes[name]
            info = GENE_TYPES[gtype]
            hsps = []
            if base == "nrpspksdomains.hmm":
                for k, dom in enumerate(info.get("dom", [])):
                    start, end = dom_coords(k)
                    hsps.append(self._hsp(name, dom[0], start, end, index * 5 + k))
            elif base == "ksdomains.hmm":
                for k, dom in enumerate(info.get("dom", [])):
                    if dom[0] == "PKS_KS" and len(dom) > 1:
                        start, end = dom_coords(k)
                        hsps.append(self._hsp(name, dom[1], start + 2, end - 2, index * 5 + k + 1))
            elif base == "transATor.hmm":
                for k, dom in enumerate(info.get("dom", [])):
                    if dom[0] == "PKS_KS" and len(dom) > 2:
                        start, end = dom_coords(k)
                        hsps.append(self._hsp(name, dom[2], start + 4, end - 4, index * 5 + k + 2))
            elif base == "abmotifs.hmm":
                lengths = _real_lengths(target)
                for k, (motif, dom_index) in enumerate(info.get("motifs", [])):
                    start, _ = dom_coords(dom_index)
                    hsps.append(self._hsp(name, motif, start + 20, start + 20 + lengths[motif], index * 5 + k + 3))
            elif base == "Pfam-A.hmm":
                for k, (pfam, start, length) in enumerate(info.get("pfam", [])):
                    hsp = self._hsp(name, pfam, start, start + length, index * 5 + k + 4)
                    hsp.hit_description = f"{pfam} family"
                    hsps.append(hsp)
            else:
                raise AssertionError(f"unexpected hmmscan database {target}")
            if hsps:
                results.append(_Obj(id=name, hsps=hsps))
        return results

    @staticmethod
    def _hsp(gene: str, hit: str, start: int, end: int, shape: int) -> _Obj:
        return _Obj(query_id=gene, hit_id=hit, query_start=start, query_end=end,
                    evalue=EVALUES[shape % len(EVALUES)] or 1e-300, bitscore=BITSCORES[shape % len(BITSCORES)],
                    hit_description="")

    def hmm_lengths(self, path: str) -> dict:
        if os.path.basename(path) == "abmotifs.hmm":
            return _real_lengths(path)
        return _ConstLengths()

    def patches(self) -> ExitStack:
        mods = am()
        stack = ExitStack()
        stack.enter_context(mock.patch.object(mods["cluster_prediction"], "run_hmmsearch", self.hmmsearch))
        stack.enter_context(mock.patch.object(mods["subprocessing"], "run_hmmscan", self.hmmscan))
        stack.enter_context(mock.patch.object(mods["utils"], "get_hmm_lengths", self.hmm_lengths))
        stack.enter_context(mock.patch.object(mods["domain_identification"], "get_database_path",
                                              lambda _sub, _name: self.transator))
        return stack

    # -- options --------------------------------------------------------------------------------
    def options(self, settings: dict) -> Any:
        """ settings: strictness, tta_threshold (float), sideload files/simple/cds/pad, taxon, pfam version,
            fungal multipliers, limit_to_rules """
        mods = am()
        args = ["--databases", self.dbdir, "--minimal", "--enable-tta"]
        if not settings.get("bare"):
            args += ["--fullhmmer", "--clusterhmmer"]
        args += ["--fullhmmer-pfamdb-version", settings.get("pfam", "35.0"),
                "--clusterhmmer-pfamdb-version", settings.get("pfam", "35.0"),
                "--hmmdetection-strictness", settings.get("strictness", "relaxed"),
                "--tta-threshold", repr(float(settings.get("tta_threshold", 0.65))),
                "--taxon", settings.get("taxon", "bacteria")]
        if settings.get("sideload") and not settings.get("bare"):
            args += ["--sideload", ",".join(settings["sideload"])]
        if settings.get("sideload_simple") and not settings.get("bare"):
            args += ["--sideload-simple", settings["sideload_simple"]]
        if settings.get("sideload_cds") and not settings.get("bare"):
            args += ["--sideload-by-cds", ",".join(settings["sideload_cds"]),
                     "--sideload-size-by-cds", str(settings.get("sideload_pad", 2000))]
        if settings.get("limit_rules"):
            args += ["--hmmdetection-limit-to-rule-names", ",".join(settings["limit_rules"])]
        if "fungal_cutoff" in settings:
            args += ["--hmmdetection-fungal-cutoff-multiplier", repr(float(settings["fungal_cutoff"]))]
        if "fungal_neighbourhood" in settings:
            args += ["--hmmdetection-fungal-neighbourhood-multiplier", repr(float(settings["fungal_neighbourhood"]))]
        mods["destroy_config"]()
        if not _PARSER:
            from antismash.config.args import build_parser  # pylint: disable=import-outside-toplevel
            _PARSER.append(build_parser(from_config_file=True, modules=mods["main"].get_all_modules()))
        options = mods["build_config"](args, parser=_PARSER[0], isolated=True)
        # as main._get_all_enabled_modules does, restricted to the modules taking part
        options.all_enabled_modules = [mods["modules"][name] for name in ALL_MODULES
                                       if mods["modules"][name].is_enabled(options)]
        return options


# ----------------------------------------------------------------------------------------------
# one pipeline run, mirroring main._run_antismash between read_data and write_outputs
# ----------------------------------------------------------------------------------------------
def run_pipeline(record: Any, options: Any, previous: dict) -> dict:
    """ runs detection + analysis on the record; previous: module name -> JSON (reuse) ; returns the
        module_results dict (name -> ModuleResults) """
    mods = am()
    module_results: dict = dict(previous)
    mods["main"].run_detection(record, options, module_results)
    if record.get_regions():
        mods["main"].analyse_record(record, options, [mods["modules"][name] for name in ANALYSIS], module_results)
    return module_results


def results_json(module_results: dict) -> dict[str, str]:
    mods = am()
    out = {}
    for name, res in module_results.items():
        if isinstance(res, mods["ModuleResults"]):
            out[name] = mods["json"].dumps(res.to_json())
    return out


def annotate(record: Any, module_results: dict) -> None:
    mods = am()
    holder = mods["serialiser"].AntismashResults("input.gbk", [record], [module_results], "8.dev")
    mods["main"].annotate_records(holder)


def dump_record(record: Any) -> dict[str, list]:
    """ canonical, order-insensitive (per feature type) description of everything annotated on the record """
    by_type: dict[str, list] = {}
    for feature in record.to_biopython().features:
        quals = sorted((key, [str(v) for v in vals] if isinstance(vals, (list, tuple)) else [str(vals)])
                       for key, vals in feature.qualifiers.items())
        by_type.setdefault(feature.type, []).append([str(feature.location), quals])
    for entries in by_type.values():
        entries.sort(key=repr)
    return by_type
