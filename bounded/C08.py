"""Bounded stand-in for C08: genes belong to exactly the areas that contain them, whatever the
build order.

Everything is run on REAL objects (Record, CDSFeature, Protocluster, SubRegion and the candidate
clusters / regions the record creates itself).  The oracle is a set-of-bases model: a location is
the set of its bases (bit mask), "contained" is the subset relation, "overlapping" is a non-empty
intersection.  No antismash function is used by the oracle.

Case formats (JSON-able, sufficient for `replay`):

  lookup:  {"fn": "lookup", "L": 30, "circ": bool, "genes": [[s, e, strand], ...],
            "q": [s, e], "ov": bool}
           genes are listed in the order they are added; s >= e denotes an origin-spanning
           location [s:L)+[0:e) (same convention for the query q).  A gene may carry a 4th element,
           its exons [[s1, e1], [s2, e2], ...] in the order they are met walking along the record
           from s to e (multi-exon genes; the bases between exons do not belong to the gene).
  build:   {"fn": "build", "L": 30, "circ": bool, "genes": [[s, e, strand], ...],
            "areas": [["p", [cs, ce], [s, e], product] | ["s", [s, e]], ...],
            "slots": [k, ...], "late": m (optional, default 0)}
           the area-side operations are, in order: add each area (add_protocluster /
           add_subregion) except the last `late` ones, create_candidate_clusters, create_regions,
           then the `late` areas (areas added inside existing regions); gene i is added immediately
           before area-side operation number slots[i] (slots[i] == number of operations: after all).
           Genes carry CORE gene functions according to `_annotation` (a fixed function of their
           coordinates), so that protocluster definition genes can be checked.

The known-finding classes C08-F1/F2/F4 are delimited with `pinned_lookup`, a model of the lookup
as it is in /repo now.  C08-F3 (multi-part with_overlapping lookups) and C08-F5 (region window of
`_link_cds_to_parent`) are repaired in /repo and have no class any more: a recurrence is reported.
"""
from __future__ import annotations

import itertools
from typing import Any, Dict, Iterable, List, Optional, Sequence, Tuple

from bounded._c05_geom import (
    arc_mask,
    components,
    describe_exception,
    is_contiguous,
    location_mask,
    location_parts,
    make_location,
    make_protocluster,
    make_record,
    make_subregion,
    spans_origin,
)

RULE = ("lookup: every layout of 1..k genes with end points on a grid of 7 positions of a 30-base "
        "record (all nested / identical-start / identical-coordinate(opposite strand) / both-strand "
        "combinations; on rings additionally 0..2 origin-spanning genes) x every simple and "
        "origin-spanning query with end points on the 13 grid and half-grid positions x both flags; "
        "non-trivial = at least 2 genes and at least one gene qualifies. "
        "build: gene layouts x a pool of 1-2 area configurations (protoclusters with cores, "
        "subregions; disjoint, overlapping, touching, identical, origin-spanning) x the positions at "
        "which each gene is added relative to add_protocluster/add_subregion/"
        "create_candidate_clusters/create_regions; non-trivial = some gene lies inside some area. "
        "distinct = distinct (layout, query, flag) resp. (layout, areas, slots).")
EXHAUSTIVE = {"quick": True, "thorough": False}

LENGTH = 30
STEP = 5
GRID = list(range(0, LENGTH + 1, STEP))                       # 0,5,...,30
QUERY_POSITIONS = sorted(set(GRID) | {p + 2 for p in GRID if p + 2 < LENGTH})

LOOKUP_CLAUSES = ("within-exact", "overlapping-exact", "result-in-location-order")
BUILD_CLAUSES = ("area-genes-exact", "gene-region-link", "definition-genes-exact",
                 "build-order-independent")
NO_EXC = "no-unexpected-exception"


# ---------------------------------------------------------------------------------------------
# the families
# ---------------------------------------------------------------------------------------------
def _strand(start: int, end: int) -> int:
    return 1 if ((start + end) // STEP) % 2 == 0 else -1


def _exons(gene: Sequence[Any], length: int) -> List[List[int]]:
    """The exons of a gene in walking order (from its start, across the origin if it spans it)."""
    if len(gene) > 3 and gene[3]:
        return [list(exon) for exon in gene[3]]
    if gene[0] < gene[1]:
        return [[gene[0], gene[1]]]
    return [[gene[0], length], [0, gene[1]]]


def _gene_mask(gene: Sequence[Any], length: int) -> int:
    mask = 0
    for start, end in _exons(gene, length):
        mask |= ((1 << (end - start)) - 1) << start
    return mask


def _gene_location(gene: Sequence[Any], length: int) -> Any:
    """The real location of a gene: exons in biological order (reversed on the reverse strand)."""
    from antismash.common.secmet.locations import CompoundLocation, FeatureLocation
    parts = [FeatureLocation(start, end, gene[2]) for start, end in _exons(gene, length)]
    if gene[2] == -1:
        parts.reverse()
    return parts[0] if len(parts) == 1 else CompoundLocation(parts)


def _make_gene(name: str, gene: Sequence[Any], length: int, products: Sequence[str] = ()) -> Any:
    from antismash.common.secmet.features import CDSFeature
    from antismash.common.secmet.qualifiers.gene_functions import GeneFunction
    feature = CDSFeature(_gene_location(gene, length), locus_tag=name, translation="A")
    for product in products:
        feature.gene_functions.add(GeneFunction.CORE, tool="bounded", description="core", product=product)
    return feature


def _multi_exon_genes() -> List[List[Any]]:
    """Genes with an intron: over the origin with two exons before it or two after it (both
    strands: on the reverse strand the exons are listed in descending order), one with the intron
    at the origin itself, and two that do not span the origin."""
    shapes = [
        [15, 5, [[15, 20], [25, 30], [0, 5]]],        # two exons before the origin
        [10, 10, [[10, 15], [20, 30], [0, 10]]],
        [25, 15, [[25, 30], [0, 5], [10, 15]]],       # two exons after the origin
        [20, 10, [[20, 25], [0, 10]]],                # the intron lies across the origin
        [5, 20, [[5, 10], [15, 20]]],                 # plain two-exon genes
        [0, 25, [[0, 5], [10, 15], [20, 25]]],
    ]
    return [[start, end, strand, exons] for start, end, exons in shapes for strand in (1, -1)]


def _simple_genes(limit: int = LENGTH) -> List[List[int]]:
    return [[a, b, _strand(a, b)] for a in GRID for b in GRID if a < b <= limit]


def _crossing_genes() -> List[List[int]]:
    return [[a, b, _strand(a, b)] for a in GRID for b in GRID if 0 < b < a < LENGTH]


def _with_twins(layout: Sequence[List[int]]) -> Iterable[List[List[int]]]:
    """The layout itself, and the layouts where one gene gets a twin with identical coordinates
    on the opposite strand (the twin is added after, and once before, its original)."""
    yield [list(g) for g in layout]
    for index, gene in enumerate(layout):
        twin = [gene[0], gene[1], -gene[2]]
        yield [list(g) for g in layout] + [twin]
        if index == 0:
            yield [twin] + [list(g) for g in layout]


def _lookup_layouts(tier: str) -> List[Tuple[bool, List[List[int]]]]:
    """(circular, genes) for the lookup family."""
    quick = tier == "quick"
    simple = _simple_genes()
    small = _simple_genes(limit=20)
    crossing = _crossing_genes()
    layouts: List[Tuple[bool, List[List[int]]]] = []

    def add(circular: bool, genes: Iterable[Sequence[int]]) -> None:
        layouts.append((circular, [list(g) for g in genes]))

    # lines: every layout of 1..3 (thorough: 4) grid genes, plus larger ones from the left part
    for size in range(1, (3 if quick else 4) + 1):
        for combo in itertools.combinations(simple, size):
            add(False, combo)
    for combo in itertools.combinations(small, 4 if quick else 5):
        add(False, combo)
    # identical coordinates on both strands
    for size in (1, 2):
        for combo in itertools.combinations(simple if size == 1 else small, size):
            for layout in list(_with_twins(combo))[1:]:
                add(False, layout)
    # rings without / with one origin-spanning gene
    for gene in simple:
        add(True, [gene])
    for cross in crossing:
        add(True, [cross])
        add(True, [cross, [cross[0], cross[1], -cross[2]]])              # opposite-strand twin
        for gene in simple:
            add(True, [gene, cross])
            add(True, [cross, gene])                                     # the other insertion order
    for size in ((2,) if quick else (2, 3)):
        for combo in itertools.combinations(small if quick else simple, size):
            add(True, combo)
            for cross in crossing:
                add(True, list(combo) + [cross])
    # multi-exon genes (an origin-spanning gene with several exons before the origin sorts by the
    # smallest start / largest end of those exons, whatever the order they are listed in)
    tiny = _simple_genes(limit=15)
    for multi in _multi_exon_genes():
        add(True, [multi])
        for gene in simple:
            add(True, [gene, multi])
        for combo in itertools.combinations(tiny if quick else small, 2):
            add(True, list(combo) + [multi])
            if not quick:
                add(True, [multi] + list(combo))
        if not spans_origin(multi):
            add(False, [multi])
            for gene in simple:
                add(False, [multi, gene])
    # two nested / overlapping origin-spanning genes
    for first, second in itertools.combinations(crossing, 2):
        add(True, [first, second])
        for size in ((1,) if quick else (1, 2)):
            for combo in itertools.combinations(small[::3] if quick else small, size):
                add(True, list(combo) + [first, second])
    return layouts


def _queries(circular: bool) -> List[List[int]]:
    out = [[a, b] for a in QUERY_POSITIONS for b in QUERY_POSITIONS if a < b]
    if circular:
        out.extend([a, b] for a in QUERY_POSITIONS for b in QUERY_POSITIONS if 0 < b < a < LENGTH)
    return out


def _annotation(gene: Sequence[int]) -> List[str]:
    """CORE products carried by a gene: a fixed function of its coordinates that yields all of
    'none', 'pa', 'pb', 'pa+pb' inside and outside the cores used below."""
    start, end = gene[0], gene[1]
    if start >= end:       # origin-spanning genes: both products forward, only 'pb' on the reverse strand
        return ["pa", "pb"] if gene[2] == 1 else ["pb"]
    products = []
    if ((start + end) // STEP) % 2 == 1:
        products.append("pa")
    if (end // STEP) % 2 == 0:
        products.append("pb")
    return products


AREA_POOL_LINEAR = [
    [["p", [10, 15], [5, 20], "pa"]],
    [["p", [10, 20], [10, 20], "pb"]],
    [["s", [5, 15]]],
    [["s", [0, 30]]],
    [["s", [0, 10]]],
    [["p", [10, 15], [5, 20], "pa"], ["p", [15, 25], [10, 30], "pb"]],       # neighbouring
    [["p", [0, 10], [0, 15], "pa"], ["p", [20, 25], [20, 30], "pb"]],        # disjoint, contig edges
    [["p", [10, 15], [5, 20], "pa"], ["s", [15, 30]]],                       # overlap proto/sub
    [["s", [5, 15]], ["s", [15, 30]]],                                       # touching, no shared base
    [["p", [5, 15], [5, 20], "pa"], ["p", [10, 20], [5, 20], "pb"]],         # same extent, cores overlap
    [["p", [5, 15], [0, 20], "pa"], ["p", [5, 15], [0, 20], "pb"]],          # identical, may share genes
    [["s", [5, 25]], ["p", [10, 15], [10, 20], "pa"]],                       # protocluster inside subregion
    [["p", [15, 25], [10, 30], "pb"], ["p", [10, 15], [5, 20], "pa"]],       # added in reverse order
    [["s", [0, 5]], ["s", [5, 15]], ["s", [15, 30]]],                        # three touching sections
]
AREA_POOL_CIRCULAR = [
    [["p", [25, 5], [20, 10], "pa"]],
    [["s", [25, 10]]],
    [["p", [10, 15], [5, 20], "pb"]],
    [["p", [0, 5], [25, 10], "pa"]],                                          # simple core, spanning extent
    [["p", [25, 5], [20, 10], "pa"], ["p", [10, 15], [5, 15], "pb"]],        # overlap across extents
    [["p", [0, 5], [25, 10], "pa"], ["p", [10, 15], [10, 20], "pb"]],        # touching only
    [["s", [25, 10]], ["p", [10, 15], [5, 20], "pb"]],
    [["p", [25, 5], [20, 10], "pa"], ["s", [12, 18]]],                        # disjoint
    [["p", [25, 5], [20, 10], "pa"], ["p", [25, 5], [20, 10], "pb"]],        # identical origin-spanning
    [["s", [20, 25]], ["s", [25, 5]]],                                        # touching at 25
    [["p", [20, 25], [15, 30], "pa"], ["p", [0, 5], [0, 10], "pb"]],         # meet only at the origin: no shared base
    [["p", [25, 5], [20, 10], "pb"]],                                         # origin-spanning core, product pb
    [["p", [20, 10], [15, 10], "pa"]],                                        # wide origin-spanning core
    [["p", [20, 10], [20, 10], "pb"], ["s", [12, 18]]],                      # core == extent, spanning
    [["s", [25, 30]], ["s", [0, 5]], ["s", [10, 20]]],                       # contact only across the origin, 3 sections
    [["s", [25, 5]], ["s", [5, 10]], ["s", [15, 20]]],                       # spanning + touching + apart
    [["p", [25, 30], [20, 30], "pa"], ["p", [0, 5], [0, 10], "pb"], ["s", [10, 15]]],
    # a smaller area wholly ahead of the origin inside an origin-spanning one: a child that does not span the
    # origin in a region that does (its genes are filed under the region's pre-origin section; seed C08-11)
    [["s", [15, 10]], ["s", [15, 30]]],
    [["s", [15, 10]], ["s", [20, 25]]],
    [["p", [25, 5], [15, 10], "pa"], ["p", [20, 25], [15, 30], "pb"]],
]
# (areas, number of trailing areas that are added AFTER create_regions, inside an existing region)
LATE_POOL_LINEAR = [
    ([["s", [5, 25]], ["s", [10, 15]]], 1),
    ([["p", [10, 15], [5, 20], "pa"], ["p", [10, 15], [10, 15], "pb"]], 1),
    ([["s", [5, 15]], ["s", [15, 30]], ["s", [15, 20]]], 1),
    ([["p", [5, 15], [0, 20], "pa"], ["s", [0, 10]], ["p", [5, 10], [5, 15], "pb"]], 2),
]
LATE_POOL_CIRCULAR = [
    ([["s", [25, 10]], ["s", [0, 5]]], 1),
    ([["s", [20, 10]], ["s", [25, 5]]], 1),
    ([["p", [25, 5], [20, 10], "pa"], ["p", [25, 5], [25, 5], "pb"]], 1),
    ([["p", [10, 15], [5, 20], "pb"], ["s", [20, 5]], ["s", [25, 5]]], 1),
]


def _slot_vectors(genes: int, operations: int, tier: str) -> List[List[int]]:
    slots = range(operations + 1)
    if genes <= 2 or (genes == 3 and tier != "quick"):
        return [list(v) for v in itertools.product(slots, repeat=genes)]
    # larger layouts: every "all genes at the same point" history, and every history in which
    # each gene is added either before everything or after everything
    vectors = {tuple([s] * genes) for s in slots}
    for pattern in itertools.product((0, operations), repeat=genes):
        vectors.add(tuple(pattern))
    return [list(v) for v in sorted(vectors)]


def _build_layouts(tier: str) -> List[Tuple[bool, List[List[int]]]]:
    quick = tier == "quick"
    simple = _simple_genes()
    small = _simple_genes(limit=20)
    tiny = _simple_genes(limit=15)
    crossing = _crossing_genes()
    if quick:
        crossing = [g for g in crossing if g[:2] in ([25, 5], [20, 10], [15, 10], [25, 20])]
    layouts: List[Tuple[bool, List[List[int]]]] = []

    def add(circular: bool, genes: Iterable[Sequence[int]]) -> None:
        layouts.append((circular, [list(g) for g in genes]))

    for gene in simple:
        add(False, [gene])
        add(True, [gene])
    for combo in itertools.combinations(small if quick else simple, 2):
        add(False, combo)
        add(True, combo)
    for combo in itertools.combinations(small, 3):
        add(False, combo)
    if not quick:
        for combo in itertools.combinations(tiny, 4):
            add(False, combo)
    for cross in crossing:
        add(True, [cross])
        for gene in simple:
            add(True, [gene, cross])
            if not quick:
                add(True, [cross, gene])
        for combo in itertools.combinations(tiny if quick else small, 2):
            add(True, list(combo) + [cross])
        # the same origin-spanning gene on the other strand, alone, with its twin, with a plain gene
        twin = [cross[0], cross[1], -cross[2]]
        add(True, [twin])
        add(True, [cross, twin])
        for gene in tiny:
            add(True, [twin, gene])
    for multi in _multi_exon_genes():
        add(True, [multi])
        for gene in tiny:
            add(True, [gene, multi])
        for combo in itertools.combinations(tiny[:4] if quick else tiny, 2):
            add(True, list(combo) + [multi])
    return layouts


# ---------------------------------------------------------------------------------------------
# sharding
# ---------------------------------------------------------------------------------------------
LOOKUP_SHARDS = 24
BUILD_SHARDS = 24


def shards(tier: str, seed: int) -> list:
    make_record(10, False)        # import antismash once, before the driver forks its workers
    out = [{"fn": "lookup", "tier": tier, "index": i, "of": LOOKUP_SHARDS} for i in range(LOOKUP_SHARDS)]
    out += [{"fn": "build", "tier": tier, "index": i, "of": BUILD_SHARDS} for i in range(BUILD_SHARDS)]
    if tier != "quick":
        out += [{"fn": "random", "tier": tier, "index": i, "of": 16} for i in range(16)]
    return out


def run_shard(shard: Dict[str, Any], run: Any) -> None:
    if shard["fn"] == "lookup":
        layouts = _lookup_layouts(shard["tier"])
        for circular, genes in layouts[shard["index"]::shard["of"]]:
            if run.out_of_time():           # budget exhausted: the run is reported as truncated
                return
            _run_lookup_layout(run, circular, genes, _queries(circular))
    elif shard["fn"] == "build":
        layouts = _build_layouts(shard["tier"])
        for circular, genes in layouts[shard["index"]::shard["of"]]:
            pool = AREA_POOL_CIRCULAR if circular else AREA_POOL_LINEAR
            if run.out_of_time():
                return
            for areas in pool:
                for slots in _slot_vectors(len(genes), len(areas) + 2, shard["tier"]):
                    case = {"fn": "build", "L": LENGTH, "circ": circular, "genes": genes,
                            "areas": areas, "slots": slots}
                    _check_build(run, case)
            for areas, late in (LATE_POOL_CIRCULAR if circular else LATE_POOL_LINEAR):
                for slots in _slot_vectors(len(genes), len(areas) + 2, shard["tier"]):
                    case = {"fn": "build", "L": LENGTH, "circ": circular, "genes": genes,
                            "areas": areas, "slots": slots, "late": late}
                    _check_build(run, case)
    else:
        _run_random(run)


def _random_arc(rng: Any, length: int, circular: bool, minimum: int = 3) -> List[int]:
    while True:
        start = rng.randrange(0, length)
        size = rng.randrange(minimum, length)
        end = start + size
        if end <= length:
            return [start, end]
        if circular and 0 < end - length < start:
            return [start, end - length]


def _run_random(run: Any) -> None:
    """Beyond the exhaustive bound: seeded random layouts with 4..8 genes on records of 60/61
    bases, arbitrary (off-grid) coordinates, random queries."""
    rng = run.rng
    for _ in range(4000):                  # bounded, so that the evidence stays of a sane size
        if run.out_of_time():
            break
        length = rng.choice((60, 61))
        circular = rng.random() < 0.5
        genes: List[List[int]] = []
        seen = set()
        for _ in range(rng.randrange(4, 9)):
            arc = _random_arc(rng, length, circular)
            if spans_origin(arc) and sum(1 for g in genes if spans_origin(g)) >= 2:
                continue
            gene = [arc[0], arc[1], rng.choice((1, -1))]
            if tuple(gene) in seen:
                continue
            seen.add(tuple(gene))
            genes.append(gene)
        queries = [_random_arc(rng, length, circular, minimum=1) for _ in range(40)]
        queries.append([0, length])
        _run_lookup_layout(run, circular, genes, queries, length=length)


# ---------------------------------------------------------------------------------------------
# lookup: oracle and evaluation
# ---------------------------------------------------------------------------------------------
def _build_gene_record(length: int, circular: bool, genes: Sequence[Sequence[int]],
                       annotate: bool = False) -> Tuple[Any, List[Any]]:
    record = make_record(length, circular)
    real = []
    for index, gene in enumerate(genes):
        feature = _make_gene(f"g{index}", gene, length,
                            _annotation(gene) if annotate else ())
        record.add_cds_feature(feature)
        real.append(feature)
    return record, real


def _expected_lookup(genes: Sequence[Sequence[int]], query: Sequence[int], overlapping: bool,
                     length: int) -> List[int]:
    qmask = arc_mask(query, length)
    out = []
    for index, gene in enumerate(genes):
        gmask = _gene_mask(gene, length)
        if overlapping:
            if gmask & qmask:
                out.append(index)
        elif gmask & ~qmask == 0:
            out.append(index)
    return out


def _order_ok(result: Sequence[int], genes: Sequence[Sequence[int]], query: Sequence[int],
              length: int) -> bool:
    """'In location order', demanded only where every reading agrees.  Accepted: (a) the genes
    that do not span the origin appear by ascending (start, length) - for an origin-spanning query
    either by coordinate or walking along the query from its start - and the origin-spanning
    genes are in ascending order of their start among themselves (their position relative to the
    other genes is left free); or (b) all genes appear in the order in which they are met when
    walking along the location from its start; or (c) the genes appear part by part of the
    location and, within a part, in the order of the record."""
    plain = [i for i in result if not spans_origin(genes[i])]
    wrapped = [i for i in result if spans_origin(genes[i])]

    def sorted_by(indices: Sequence[int], key: Any) -> bool:
        keys = [key(genes[i]) for i in indices]
        return all(keys[i] <= keys[i + 1] for i in range(len(keys) - 1))

    def size(gene: Sequence[int]) -> int:
        return bin(_gene_mask(gene, length)).count("1")

    if sorted_by(wrapped, lambda g: (g[0], size(g))):
        if sorted_by(plain, lambda g: (g[0], size(g))):
            return True
        if spans_origin(query) and sorted_by(plain, lambda g: ((g[0] - query[0]) % length, size(g))):
            return True
    # third reading: the order in which the genes are met when walking along the location from
    # its start (a gene is met at its first base that lies inside the location)
    qmask = arc_mask(query, length)

    def met_at(gene: Sequence[int]) -> int:
        inside = _gene_mask(gene, length) & qmask
        offsets = [(base - query[0]) % length for base in range(length) if inside >> base & 1]
        return min(offsets) if offsets else length
    if sorted_by(result, met_at):
        return True
    # fourth reading: part by part of the location, and within a part in the order of the record
    # (by start, then length; a multi-exon gene counts with the start of its first exon)
    parts = [arc_mask(list(part), length) for part in _parts(query, length)]

    def by_part(gene: Sequence[int]) -> Tuple[int, int, int]:
        mask = _gene_mask(gene, length)
        first = next((n for n, part in enumerate(parts) if mask & part), len(parts))
        return (first,) + _sort_key(gene, length)
    return sorted_by(result, by_part)


def _evaluate_lookup(record: Any, real: Sequence[Any], case: Dict[str, Any]) -> List[Tuple[str, bool, str]]:
    """[(clause, ok, detail)] for one lookup case on an already built record."""
    length, genes, query, overlapping = case["L"], case["genes"], case["q"], case["ov"]
    clause = "overlapping-exact" if overlapping else "within-exact"
    try:
        found = record.get_cds_features_within_location(make_location(query, length),
                                                        with_overlapping=overlapping)
    except Exception as err:  # pylint: disable=broad-except
        return [(NO_EXC, False, describe_exception(err))]
    index_of = {id(feature): i for i, feature in enumerate(real)}
    result = [index_of.get(id(feature), -1) for feature in found]
    expected = _expected_lookup(genes, query, overlapping, length)
    exact = sorted(result) == expected            # also rejects duplicates and foreign features
    detail = f"returned genes {result}, the location {'overlaps' if overlapping else 'contains'} genes {expected}"
    out = [(clause, exact, detail)]
    known = [i for i in result if i >= 0]
    out.append(("result-in-location-order", _order_ok(known, genes, query, length),
                f"returned order {result}"))
    return out


def _run_lookup_layout(run: Any, circular: bool, genes: List[List[int]], queries: Sequence[Sequence[int]],
                       length: int = LENGTH) -> None:
    try:
        record, real = _build_gene_record(length, circular, genes)
    except Exception as err:  # pylint: disable=broad-except
        run.check(NO_EXC, False, {"fn": "lookup", "L": length, "circ": circular, "genes": genes,
                                  "q": [0, length], "ov": False}, detail=describe_exception(err))
        return
    for query in queries:
        for overlapping in (False, True):
            case = {"fn": "lookup", "L": length, "circ": circular, "genes": genes,
                    "q": list(query), "ov": overlapping}
            expected = _expected_lookup(genes, query, overlapping, length)
            nontrivial = len(genes) >= 2 and bool(expected)
            for clause, ok, detail in _evaluate_lookup(record, real, case):
                _report(run, clause, ok, case, nontrivial, detail)


# ---------------------------------------------------------------------------------------------
# build order: oracle and evaluation
# ---------------------------------------------------------------------------------------------
def _operations(case: Dict[str, Any]) -> List[Tuple[Any, ...]]:
    """The area-side operations of a build case, in order."""
    count = len(case["areas"])
    early = count - case.get("late", 0)
    return ([("area", i) for i in range(early)] + [("cands",), ("regions",)]
            + [("area", i) for i in range(early, count)])


def _run_history(case: Dict[str, Any]) -> Tuple[Any, List[Any], List[Any]]:
    """Executes the history on real objects; returns (record, genes, areas). Exceptions escape."""
    length, circular = case["L"], case["circ"]
    record = make_record(length, circular)
    genes = [_make_gene(f"g{i}", g, length, _annotation(g)) for i, g in enumerate(case["genes"])]
    areas = []
    for index, area in enumerate(case["areas"]):
        if area[0] == "p":
            areas.append(make_protocluster(area[1], area[2], area[3], length))
        else:
            areas.append(make_subregion(area[1], f"s{index}", length))
    operations = _operations(case)
    for step in range(len(operations) + 1):
        for index, slot in enumerate(case["slots"]):
            if slot == step:
                record.add_cds_feature(genes[index])
        if step == len(operations):
            break
        operation = operations[step]
        if operation[0] == "area":
            area = areas[operation[1]]
            if case["areas"][operation[1]][0] == "p":
                record.add_protocluster(area)
            else:
                record.add_subregion(area)
        elif operation[0] == "cands":
            record.create_candidate_clusters()
        else:
            record.create_regions()
    return record, genes, areas


def _children(area: Any, index_of: Dict[int, int]) -> List[int]:
    return [index_of.get(id(cds), -1) for cds in area.cds_children]


def _evaluate_build(case: Dict[str, Any]) -> Tuple[List[Tuple[str, bool, str]], Any, bool]:
    """([(clause, ok, detail)], signature, nontrivial) of the final state of one history."""
    length = case["L"]
    try:
        record, genes, areas = _run_history(case)
    except Exception as err:  # pylint: disable=broad-except
        return [(NO_EXC, False, describe_exception(err))], None, True
    index_of = {id(gene): i for i, gene in enumerate(genes)}
    gene_masks = [_gene_mask(g, length) for g in case["genes"]]
    results: List[Tuple[str, bool, str]] = []
    signature: List[Any] = []
    nontrivial = False

    # every area lists exactly the genes its location contains
    problems = []
    collections = ([("protocluster", a) for a in record.get_protoclusters()]
                   + [("subregion", a) for a in record.get_subregions()]
                   + [("candidate", a) for a in record.get_candidate_clusters()]
                   + [("region", a) for a in record.get_regions()])
    for kind, area in collections:
        mask = location_mask(area.location)
        expected = [i for i, gmask in enumerate(gene_masks) if gmask & ~mask == 0]
        listed = _children(area, index_of)
        nontrivial = nontrivial or bool(expected)
        signature.append((kind, location_parts(area.location), sorted(listed)))
        if sorted(listed) != expected:
            problems.append(f"{kind} {location_parts(area.location)} lists genes {sorted(listed)}, "
                            f"contains genes {expected}")
    results.append(("area-genes-exact", not problems, "; ".join(problems)))

    # each gene points to the one region containing it
    problems = []
    regions = list(record.get_regions())
    region_masks = [location_mask(region.location) for region in regions]
    links = []
    for i, gene in enumerate(genes):
        holders = [k for k, mask in enumerate(region_masks) if gene_masks[i] & ~mask == 0]
        actual = None
        if gene.region is not None:
            actual = next((k for k, region in enumerate(regions) if region is gene.region), -1)
        links.append(actual)
        if len(holders) == 1:
            if actual != holders[0]:
                problems.append(f"gene {i} {case['genes'][i]} lies in region {holders[0]} "
                                f"{location_parts(regions[holders[0]].location)} but points to {actual}")
        elif not holders and actual is not None:
            problems.append(f"gene {i} {case['genes'][i]} lies in no region but points to {actual}")
    signature.append(("links", links))
    results.append(("gene-region-link", not problems, "; ".join(problems)))

    # definition genes = genes inside the core carrying a CORE annotation for the product
    problems = []
    for position, area in enumerate(case["areas"]):
        if area[0] != "p":
            continue
        core_mask = arc_mask(area[1], length)
        expected = [i for i, g in enumerate(case["genes"])
                    if gene_masks[i] & ~core_mask == 0 and area[3] in _annotation(g)]
        actual = sorted(index_of.get(id(cds), -1) for cds in areas[position].definition_cdses)
        signature.append(("definition", position, actual))
        if actual != expected:
            problems.append(f"protocluster {area} has definition genes {actual}, expected {expected}")
    results.append(("definition-genes-exact", not problems, "; ".join(problems)))
    return results, signature, nontrivial


_BASELINE_CACHE: Dict[str, Any] = {}


def _baseline_signature(case: Dict[str, Any]) -> Any:
    """Signature of the same layout when every gene is added before any area."""
    key = repr((case["L"], case["circ"], case["genes"], case["areas"], case.get("late", 0)))
    if key not in _BASELINE_CACHE:
        if len(_BASELINE_CACHE) > 2000:
            _BASELINE_CACHE.clear()
        base = dict(case)
        base["slots"] = [0] * len(case["genes"])
        _BASELINE_CACHE[key] = _evaluate_build(base)[1]
    return _BASELINE_CACHE[key]


def _build_results(case: Dict[str, Any]) -> Tuple[List[Tuple[str, bool, str]], bool]:
    results, signature, nontrivial = _evaluate_build(case)
    if signature is not None and any(case["slots"]):
        baseline = _baseline_signature(case)
        if baseline is not None:
            same = _normalise(signature) == _normalise(baseline)
            results.append(("build-order-independent", same,
                            f"genes-first gives {baseline}, this order gives {signature}"))
    return results, nontrivial


def _normalise(signature: Any) -> Any:
    return sorted(repr(item) for item in signature)


def _check_build(run: Any, case: Dict[str, Any]) -> None:
    results, nontrivial = _build_results(case)
    for clause, ok, detail in results:
        _report(run, clause, ok, case, nontrivial, detail)


def _report(run: Any, clause: str, ok: bool, case: Dict[str, Any], nontrivial: bool, detail: str) -> None:
    """run.check; a failure that lies in one of the known-finding classes is recorded under
    "<clause> [<id>]" so that the many inputs of a known class cannot fill the driver's
    per-clause failure list and crowd out a failure of any other kind (the class predicates
    accept both spellings of the clause)."""
    if not ok:
        for finding, predicate in FINDING_CLASSES.items():
            if predicate(clause, case):
                clause = f"{clause} [{finding}]"
                break
    run.check(clause, ok, case, nontrivial=nontrivial, detail=detail)


# ---------------------------------------------------------------------------------------------
# replay
# ---------------------------------------------------------------------------------------------
def replay(case: Dict[str, Any]) -> List[str]:
    failed = []
    if case["fn"] == "lookup":
        try:
            record, real = _build_gene_record(case["L"], case["circ"], case["genes"])
        except Exception as err:  # pylint: disable=broad-except
            return [f"{NO_EXC}: {describe_exception(err)}"]
        results = []
        for overlapping in (False, True):
            variant = dict(case)
            variant["ov"] = overlapping
            results.extend(_evaluate_lookup(record, real, variant))
    else:
        results, _ = _build_results(case)
    for clause, ok, detail in results:
        if not ok:
            failed.append(f"{clause}: {detail}")
    return failed


# ---------------------------------------------------------------------------------------------
# known findings: classes of inputs, defined by a model of the pinned lookup
# ---------------------------------------------------------------------------------------------
def _parts(arc: Sequence[int], length: int, strand: int = 1) -> List[Tuple[int, int]]:
    if arc[0] < arc[1]:
        return [(arc[0], arc[1])]
    parts = [(arc[0], length), (0, arc[1])]
    if strand == -1:
        parts.reverse()
    return parts


def _sort_key(arc: Sequence[Any], length: int) -> Tuple[int, int]:
    """Feature.__lt__ key: (start, length); for an origin-spanning feature the start is the
    smallest start minus the largest end of the exons before the origin."""
    exons = _exons(arc, length)
    size = sum(end - start for start, end in exons)
    if arc[0] < arc[1]:
        return (min(start for start, _ in exons), size)
    head = []
    for position, exon in enumerate(exons):
        if position and exon[0] < exons[position - 1][0]:
            break
        head.append(exon)
    return (min(start for start, _ in head) - max(end for _, end in head), size)


def _gene_parts(gene: Sequence[Any], length: int) -> List[Tuple[int, int]]:
    parts = [(start, end) for start, end in _exons(gene, length)]
    if len(gene) > 2 and gene[2] == -1:
        parts.reverse()
    return parts


def _contains(outer: Sequence[Tuple[int, int]], inner: Sequence[Tuple[int, int]]) -> bool:
    return all(any(o[0] <= i[0] <= i[1] <= o[1] for o in outer) for i in inner)


def _overlap(first: Sequence[Tuple[int, int]], second: Sequence[Tuple[int, int]]) -> bool:
    return any(a[0] < b[1] and b[0] < a[1] for a in first for b in second)


def pinned_lookup(genes: Sequence[Sequence[int]], query: Sequence[int], overlapping: bool,
                  length: int) -> List[int]:
    """Model of the lookup AS PINNED (bisect start, step back over equal starts / overlapping
    predecessors, stop at the first gene that neither qualifies nor contains its successor;
    multi-part queries: union of the per-part overlapping lookups, filtered by containment unless
    with_overlapping).  Used ONLY to delimit the known-finding classes, never as an oracle."""
    order: List[int] = []
    for index, gene in enumerate(genes):                      # bisect_left insertion
        key = _sort_key(gene, length)
        position = 0
        while position < len(order) and _sort_key(genes[order[position]], length) < key:
            position += 1
        order.insert(position, index)
    gene_parts = [_gene_parts(g, length) for g in genes]

    def single(part: Tuple[int, int], include_overlaps: bool) -> List[int]:
        key = (part[0], part[1] - part[0])
        index = 0
        while index < len(order) and _sort_key(genes[order[index]], length) < key:
            index += 1
        while index > 0 and min(p[0] for p in gene_parts[order[index - 1]]) == part[0]:
            index -= 1
        if include_overlaps:
            while index >= 1 and _overlap(gene_parts[order[index - 1]], [part]):
                index -= 1
        found = []
        while index < len(order):
            current = gene_parts[order[index]]
            if _contains([part], current):
                found.append(order[index])
            elif include_overlaps and _overlap(current, [part]):
                found.append(order[index])
            elif index + 1 < len(order) and _contains(current, gene_parts[order[index + 1]]):
                pass
            else:
                break
            index += 1
        return found

    query_parts = _parts(query, length)
    if len(query_parts) == 1:
        return single(query_parts[0], overlapping)
    features: List[int] = []
    for part in query_parts:
        for index in single(part, True):
            if index not in features:
                features.append(index)
    if overlapping:
        return features
    return [i for i in features if _contains(query_parts, gene_parts[i])]


def _pinned_misses(genes: Sequence[Sequence[int]], query: Sequence[int], overlapping: bool,
                   length: int) -> bool:
    return sorted(pinned_lookup(genes, query, overlapping, length)) != \
        _expected_lookup(genes, query, overlapping, length)


def _plain(clause: str) -> str:
    return clause.split(" [")[0]


def _sweep_class(clause: str, case: Dict[str, Any]) -> bool:
    """The pinned sweep misses a qualifying gene for this lookup; for result-in-location-order:
    the location has two parts and the per-part (with_overlapping) sweep of one part misses a gene
    that overlaps that part - the gene is then only picked up through the other part and lands
    out of order in the combined result."""
    clause = _plain(clause)
    if case.get("fn") != "lookup":
        return False
    if clause in ("within-exact", "overlapping-exact"):
        return _pinned_misses(case["genes"], case["q"], clause == "overlapping-exact", case["L"])
    if clause != "result-in-location-order" or not spans_origin(case["q"]):
        return False
    return any(_pinned_misses(case["genes"], list(part), True, case["L"])
               for part in _parts(case["q"], case["L"]))


def _is_f1(clause: str, case: Dict[str, Any]) -> bool:
    """Sweep heuristics on a record without origin-spanning genes."""
    return case.get("fn") == "lookup" and not any(spans_origin(g) for g in case["genes"]) \
        and _sweep_class(clause, case)


def _is_f2(clause: str, case: Dict[str, Any]) -> bool:
    """Sweep heuristics defeated by an origin-spanning gene (sorted before index 0)."""
    return case.get("fn") == "lookup" and any(spans_origin(g) for g in case["genes"]) \
        and _sweep_class(clause, case)


def _mask_to_arc(mask: int, length: int) -> Optional[List[int]]:
    full = (1 << length) - 1
    if mask == full:
        return [0, length]
    if not is_contiguous(mask, length, True):
        return None
    start = next(i for i in range(length) if mask >> i & 1 and not mask >> ((i - 1) % length) & 1)
    end = next(i for i in range(length) if mask >> i & 1 and not mask >> ((i + 1) % length) & 1) + 1
    return [start, end]


def _area_side_locations(case: Dict[str, Any]) -> List[Tuple[int, List[int]]]:
    """(operation number, location) of every area the record looks genes up for: the supplied
    areas, and the candidate clusters / regions (spans of the overlapping groups of the areas
    present when they are created)."""
    length = case["L"]
    operations = _operations(case)
    out: List[Tuple[int, List[int]]] = []
    extents = [area[2] if area[0] == "p" else area[1] for area in case["areas"]]
    early = len(extents) - case.get("late", 0)
    for position, operation in enumerate(operations):
        if operation[0] == "area":
            out.append((position, list(extents[operation[1]])))
    masks = [arc_mask(e, length) for e in extents]
    protos = [i for i in range(early) if case["areas"][i][0] == "p"]
    # candidate clusters: singles and the span of any overlapping protoclusters
    pairs = [(a, b) for a in protos for b in protos if a < b and masks[a] & masks[b]]
    for group in components(early, pairs):
        if len(group) > 1:
            union = 0
            for i in group:
                union |= masks[i]
            arc = _mask_to_arc(union, length)
            if arc:
                out.append((operations.index(("cands",)), arc))
    pairs = [(a, b) for a in range(early) for b in range(early) if a < b and masks[a] & masks[b]]
    for group in components(early, pairs):
        union = 0
        for i in group:
            union |= masks[i]
        arc = _mask_to_arc(union, length)
        if arc:
            out.append((operations.index(("regions",)), arc))
    return out


def _is_f4(clause: str, case: Dict[str, Any]) -> bool:
    """Membership clauses of a history in which some area-side operation runs after genes were
    added and the pinned lookup (see F1/F2) misses a gene for that area's location."""
    clause = _plain(clause)
    if case.get("fn") != "build" or clause not in BUILD_CLAUSES:
        return False
    length = case["L"]
    for variant in (case["slots"], [0] * len(case["genes"])):     # the genes-first baseline too
        if clause != "build-order-independent" and variant is not case["slots"]:
            continue
        for operation, arc in _area_side_locations(case):
            present = [g for g, slot in zip(case["genes"], variant) if slot <= operation]
            if present and _pinned_misses(present, arc, False, length):
                return True
    return False


FINDING_CLASSES = {
    "C08-F1": _is_f1,
    "C08-F2": _is_f2,
    "C08-F4": _is_f4,
}
