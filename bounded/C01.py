"""Bounded stand-in for C01 -- rule conditions evaluate to their documented boolean meaning.

Real code: rule_parser.Parser (to build the rule from its text) and DetectionRule.detect on real
CDSFeature / ProfileHit objects. Oracle: bounded/_c01_ref.py (`sem`/`why`/`distance`), written from
the property statement and the module documentation, never calling the code under test.
"""
from __future__ import annotations

import itertools
from typing import Any, Dict, Iterator, List, Optional, Sequence, Tuple

from bounded import _c01_ref as ref

RULE = (
    "Rule = condition tree from an explicit, completely enumerated family over profiles a,b,c "
    "(single atoms: id / minscore(x,50) / minimum(n<=3,[..]) / cds(inner of 2-3 units with "
    "and/or/not/groups); all binary 'U op V' over a core atom set with every sign pattern; "
    "three-operand precedence/group shapes X or Y and Z, (X or Y) and Z, not (X or Y) and Z ...), "
    "renamed canonically and de-duplicated, parsed by the real Parser with CUTOFF 1 (1000 bases). "
    "World = 2 or 3 simple genes (plus small families with an origin-spanning and a multi-exon gene) "
    "whose pairwise gaps are overlap/touching/1/cutoff-1/cutoff/cutoff+1/far on a line and across the "
    "origin of a ring (start==0, end==length, gap==half the record included) x every assignment of the "
    "rule's profiles to the genes (bitscores 49.9/50/51 and a double hit for minscore profiles; an "
    "unrelated profile z on alternating genes); assignments are complete up to a per-layout cap and a "
    "fixed multiplicative stride beyond it (thorough: larger caps, 4-gene worlds, CUTOFF 3, more three-operand "
    "rules, + seeded random rules of depth <= 4 on random worlds). "
    "detect() is evaluated at every gene of the world. Non-trivial = the rule has at least one "
    "operator/function and some pair of genes lies within cutoff+-1 of each other or exactly touches; "
    "distinct = distinct (rule, layout, hit assignment)."
)
EXHAUSTIVE = {"quick": False, "thorough": False}

IDS = ["a", "b", "c"]
SCORE = 50
KB = 1            # CUTOFF 1 -> 1000 bases
N_SHARDS = 48
RANDOM_RULES_PER_SHARD = 2500   # thorough: 16 shards x 2500 random rules x 40 worlds


# ------------------------------------------------------------------------------------------------
# rule family
# ------------------------------------------------------------------------------------------------

def _id(name: str, neg: bool = False) -> List[Any]:
    return ["id", neg, name]


def _score(name: str, neg: bool = False) -> List[Any]:
    return ["score", neg, name, SCORE]


def _min(count: int, names: Sequence[str], neg: bool = False) -> List[Any]:
    return ["min", neg, count, list(names)]


def _cds(inner: Any, neg: bool = False) -> List[Any]:
    return ["cds", neg, inner]


def _grp(inner: Any, neg: bool = False) -> List[Any]:
    return ["grp", neg, inner]


def _negated(node: Any) -> Any:
    """the unit 'not node' (node must be an atom or a group)"""
    flipped = list(node)
    flipped[1] = not node[1]
    return flipped


def _rename(node: Any, table: Dict[str, str]) -> Any:
    tag = node[0]
    if tag == "id":
        return ["id", node[1], table[node[2]]]
    if tag == "score":
        return ["score", node[1], table[node[2]], node[3]]
    if tag == "min":
        return ["min", node[1], node[2], [table[name] for name in node[3]]]
    if tag in ("cds", "grp"):
        return [tag, node[1], _rename(node[2], table)]
    return [tag, [_rename(op, table) for op in node[1]]]


def canonical(node: Any) -> Any:
    """profiles renamed a, b, c in order of first appearance"""
    names = ref.profiles_of(node)
    return _rename(node, {name: IDS[i] for i, name in enumerate(names)})


def _well_formed(node: Any) -> bool:
    """generator-side filter: positive requirement present, no repeated operand (even up to
       redundant brackets)"""
    if ref.positive_requirement(node) is not True:
        return False
    try:
        _check_repeats(node)
    except (ref.IllFormed, ref.Ambiguous):
        return False
    return True


def _check_repeats(node: Any) -> None:
    tag = node[0]
    if tag in ("and", "or"):
        ref._reject_repeats(node[1])  # pylint: disable=protected-access
        for operand in node[1]:
            _check_repeats(operand)
    elif tag in ("cds", "grp"):
        _check_repeats(node[2])


def cds_inners() -> List[Any]:
    """inner formulas of cds(...): 2 or 3 units over ids (and a few with minscore)"""
    out: List[Any] = []
    signs = [False, True]
    for op in ("and", "or"):
        for n1 in signs:
            for n2 in signs:
                out.append([op, [_id("a", n1), _id("b", n2)]])
    a, b, c = _id("a"), _id("b"), _id("c")
    sign_patterns = [(False, False, False), (True, False, False), (False, True, False), (False, False, True)]
    for s1, s2, s3 in sign_patterns:
        x, y, z = _id("a", s1), _id("b", s2), _id("c", s3)
        out.append(["and", [x, _grp(["or", [y, z]])]])
        out.append(["or", [x, ["and", [y, z]]]])
        out.append(["or", [["and", [x, y]], z]])
        out.append(["and", [_grp(["or", [x, y]]), z]])
        out.append(["and", [x, y, z]])
        out.append(["or", [x, y, z]])
    out.append(["and", [_grp(["or", [a, b]], True), c]])
    out.append(["and", [a, _grp(["and", [b, c]], True)]])
    out.append(["or", [a, _grp(["or", [b, c]], True)]])
    out.append(["and", [a, _grp(b, True)]])           # redundant group inside cds
    # minscore inside cds (accepted by the parser; known finding C01-F1 when a neighbour scores)
    out.append(["and", [a, _score("b")]])
    out.append(["or", [_score("a"), b]])
    out.append(["and", [a, _score("b", True)]])
    out.append(["and", [_score("a"), _score("b")]])
    out.append(["and", [a, _score("a")]])
    return out


def single_atoms() -> List[Any]:
    out: List[Any] = [_id("a"), _score("a"), _grp(_id("a")), _grp(_grp(_id("a"), True), True)]
    for count in (1, 2, 3):
        for names in (["a"], ["a", "b"], ["a", "b", "c"]):
            out.append(_min(count, names))
    for inner in cds_inners():
        out.append(_cds(inner))
    return out


def core_atoms() -> List[Any]:
    return [
        _id("a"), _id("b"), _id("c"),
        _score("a"), _score("b"),
        _min(1, ["a", "b"]), _min(2, ["a", "b"]), _min(2, ["a"]), _min(2, ["b", "c"]), _min(3, ["a", "b", "c"]),
        _cds(["and", [_id("a"), _id("b")]]), _cds(["or", [_id("a"), _id("b")]]),
        _cds(["and", [_id("a"), _id("b", True)]]), _cds(["and", [_id("b"), _id("c")]]),
        _cds(["or", [_id("a", True), _id("b")]]),
    ]


def binary_rules() -> List[Any]:
    out = []
    atoms = core_atoms()
    for first, second in itertools.permutations(atoms, 2):
        for op in ("and", "or"):
            for n1 in (False, True):
                for n2 in (False, True):
                    left = _negated(first) if n1 else first
                    right = _negated(second) if n2 else second
                    out.append([op, [left, right]])
    return out


def ternary_rules(units: Optional[List[Any]] = None) -> List[Any]:
    if units is None:
        units = [_id("a"), _id("b"), _id("c"), _id("c", True),
                 _min(2, ["a", "c"]), _cds(["and", [_id("b"), _id("c")]])]
    out = []
    for x, y, z in itertools.permutations(units, 3):
        out.append(["or", [x, ["and", [y, z]]]])                    # X or Y and Z
        out.append(["or", [["and", [x, y]], z]])                    # X and Y or Z
        out.append(["and", [_grp(["or", [x, y]]), z]])              # (X or Y) and Z
        out.append(["and", [x, _grp(["or", [y, z]])]])              # X and (Y or Z)
        out.append(["and", [_grp(["or", [x, y]], True), z]])        # not (X or Y) and Z
        out.append(["and", [_grp(["and", [x, y]], True), z]])       # not (X and Y) and Z
        out.append(["and", [x, _grp(["or", [y, z]], True)]])        # X and not (Y or Z)
        out.append(["or", [x, _grp(["and", [y, z]], True)]])        # X or not (Y and Z)
        out.append(["or", [_grp(["and", [x, y]]), z]])              # (X and Y) or Z
        if render_key(x) < render_key(y) < render_key(z):
            out.append(["and", [x, y, z]])
            out.append(["or", [x, y, z]])
    return out


def render_key(node: Any) -> str:
    return ref.render(node)


_RULE_CACHE: Dict[str, List[str]] = {}


def rule_texts(tier: str) -> List[str]:
    """the de-duplicated condition texts of a tier, in a fixed order"""
    if tier in _RULE_CACHE and _CLASS_BOUNDS:
        return _RULE_CACHE[tier]
    seen = set()
    texts: List[str] = []
    pools = [single_atoms(), binary_rules(), ternary_rules()]
    if tier == "thorough":
        more = [_id("a"), _id("b", True), _id("c"), _score("a"), _score("b"), _score("c", True),
                _min(1, ["b", "c"]), _min(2, ["a", "b"], True),
                _cds(["or", [_id("a"), _id("c")]]), _cds(["and", [_id("a"), _id("c", True)]], True),
                _cds(["and", [_id("a"), _grp(["or", [_id("b"), _id("c")]])]])]
        pools.append(ternary_rules(more))
    bounds: List[int] = []
    for pool in pools:
        bounds.append(len(texts))
        for node in pool:
            if not _well_formed(node):
                continue
            node = canonical(node)
            text = ref.render(node)
            if text in seen:
                continue
            seen.add(text)
            texts.append(text)
    _RULE_CACHE[tier] = texts
    _CLASS_BOUNDS[:] = [bounds[1], bounds[2]]
    return texts


# ------------------------------------------------------------------------------------------------
# world family
# ------------------------------------------------------------------------------------------------

def _line(lengths: Sequence[int], gaps: Sequence[int], first_start: int = 0,
          strands: Sequence[int] = (1, -1, 1, -1)) -> List[List[List[int]]]:
    genes = []
    pos = first_start
    for index, length in enumerate(lengths):
        if index:
            pos += gaps[index - 1]
        genes.append([[pos, pos + length, strands[index % len(strands)]]])
        pos += length
    return genes


def layouts2(cut: int) -> List[Dict[str, Any]]:
    out = []
    for gap in (-100, 0, 1, cut - 1, cut, cut + 1, 5 * cut):
        out.append({"genes": _line([300, 300], [gap], 200), "ring": 0})
    out.append({"genes": _line([300, 300], [cut - 1], 0, (-1, -1)), "ring": 0})     # start == 0
    # ring: (line gap, gap across the origin, start of the first gene)
    for gap, around, start in ((5 * cut, cut - 1, 200), (5 * cut, cut, 200), (5 * cut, cut + 1, 200),
                               (cut, cut - 1, 200), (cut - 1, cut, 200), (cut, cut, 200),
                               (cut - 1, cut - 1, 200), (cut, cut, 201),
                               (5 * cut, 0, 0),                      # touching across the origin
                               (5 * cut, cut - 1, 0), (5 * cut, cut, 0),          # first starts at 0
                               (5 * cut, cut - 1, cut - 1), (5 * cut, cut, cut),  # second ends at the length
                               (7 * cut, 7 * cut, 300)):
        genes = _line([300, 300], [gap], start)
        length = genes[1][0][1] + around - start
        out.append({"genes": genes, "ring": length})
    return out


def layouts3(cut: int) -> List[Dict[str, Any]]:
    out = []
    for gap1 in (cut - 1, cut):
        for gap2 in (cut - 1, cut):
            out.append({"genes": _line([300, 300, 300], [gap1, gap2], 100), "ring": 0})
    out.append({"genes": _line([300, 300, 300], [0, cut - 1], 100), "ring": 0})
    out.append({"genes": _line([300, 300, 300], [cut - 1, -50], 100), "ring": 0})
    for target in (cut - 1, cut):          # short middle gene: the OUTER pair is at the boundary
        out.append({"genes": _line([300, 100, 300], [cut // 2 - 100, target - cut // 2], 100), "ring": 0})
    out.append({"genes": _line([300, 300, 300], [4 * cut, 5 * cut], 100), "ring": 0})
    out.append({"genes": _line([100, 100, 100], [10, 10], 100, (-1, 1, -1)), "ring": 0})
    for gap1 in (cut - 1, cut):
        for around in (cut - 1, cut):
            genes = _line([300, 300, 300], [gap1, 5 * cut], 150)
            out.append({"genes": genes, "ring": genes[2][0][1] + around - 150})
    for gap in (cut - 1, cut):
        genes = _line([300, 300, 300], [gap, gap], 0)
        out.append({"genes": genes, "ring": genes[2][0][1] + gap})
    # the in-range neighbour is the LAST / FIRST in dictionary order, the other one is far
    out.append({"genes": _line([300, 300, 300], [5 * cut, cut - 1], 100), "ring": 0})
    out.append({"genes": _line([300, 300, 300], [cut - 1, 5 * cut], 100), "ring": 0})
    return out


def layouts4(cut: int) -> List[Dict[str, Any]]:
    out = []
    for gaps in ((cut - 1, cut - 1, cut - 1), (cut - 1, cut, cut - 1), (cut, cut - 1, cut), (0, cut - 1, cut + 1),
                 (10, 10, 10)):
        lengths = [300, 300, 300, 300] if gaps[0] != 10 else [100, 100, 100, 100]
        out.append({"genes": _line(lengths, gaps, 100), "ring": 0})
    genes = _line([300, 300, 300, 300], [cut - 1, 5 * cut, cut], 150)
    out.append({"genes": genes, "ring": genes[3][0][1] + cut - 1 - 150})
    return out


def layouts_special(cut: int) -> List[Dict[str, Any]]:
    """a gene over the origin of a ring; a two-exon gene with a long intron"""
    out = []
    for dist in (cut - 1, cut, cut + 1):
        ring = 8 * cut
        wrapped = [[ring - 150, ring, 1], [0, 150, 1]]
        out.append({"genes": [wrapped, [[150 + dist, 450 + dist, 1]]], "ring": ring})
        out.append({"genes": [[[ring - 450 - dist, ring - 150 - dist, -1]], wrapped], "ring": ring})
        wrapped_rev = [[0, 150, -1], [ring - 150, ring, -1]]
        out.append({"genes": [wrapped_rev, [[150 + dist, 450 + dist, 1]]], "ring": ring})
    for dist in (cut - 1, cut):
        exons = [[0, 300, 1], [300 + 2 * cut + 300, 900 + 2 * cut, 1]]
        # a gene inside the intron, `dist` after the first exon (and further from the second)
        inner_start = 300 + dist
        out.append({"genes": [exons, [[inner_start, inner_start + 100, 1]]], "ring": 0})
        # a gene after the last exon
        out.append({"genes": [exons, [[900 + 2 * cut + dist, 1200 + 2 * cut + dist, -1]]], "ring": 0})
    return out


_SCORE_STATES: List[List[float]] = [[], [49.9], [50.0], [51.0], [49.9, 50.0]]
_PLAIN_STATES: List[List[float]] = [[], [30.0]]


def hit_universe(cond: Any, genes: int) -> Tuple[List[Tuple[int, str, List[List[float]]]], int]:
    """the slots (gene, profile, states) and the number of assignments"""
    scored = set(ref.score_profiles_of(cond))
    slots = []
    size = 1
    for gene in range(genes):
        for profile in ref.profiles_of(cond):
            states = _SCORE_STATES if profile in scored else _PLAIN_STATES
            slots.append((gene, profile, states))
            size *= len(states)
    return slots, size


def assignment(slots: List[Tuple[int, str, List[List[float]]]], genes: int, index: int,
               salt: int) -> List[List[List[Any]]]:
    """the index-th assignment (mixed radix), plus the unrelated profile z on alternating genes"""
    hits: List[List[List[Any]]] = [[] for _ in range(genes)]
    for gene, profile, states in slots:
        index, digit = divmod(index, len(states))
        for score in states[digit]:
            hits[gene].append([profile, score])
    for gene in range(genes):
        if (gene + salt) % 3 == 0:
            hits[gene].append(["z", 77.0])
    return hits


def chosen_indices(size: int, cap: int, salt: int) -> Iterator[int]:
    """all indices when size <= cap, else `cap` of them along a fixed multiplicative stride"""
    if size <= cap:
        yield from range(size)
        return
    step = 7919
    while size % step == 0 or _gcd(step, size) != 1:
        step += 2
    position = (salt * 104729) % size
    for _ in range(cap):
        yield position
        position = (position + step) % size


def _gcd(first: int, second: int) -> int:
    while second:
        first, second = second, first % second
    return first


# ------------------------------------------------------------------------------------------------
# real objects
# ------------------------------------------------------------------------------------------------

def _location(parts: Sequence[Sequence[int]]) -> Any:
    from antismash.common.secmet.locations import CompoundLocation, FeatureLocation
    locs = [FeatureLocation(part[0], part[1], part[2]) for part in parts]
    if len(locs) == 1:
        return locs[0]
    return CompoundLocation(locs)


def build_features(genes: Sequence[Sequence[Sequence[int]]]) -> Dict[str, Any]:
    from antismash.common.secmet import CDSFeature
    features = {}
    for index, parts in enumerate(genes):
        name = f"g{index}"
        features[name] = CDSFeature(_location(parts), locus_tag=name, translation="M" * 20)
    return features


def build_results(hits: Sequence[Sequence[Sequence[Any]]]) -> Dict[str, Any]:
    from antismash.common.hmm_rule_parser.structures import ProfileHit
    results = {}
    for index, gene_hits in enumerate(hits):
        if gene_hits:
            name = f"g{index}"
            results[name] = [ProfileHit(name, profile, score, 1e-10) for profile, score in gene_hits]
    return results


def parse_rule(cond_text: str, cutoff_kb: int = KB) -> Any:
    from antismash.common.hmm_rule_parser import rule_parser
    text = f"RULE r CATEGORY cat CUTOFF {cutoff_kb} NEIGHBOURHOOD {cutoff_kb} CONDITIONS {cond_text}"
    return rule_parser.Parser(text, set(IDS) | {"z"}, {"cat"}).rules[0]


# ------------------------------------------------------------------------------------------------
# evaluation of one world
# ------------------------------------------------------------------------------------------------

def evaluate(rule: Any, cond: Any, features: Dict[str, Any], genes: Sequence[Any], ring: int,
             hits: Sequence[Any], near: Sequence[Any]) -> Dict[str, Tuple[bool, str]]:
    """-> {clause: (ok, detail)} for the clauses evaluated on this world"""
    world = ref.World(hits, near)
    results = build_results(hits)
    out: Dict[str, Tuple[bool, str]] = {}
    bad_anchor: List[str] = []
    bad_reasons: List[str] = []
    crashed: List[str] = []
    reasons_checked = False
    for gene in range(len(genes)):
        name = f"g{gene}"
        try:
            got = rule.detect(name, features, results, ring)
            got_met = bool(got.met)
            got_matches = set(got.matches)
        except Exception as err:  # pylint: disable=broad-except
            crashed.append(f"{name}: {type(err).__name__}: {err}")
            continue
        want_anchor, want_reasons = ref.anchors(cond, world, gene)
        got_anchor = got_met and bool(got_matches)
        if got_anchor != want_anchor:
            bad_anchor.append(f"{name}: reported anchoring={got_anchor} (met={got_met}, matches={sorted(got_matches)})"
                              f", documented meaning gives {want_anchor} (reasons {sorted(want_reasons)})")
        if got_anchor:
            reasons_checked = True
            if got_matches != want_reasons:
                bad_reasons.append(f"{name}: reported reasons {sorted(got_matches)}, expected {sorted(want_reasons)}")
    out["no-unexpected-exception"] = (not crashed, "; ".join(crashed))
    out["anchoring-iff-formula-true-and-own-reason"] = (not bad_anchor, "; ".join(bad_anchor))
    if reasons_checked:
        out["reasons-are-own-rule-profiles"] = (not bad_reasons, "; ".join(bad_reasons))
    return out


def boundary_layout(genes: Sequence[Any], ring: int, cutoff: int) -> bool:
    count = len(genes)
    for i in range(count):
        for j in range(i + 1, count):
            dist = ref.distance(genes[i], genes[j], ring)
            if abs(dist - cutoff) <= 1:
                return True
            if dist == 0:
                return True
    return False


# ------------------------------------------------------------------------------------------------
# driver interface
# ------------------------------------------------------------------------------------------------

FAMILIES = {
    # family: (layout function, genes, caps per rule class (single, binary, ternary) quick / thorough)
    "w2": (layouts2, 2, (256, 12, 4), (4096, 256, 16)),
    "w3": (layouts3, 3, (48, 6, 3), (2048, 96, 8)),
    "w4": (layouts4, 4, (0, 0, 0), (512, 32, 8)),
    "sp": (layouts_special, 2, (64, 8, 8), (512, 64, 64)),
}


def shards(tier: str, seed: int) -> List[Dict[str, Any]]:
    out = []
    for index in range(N_SHARDS):
        out.append({"kind": "enum", "index": index, "of": N_SHARDS})
    if tier == "thorough":
        for index in range(16):
            out.append({"kind": "random", "index": index})
    return out


def _self_check(run: Any) -> None:
    """harness self-check: interval distance == brute-force set-of-bases distance (small cases)"""
    for ring in (0, 11, 12):
        size = ring or 12
        spans = [[s, e] for s in range(size) for e in range(s + 1, size + 1) if e - s <= 4]
        for first in spans[::3]:
            for second in spans[::2]:
                if ref.distance([first], [second], ring) != ref.distance_by_sets([first], [second], ring):
                    run.error(f"distance oracle disagrees with brute force: {first} {second} ring={ring}")
                    return
    wrapped = [[9, 12], [0, 2]]
    for start in range(2, 9):
        for end in range(start + 1, 10):
            if ref.distance(wrapped, [[start, end]], 12) != ref.distance_by_sets(wrapped, [[start, end]], 12):
                run.error(f"distance oracle disagrees with brute force on a wrapped gene: {start} {end}")
                return


def rule_class(position: int) -> int:
    """0: single atom, 1: binary, 2: three operands (by position in rule_texts)"""
    if position < _CLASS_BOUNDS[0]:
        return 0
    return 1 if position < _CLASS_BOUNDS[1] else 2


_CLASS_BOUNDS: List[int] = []


def input_class(cond: Any, genes: Sequence[Any], hits: Sequence[Any], near: Sequence[Any],
                scored_in_cds: Optional[List[str]] = None) -> str:
    """'' or the id of the known-finding class this INPUT belongs to (decided from the input alone,
       before looking at the outcome); evaluations of such inputs are booked under
       '<clause> @<id>' so that they can never use up the failure quota of the plain clause"""
    if any(len(parts) > 1 for parts in genes):
        return "C01-F2"
    if scored_in_cds is None:
        scored_in_cds = ref.score_profiles_of(cond, inside_cds_only=True)
    if scored_in_cds:
        for gene, gene_hits in enumerate(hits):
            if not near[gene]:
                continue
            for profile, score in gene_hits:
                if profile in scored_in_cds and score >= SCORE:
                    return "C01-F1"
    return ""


def _prepare_layouts(cutoff: int) -> Dict[str, List[Tuple[Dict[str, Any], Dict[str, Any], List[Any], bool]]]:
    cache = {}
    for fam, (layout_fn, _, _, _) in FAMILIES.items():
        prepared = []
        for layout in layout_fn(cutoff):
            features = build_features(layout["genes"])
            near = ref.near_sets(layout["genes"], cutoff, layout["ring"])
            prepared.append((layout, features, near, boundary_layout(layout["genes"], layout["ring"], cutoff)))
        cache[fam] = prepared
    return cache


def run_shard(shard: Dict[str, Any], run: Any) -> None:
    if shard["kind"] == "random":
        _run_random(shard, run)
        return
    if shard["index"] == 0:
        _self_check(run)
    tier = run.tier
    texts = rule_texts(tier)
    # cutoff in kilobases: 1 everywhere; thorough repeats single and binary rules with CUTOFF 3
    layout_caches = {kb: _prepare_layouts(kb * 1000) for kb in ((1,) if tier == "quick" else (1, 3))}
    for position in range(shard["index"], len(texts), shard["of"]):
        text = texts[position]
        try:
            cond = ref.read_condition(text, IDS)
        except (ref.IllFormed, ref.Ambiguous) as err:
            run.error(f"generator produced a text the reference reader refuses: {text!r}: {err}")
            continue
        klass = rule_class(position)
        operator = ref.has_operator(cond)
        scored_in_cds = ref.score_profiles_of(cond, inside_cds_only=True)
        for cutoff_kb, layout_cache in layout_caches.items():
            if cutoff_kb != 1 and klass == 2:
                continue
            try:
                rule = parse_rule(text, cutoff_kb)
            except Exception as err:  # pylint: disable=broad-except
                run.check("no-unexpected-exception", False, {"fam": "parse", "cond": text, "cutoff_kb": cutoff_kb},
                          detail=f"Parser refused a well-formed rule: {type(err).__name__}: {err}")
                continue
            for fam, (_, n_genes, caps_quick, caps_thorough) in FAMILIES.items():
                cap = (caps_quick if tier == "quick" else caps_thorough)[klass]
                if fam == "sp" and klass and position % 8:
                    continue
                if not cap:
                    continue
                slots, size = hit_universe(cond, n_genes)
                for layout_index, (layout, features, near, boundary) in enumerate(layout_cache[fam]):
                    for index in chosen_indices(size, cap, layout_index + position):
                        hits = assignment(slots, n_genes, index, index + layout_index)
                        case = {"fam": fam, "cond": text, "cutoff_kb": cutoff_kb, "genes": layout["genes"],
                                "ring": layout["ring"], "hits": hits}
                        verdicts = evaluate(rule, cond, features, layout["genes"], layout["ring"], hits, near)
                        known = input_class(cond, layout["genes"], hits, near, scored_in_cds)
                        key = f"{text}|{cutoff_kb}{fam}{layout_index}|{index}"
                        for clause, (ok, detail) in verdicts.items():
                            if known and clause in _SEM_CLAUSES:
                                clause = f"{clause} @{known}"
                            run.check(clause, ok, case, nontrivial=operator and boundary, detail=detail, key=key)
                        run.count((n_genes - 1) * len(verdicts))
                if run.out_of_time():
                    return


def _random_unit(rng: Any, depth: int, in_cds: bool) -> Any:
    roll = rng.random()
    neg = rng.random() < 0.3
    if depth > 0 and roll < 0.35:
        return _grp(_random_formula(rng, depth - 1, in_cds), neg)
    if depth > 0 and not in_cds and roll < 0.6:
        inner = _random_formula(rng, depth - 1, True)
        if inner[0] not in ("and", "or"):
            inner = ["and", [inner, _id(rng.choice(IDS), rng.random() < 0.3)]]
        return _cds(inner, neg)
    if not in_cds and roll < 0.75:
        names = rng.sample(IDS, rng.randint(1, 3))
        return _min(rng.randint(1, 3), names, neg)
    if roll < 0.85 and not in_cds:
        return _score(rng.choice(IDS), neg)
    return _id(rng.choice(IDS), neg)


def _random_formula(rng: Any, depth: int, in_cds: bool) -> Any:
    count = rng.choice([1, 2, 2, 3])
    if count == 1:
        return _random_unit(rng, depth, in_cds)
    ands = []
    for _ in range(count):
        if rng.random() < 0.5:
            ands.append(_random_unit(rng, depth, in_cds))
        else:
            ands.append(["and", [_random_unit(rng, depth, in_cds), _random_unit(rng, depth, in_cds)]])
    return ["or", ands] if rng.random() < 0.6 else ["and", [a if a[0] != "and" else _grp(a) for a in ands]]


def _run_random(shard: Dict[str, Any], run: Any) -> None:
    """thorough only: seeded random rules of depth <= 4 on random 4-gene worlds"""
    rng = run.rng
    cutoff = KB * 1000
    pool = [(layout, build_features(layout["genes"]), ref.near_sets(layout["genes"], cutoff, layout["ring"]))
            for layout in layouts4(cutoff) + layouts3(cutoff)]
    for _ in range(RANDOM_RULES_PER_SHARD):
        if run.out_of_time():
            break
        node = _random_formula(rng, 3, False)
        if not _well_formed(node):
            continue
        text = ref.render(node)
        try:
            cond = ref.read_condition(text, IDS)
        except ref.Ambiguous:
            continue
        except ref.IllFormed as err:
            run.error(f"random generator produced an ill-formed text {text!r}: {err}")
            continue
        try:
            rule = parse_rule(text)
        except Exception as err:  # pylint: disable=broad-except
            run.check("no-unexpected-exception", False, {"fam": "parse", "cond": text},
                      detail=f"Parser refused a well-formed rule: {type(err).__name__}: {err}")
            continue
        for _ in range(40):
            layout, features, near = rng.choice(pool)
            n_genes = len(layout["genes"])
            slots, size = hit_universe(cond, n_genes)
            index = rng.randrange(size)
            hits = assignment(slots, n_genes, index, index)
            case = {"fam": "rnd", "cond": text, "cutoff_kb": KB, "genes": layout["genes"],
                    "ring": layout["ring"], "hits": hits}
            verdicts = evaluate(rule, cond, features, layout["genes"], layout["ring"], hits, near)
            known = input_class(cond, layout["genes"], hits, near)
            for clause, (ok, detail) in verdicts.items():
                if known and clause in _SEM_CLAUSES:
                    clause = f"{clause} @{known}"
                run.check(clause, ok, case, nontrivial=True, detail=detail)
            run.count((n_genes - 1) * len(verdicts))


def replay(case: Dict[str, Any]) -> List[str]:
    text = case["cond"]
    cond = ref.read_condition(text, IDS)
    try:
        rule = parse_rule(text, case.get("cutoff_kb", KB))
    except Exception as err:  # pylint: disable=broad-except
        return [f"no-unexpected-exception: Parser refused the rule: {type(err).__name__}: {err}"]
    if case.get("fam") == "parse":
        return []
    cutoff = case.get("cutoff_kb", KB) * 1000
    genes = case["genes"]
    features = build_features(genes)
    near = ref.near_sets(genes, cutoff, case["ring"])
    verdicts = evaluate(rule, cond, features, genes, case["ring"], case["hits"], near)
    return [f"{clause}: {detail}" for clause, (ok, detail) in verdicts.items() if not ok]


# ------------------------------------------------------------------------------------------------
# known findings
# ------------------------------------------------------------------------------------------------

_SEM_CLAUSES = ("anchoring-iff-formula-true-and-own-reason", "reasons-are-own-rule-profiles")


def _in_class(wanted: str) -> Any:
    def predicate(clause: str, case: Dict[str, Any]) -> bool:
        if clause.split(" @")[0] not in _SEM_CLAUSES or "genes" not in case:
            return False
        cond = ref.read_condition(case["cond"], IDS)
        near = ref.near_sets(case["genes"], case.get("cutoff_kb", KB) * 1000, case["ring"])
        return input_class(cond, case["genes"], case["hits"], near) == wanted
    return predicate


FINDING_CLASSES = {
    # minscore written inside cds(...) and a gene that has another gene in range carries a
    # sufficient hit of that profile (ScoreCondition searches the neighbours although cds() means
    # 'one single gene on its own'); all gene locations single-part
    "C01-F1": _in_class("C01-F1"),
    # some gene location has more than one part (origin-spanning or multi-exon): in_range takes the
    # distance from the envelope start/end of the compound location
    "C01-F2": _in_class("C01-F2"),
}
