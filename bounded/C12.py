"""Bounded stand-in for C12: per-region GenBank files are faithful, self-consistent extracts.

Records come from the same factory and spec families as C10. Like `main.write_outputs`, one
`bio = record.to_biopython()` is made per record and every region is written from it in turn with
the real `Region.write_to_genbank(record=bio)`. For every region the file is read back twice:
raw with `SeqIO.parse` (what is literally in the file) and with `Record.from_genbank`.

Clauses (one case = spec + region index):
  write-ok                   writing does not raise
  one-record                 the file holds exactly one record
  sequence                   its sequence is the region's bases (pre-origin part, then post-origin)
  features-same-bases        the file's features are exactly the full record's features lying inside
                             the region, each with the same type, strand and - position by position in
                             transcription order - the same bases, and the same other qualifiers
  numbering-from-1           protocluster / candidate / subregion numbers in the file are 1..k, distinct,
                             proto_core numbered like its protocluster
  candidate-protocluster-refs   each cand_cluster's `protoclusters` name the same protoclusters as before
  region-candidate-refs      the region feature's `candidate_cluster_numbers` name its own candidates
  region-subregion-refs      the region feature's `subregion_numbers` name its own subregions
  core-locations             `core_location` qualifiers cover the same bases as before
  prepeptide-locations       `leader_location` / `tail_location` qualifiers cover the same bases as before
  reloads-one-region         Record.from_genbank gives one record with exactly one region
  reloaded-same-content      ... with the same features, areas and cross references as that region has
                             when the full GenBank output (same `bio`) is loaded
  reloaded-after-ref-repair  only where region-*-refs failed: with just those two qualifiers corrected
                             the file loads to one region with the same content (keeps later regions
                             under test while the region qualifiers are known to be wrong)
  parent-bio-unchanged       the SeqRecord passed in is unchanged: sequence, annotations, features and
                             their locations
  parent-bio-qualifiers-unchanged   ... and the qualifiers of its features
  parent-record-unchanged    the secmet Record is unchanged

Oracles are set-of-bases computations on plain coordinates (`positions`, `region_positions`): a feature is
a tuple of base positions in transcription order, the region is the list of its bases in file order, and
"shifted so that it still covers the same bases" is equality of the position tuples after mapping.
`reloaded-same-content` compares two loaded records through `region_view` (positions relative to the
region, typed attributes, qualifiers other than the renumbered ones; derived member-gene lists and the
strand/order of areas are not content). The reference is the region as loaded from the full GenBank
output, so that what the serialisation itself changes (property C10) is not counted here; the
`region_number` qualifier and the 'Orig. start/end' comment are not part of the property and not checked.
After a write that raised nothing more is demanded of that record (the property speaks of written files).

Cases whose region has a feature under which a clause is known to fail on the pinned tree (see
`_RecordRun.tags`, RELEVANT) are reported as '<clause>@<tag+tag>', all others under the bare clause name;
FINDING_CLASSES only ever match the '@' names.

A case is the spec plus "region" (index) and "tags" (the input description, recomputed on replay); a
stored witness may carry "only": [clauses] to restrict what `replay` reports. `replay` writes the earlier
regions of the record first, from the same SeqRecord, as the run does.
"""
from __future__ import annotations

import copy
import io
import os
import re
import shutil
import tempfile
import traceback
from typing import Any

RULE = ("every region of every record of the C10 spec families (length 360, six genes on a 60-base raster; "
        "1-3 protoclusters over contiguous anchors x neighbourhood 0/15/45, subregions, sideloaded areas, "
        "19 gene shapes x 20 decorations, long locus tags, twelve-gene records whose regions hold areas numbered 8-12,  hand-made layouts off the raster, prepeptides with leader/tail present "
        "or absent on every gene of a later region and of a region over the origin, origin-spanning multi-exon genes "
        "of both strands cut by the region boundary in an exon / in the intron / not at all; linear and circular, regions at 0, "
        "at the record end, over the origin, over the whole circle, containing origin-spanning genes, first and "
        "later regions, several candidates/subregions, prepeptides), written in turn from one shared SeqRecord "
        "as main.write_outputs does; thorough adds the larger families and seeded random records. "
        "Non-trivial = the region holds >= 1 gene and >= 3 feature types; distinct = distinct (spec, region index).")
EXHAUSTIVE = {"quick": True, "thorough": False}
N_SHARDS = 48

ADJUSTED = {"protocluster_number", "candidate_cluster_number", "protoclusters", "candidate_cluster_numbers",
            "subregion_numbers", "subregion_number", "core_location", "leader_location", "tail_location"}
_PART = re.compile(r"\[[<>]?(\d+):[<>]?(\d+)\](?:\(([+\-?])\))?")


# ---------------------------------------------------------------------------------------------
# set-of-bases helpers (independent of antismash.common.secmet.locations)

def positions(location: Any) -> tuple[int, ...]:
    """ positions of a Biopython/secmet location in transcription order """
    out: list[int] = []
    for part in location.parts:
        if part.strand == -1:
            out.extend(range(int(part.end) - 1, int(part.start) - 1, -1))
        else:
            out.extend(range(int(part.start), int(part.end)))
    return tuple(out)


def string_positions(text: str) -> tuple[int, ...]:
    """ positions of a location written as '[1:6](-)' / 'join{[1:6](+), [10:16](+)}' """
    out: list[int] = []
    for start, end, strand in _PART.findall(text):
        if strand == "-":
            out.extend(range(int(end) - 1, int(start) - 1, -1))
        else:
            out.extend(range(int(start), int(end)))
    return tuple(out)


def region_positions(region: Any) -> list[int]:
    """ the bases of a region in file order: pre-origin part first, then the part after the origin """
    parts = [(int(p.start), int(p.end)) for p in region.location.parts]
    out: list[int] = []
    for start, end in parts:
        out.extend(range(start, end))
    return out


def strand_of(location: Any) -> int:
    return -1 if location.strand == -1 else 1


def _plain_quals(qualifiers: dict, drop: set = frozenset()) -> dict:
    out = {}
    for key, val in qualifiers.items():
        if key in drop:
            continue
        if isinstance(val, (list, tuple)):
            if not val:
                continue        # an empty value list is not written at all
            out[key] = [str(v) for v in val]
        elif val is None:
            out[key] = [""]         # a flag qualifier (/complete) is read back as ['']
        else:
            out[key] = [str(val)]
    return out


def bio_snapshot(bio: Any) -> dict:
    """ value snapshot of a SeqRecord """
    return {
        "seq": str(bio.seq), "id": bio.id, "name": bio.name, "description": bio.description,
        "annotations": copy.deepcopy(dict(bio.annotations)),
        "features": [[f.type, str(f.location), type(f.location).__name__, copy.deepcopy(_plain_quals(f.qualifiers))]
                     for f in bio.features],
    }


# ---------------------------------------------------------------------------------------------
# views used to compare loaded records

def _identity_proto(proto: Any, area: Any) -> list:
    return [proto.product, type(proto).__name__, area(proto.location), area(proto.core_location)]


def region_view(record: Any, region: Any, mapping: dict | None) -> dict:
    """ Content of one region of a loaded record with all coordinates expressed as positions
        relative to the region (mapping: absolute -> relative position, None = already relative).
        Derived membership lists (member genes) are not part of the view. """
    # pylint: disable=too-many-locals
    from bounded import _c10_observe as observe

    def rel(location: Any) -> Any:
        pos = positions(location)
        if mapping is None:
            return [strand_of(location), list(pos)]
        if any(p not in mapping for p in pos):
            return None
        return [strand_of(location), [mapping[p] for p in pos]]

    features = []
    groups = [record.get_generics(), record.get_genes(), record.get_cds_features(), record.get_cds_motifs(),
              record.get_antismash_domains(), record.get_pfam_domains(), record.get_modules()]
    for group in groups:
        for feature in group:
            where = rel(feature.location)
            if where is None:
                continue
            typed = observe._typed(feature)  # pylint: disable=protected-access
            typed.pop("modules", None)
            typed.pop("in_region", None)
            if typed["class"] == "ExternalCDSMotif":
                typed["domain_id"] = None       # generated from the coordinates on load
            if "gene_functions" in typed:
                # as written: the parsing of gene function texts is C10's subject
                typed["gene_functions"] = sorted(str(a) for a in feature.gene_functions)
            bio = feature.to_biopython()
            quals = [[b.type, _plain_quals(b.qualifiers, ADJUSTED)] for b in (bio if isinstance(bio, list) else [bio])]
            features.append([feature.type, where, typed, quals])
    features.sort(key=repr)

    def area(location: Any) -> Any:
        """ the bases of an area (areas have no direction; their strand is whatever connect_locations gave) """
        where = rel(location)
        return None if where is None else sorted(where[1])

    protos = sorted((_identity_proto(p, area) + [p.product_category, p.tool, p.cutoff, p.neighbourhood_range,
                                                  p.detection_rule] for p in region.get_unique_protoclusters()),
                    key=repr)
    # the order of a candidate's protoclusters (and so of its products) follows the coordinates, which
    # legitimately differ between a circular record and its linearised extract: compared as sets
    candidates = sorted(([str(c.kind), area(c.location), sorted(_identity_proto(p, area) for p in c.protoclusters),
                          sorted(c.products)] for c in region.candidate_clusters), key=repr)
    subregions = sorted(([s.tool, s.label, type(s).__name__, area(s.location),
                          dict(getattr(s, "extra_qualifiers", {}) or {})] for s in region.subregions), key=repr)
    return {"features": features, "protoclusters": protos, "candidates": candidates, "subregions": subregions,
            "region": [area(region.location), sorted(region.products)]}


# ---------------------------------------------------------------------------------------------

class _RecordRun:
    """ One record, its shared SeqRecord, and the evaluation of its regions in writing order """

    def __init__(self, spec: dict) -> None:
        from bounded import _c10_factory as factory, _c10_observe as observe
        from bounded.C10 import missing_links
        self.spec = {k: v for k, v in spec.items() if k not in ("tags", "region", "only")}
        self.record = factory.build(self.spec)
        if self.spec.get("relink"):
            for area, cds in missing_links(self.record):
                area.add_cds(cds)
        self.link_miss = bool(missing_links(self.record))
        self.regions = list(self.record.get_regions())
        self.bio = self.record.to_biopython()
        # as in main.write_outputs: the full record already carries its antiSMASH-Data structured comment
        # (main.add_antismash_comments) when the region files are written from the shared SeqRecord
        self.bio.annotations.setdefault("structured_comment", {})["antiSMASH-Data"] = {
            "Version": "verif", "Run date": "2026-01-01 00:00:00"}
        self.before_bio = bio_snapshot(self.bio)
        # taken after the conversion: side effects of to_biopython itself are C10's subject
        self.before_record = observe.dump(copy.deepcopy(self.record)) if self.regions else None
        self.full_features = [(f.type, strand_of(f.location), positions(f.location),
                               _plain_quals(f.qualifiers)) for f in self.bio.features]
        self.full_reloaded = None
        self.broken = False
        self.tmpdir = tempfile.mkdtemp(prefix="c12-")
        if self.regions:
            self.full_reload()      # from the pristine SeqRecord, before any region is written

    def close(self) -> None:
        shutil.rmtree(self.tmpdir, ignore_errors=True)

    def full_reload(self) -> Any:
        """ the full GenBank output of the same SeqRecord, loaded (None if that fails: C10's subject) """
        if self.full_reloaded is None:
            from Bio import SeqIO
            from antismash.common.secmet import Record
            try:
                handle = io.StringIO()
                SeqIO.write([copy.deepcopy(self.bio)], handle, "genbank")
                bios = list(SeqIO.parse(io.StringIO(handle.getvalue()), "genbank"))
                # qualifier values as GenBank text gives them back (a word too long for one line comes back
                # with a space inside): the full output and the extract are compared in the same representation
                as_text = [_plain_quals(f.qualifiers) for f in bios[0].features]
                if [f.type for f in bios[0].features] == [f[0] for f in self.full_features]:
                    self.full_features = [old[:3] + (new,) for old, new in zip(self.full_features, as_text)]
                self.full_reloaded = Record.from_biopython(bios[0], self.spec.get("taxon", "bacteria"))
            except Exception:  # pylint: disable=broad-except
                self.full_reloaded = False
        return self.full_reloaded or None

    def tags(self, index: int) -> list[str]:
        region = self.regions[index]
        tags = []
        cands = [c.get_candidate_cluster_number() for c in region.candidate_clusters]
        subs = [s.get_subregion_number() for s in region.subregions]
        protos = [p.get_protocluster_number() for p in region.get_unique_protoclusters()]
        if cands and min(cands) > 1:
            tags.append("first-candidate>1")
        if subs and min(subs) > 1:
            tags.append("first-subregion>1")
        if protos and min(protos) > 1:
            tags.append("first-protocluster>1")
        for numbers in (cands, subs, protos):
            if numbers and sorted(numbers) != list(range(min(numbers), min(numbers) + len(numbers))):
                tags.append("numbers-not-contiguous")
        if len(region.location.parts) > 1:
            tags.append("origin-region")
            if len(region_positions(region)) == len(self.record):
                tags.append("whole-circle-region")
        if index > 0:
            tags.append("later-region")
        # on load antismash numbers the areas by their order in the extract (start, then longer first);
        # is that the order of their numbers in the full record?
        relmap = {pos: i for i, pos in enumerate(region_positions(region))}
        for areas, number in ((region.get_unique_protoclusters(), lambda a: a.get_protocluster_number()),
                              (region.candidate_clusters, lambda a: a.get_candidate_cluster_number()),
                              (region.subregions, lambda a: a.get_subregion_number())):
            by_number = sorted(areas, key=number)
            keys = []
            for area in by_number:
                rel = [relmap.get(p, -1) for p in positions(area.location)]
                keys.append((min(rel), -len(rel)))
            if any(later < earlier for earlier, later in zip(keys, keys[1:])):
                tags.append("extract-order-differs")
        # a gene with codon_start: a member of the region by its shifted location, but written unshifted
        for cds in region.cds_children:
            shift = cds._original_codon_start  # pylint: disable=protected-access
            if shift:
                low, high = min(positions(cds.location)), max(positions(cds.location))
                written = set(range(low - shift, high + 1)) if cds.location.strand != -1 else set(range(low, high + 1 + shift))
                if not written <= set(relmap):
                    tags.append("frameshifted-gene-cut")
        # shapes of the features inside the region (plain coordinates of the full record's features)
        mapping = {pos: i for i, pos in enumerate(region_positions(region))}
        inside = set(mapping)
        post_origin = set(range(0, int(region.location.parts[-1].end))) if len(region.location.parts) > 1 else set()
        for ftype, strand, pos, quals in self.full_features:
            if not set(pos) <= inside:
                if len(region.location.parts) > 1 and any(b - a != strand and {a, b} == {0, len(self.record) - 1}
                                                          for a, b in zip(pos, pos[1:])):
                    tags.append("origin-feature-outside")   # steps over the origin, not inside the region
                continue
            if ftype == "CDS_motif":
                pieces = set(pos)
                for key in ("leader_location", "tail_location"):
                    if key in quals:
                        extra = set(string_positions(quals[key][0]))
                        pieces |= extra
                        if not extra <= inside:
                            tags.append("prepeptide-cut")
                        if extra & post_origin or set(pos) & post_origin:
                            tags.append("prepeptide-post-origin")
                if len(pieces) > len(pos) and pieces & post_origin and pieces - post_origin:
                    # leader/core/tail of a gene over the origin: Feature.get_sub_location_from_protein_coordinates
                    # (C09) places them in the wrong order, each piece on its own runs with the strand
                    tags.append("prepeptide-over-origin")
            # in the coordinates of the linearised region a feature runs in one direction
            relative = [mapping[p] for p in pos]
            if any((b - a) * strand < 0 for a, b in zip(relative, relative[1:])):
                tags.append("parts-against-strand")
            # several exons from the first to the last base of the extract
            if (min(relative) == 0 and max(relative) == len(mapping) - 1
                    and any(abs(b - a) != 1 for a, b in zip(relative, relative[1:]))):
                tags.append("exons-span-region")
        return sorted(set(tags))

    # -- one region ------------------------------------------------------------------------
    def evaluate(self, index: int) -> tuple[list[tuple[str, bool, str]], bool]:
        # pylint: disable=too-many-locals,too-many-branches,too-many-statements
        from Bio import SeqIO
        from antismash.common.secmet import Record
        from bounded import _c10_observe as observe

        results: list[tuple[str, bool, str]] = []
        region = self.regions[index]
        base_order = region_positions(region)
        mapping = {pos: i for i, pos in enumerate(base_order)}
        inside = set(base_order)
        full_seq = str(self.record.seq)

        expected_features = [f for f in self.full_features if set(f[2]) <= inside]
        nontrivial = (any(f[0] == "CDS" for f in expected_features)
                      and len({f[0] for f in expected_features}) >= 3)

        path = os.path.join(self.tmpdir, f"region{index}.gbk")
        try:
            region.write_to_genbank(filename=f"region{index}.gbk", directory=self.tmpdir, record=self.bio)
            results.append(("write-ok", True, ""))
        except Exception:  # pylint: disable=broad-except
            # the property speaks of written files: nothing more is demanded after a failed write, and
            # the shared SeqRecord is left half-modified (the pipeline would have stopped here)
            results.append(("write-ok", False, traceback.format_exc(limit=8)))
            self.broken = True
            return results, nontrivial

        with open(path, encoding="utf-8") as handle:
            text = handle.read()
        try:
            raws = list(SeqIO.parse(io.StringIO(text), "genbank"))
        except Exception:  # pylint: disable=broad-except
            results.append(("one-record", False, "file cannot be parsed: " + traceback.format_exc(limit=4)))
            self._parent_checks(results)
            return results, nontrivial
        results.append(("one-record", len(raws) == 1, f"{len(raws)} records in the file"))
        if len(raws) != 1:
            self._parent_checks(results)
            return results, nontrivial
        raw = raws[0]

        wanted = "".join(full_seq[pos] for pos in base_order)
        results.append(("sequence", str(raw.seq) == wanted,
                        f"expected {wanted[:40]}...({len(wanted)}), file has {str(raw.seq)[:40]}...({len(raw.seq)})"))

        # features: same type/strand/bases, other qualifiers equal
        expected_keys: dict[tuple, list] = {}
        for ftype, strand, pos, quals in expected_features:
            key = (ftype, strand, tuple(mapping[p] for p in pos))
            expected_keys.setdefault(key, []).append(quals)
        found_keys: dict[tuple, list] = {}
        for feature in raw.features:
            key = (feature.type, strand_of(feature.location), positions(feature.location))
            found_keys.setdefault(key, []).append(_plain_quals(feature.qualifiers))
        problems = []
        for key in sorted(set(expected_keys) | set(found_keys), key=repr):
            exp, fnd = expected_keys.get(key, []), found_keys.get(key, [])
            label = f"{key[0]} strand {key[1]} at {_ranges(key[2])}"
            if len(exp) != len(fnd):
                problems.append(f"{label}: {len(exp)} expected, {len(fnd)} in file")
                continue
            strip = lambda q: {k: v for k, v in q.items() if k not in ADJUSTED}  # noqa: E731
            if sorted((strip(q) for q in exp), key=repr) != sorted((strip(q) for q in fnd), key=repr):
                problems.append(f"{label}: qualifiers changed: {observe.diff(strip(exp[0]), strip(fnd[0]))}")
        results.append(("features-same-bases", not problems, "; ".join(problems[:6])))

        self._reference_checks(results, region, raw, mapping)

        # load with antismash
        loaded = None
        try:
            records = Record.from_genbank(path, taxon=self.spec.get("taxon", "bacteria"))
            ok = len(records) == 1 and len(records[0].get_regions()) == 1
            detail = "" if ok else f"{len(records)} records, {[len(r.get_regions()) for r in records]} regions"
            results.append(("reloads-one-region", ok, detail))
            if ok:
                loaded = records[0]
        except Exception:  # pylint: disable=broad-except
            results.append(("reloads-one-region", False, traceback.format_exc(limit=6)))

        reference_record, reference_region = self.record, region
        full = self.full_reload()
        if full is not None:
            twins = [r for r in full.get_regions() if positions(r.location) == positions(region.location)]
            if len(twins) == 1:
                reference_record, reference_region = full, twins[0]
        expected_view = region_view(reference_record, reference_region, mapping)
        if loaded is not None:
            view = region_view(loaded, loaded.get_regions()[0], None)
            differences = [] if observe.same(expected_view, view) else observe.diff(expected_view, view)
            results.append(("reloaded-same-content", not differences, "; ".join(differences)))

        failed = {clause for clause, ok, _ in results if not ok}
        if failed & {"region-candidate-refs", "region-subregion-refs"}:
            self._repaired_reload(results, raw, expected_view)

        self._parent_checks(results)
        return results, nontrivial

    def _reference_checks(self, results: list, region: Any, raw: Any, mapping: dict) -> None:
        """ numbering and cross references as literally written in the file """
        # pylint: disable=too-many-locals,too-many-branches
        def rel(location: Any) -> tuple:
            return tuple(mapping.get(p, -1) for p in positions(location))

        def numbers(feature: Any, key: str) -> list[int]:
            return [int(v) for v in feature.qualifiers.get(key, [])]

        by_type: dict[str, list] = {}
        for feature in raw.features:
            by_type.setdefault(feature.type, []).append(feature)

        problems = []
        file_protos: dict[int, tuple] = {}     # number in file -> identity
        for feature in by_type.get("protocluster", []):
            nums = numbers(feature, "protocluster_number")
            ident = (feature.qualifiers.get("product", [""])[0], positions(feature.location))
            if len(nums) != 1 or nums[0] in file_protos:
                problems.append(f"protocluster numbers {nums} (duplicate or missing)")
            else:
                file_protos[nums[0]] = ident
        if sorted(file_protos) != list(range(1, len(by_type.get("protocluster", [])) + 1)):
            problems.append(f"protocluster numbers are {sorted(file_protos)}")
        # proto_core carries the number of its protocluster
        protos = list(region.get_unique_protoclusters())
        core_of = {(p.product, rel(p.location)): rel(p.core_location) for p in protos}
        for feature in by_type.get("proto_core", []):
            nums = numbers(feature, "protocluster_number")
            owner = file_protos.get(nums[0]) if len(nums) == 1 else None
            if owner is None or core_of.get(owner) != positions(feature.location):
                problems.append(f"proto_core at {_ranges(positions(feature.location))} numbered {nums}, "
                                f"which is {owner}")
        file_cands: dict[int, Any] = {}
        for feature in by_type.get("cand_cluster", []):
            nums = numbers(feature, "candidate_cluster_number")
            if len(nums) != 1 or nums[0] in file_cands:
                problems.append(f"candidate numbers {nums} (duplicate or missing)")
            else:
                file_cands[nums[0]] = feature
        if sorted(file_cands) != list(range(1, len(by_type.get("cand_cluster", [])) + 1)):
            problems.append(f"candidate cluster numbers are {sorted(file_cands)}")
        file_subs: dict[int, Any] = {}
        for feature in by_type.get("subregion", []):
            nums = numbers(feature, "subregion_number")
            if len(nums) != 1 or nums[0] in file_subs:
                problems.append(f"subregion numbers {nums} (duplicate or missing)")
            else:
                file_subs[nums[0]] = feature
        if sorted(file_subs) != list(range(1, len(by_type.get("subregion", [])) + 1)):
            problems.append(f"subregion numbers are {sorted(file_subs)}")
        if protos or region.subregions:
            results.append(("numbering-from-1", not problems, "; ".join(problems[:6])))

        # candidate -> protoclusters
        if region.candidate_clusters:
            problems = []
            wanted = {}
            for cand in region.candidate_clusters:
                key = (str(cand.kind), rel(cand.location))
                wanted.setdefault(key, []).append(sorted((p.product, rel(p.location)) for p in cand.protoclusters))
            found: dict[tuple, list] = {}
            for feature in by_type.get("cand_cluster", []):
                key = (feature.qualifiers.get("kind", [""])[0], positions(feature.location))
                members = [file_protos.get(num, ("?", num)) for num in numbers(feature, "protoclusters")]
                found.setdefault(key, []).append(sorted(members, key=repr))
            for key in sorted(set(wanted) | set(found), key=repr):
                if sorted(wanted.get(key, []), key=repr) != sorted(found.get(key, []), key=repr):
                    problems.append(f"cand_cluster {key[0]} at {_ranges(key[1])}: protoclusters "
                                    f"{_short(found.get(key))} instead of {_short(wanted.get(key))}")
            results.append(("candidate-protocluster-refs", not problems, "; ".join(problems[:4])))

        # region -> candidates / subregions
        region_features = by_type.get("region", [])
        if len(region_features) == 1:
            feature = region_features[0]
            if region.candidate_clusters:
                wanted_c = sorted(((str(c.kind), rel(c.location)) for c in region.candidate_clusters), key=repr)
                refs = numbers(feature, "candidate_cluster_numbers")
                found_c = sorted((((file_cands[n].qualifiers.get("kind", [""])[0], positions(file_cands[n].location))
                                   if n in file_cands else ("no such candidate", n)) for n in refs), key=repr)
                results.append(("region-candidate-refs", wanted_c == found_c,
                                f"candidate_cluster_numbers={refs} name {_short(found_c)}, the region's candidates "
                                f"are {_short(wanted_c)} numbered {sorted(file_cands)} in the file"))
            if region.subregions:
                wanted_s = sorted((rel(s.location) for s in region.subregions), key=repr)
                refs = numbers(feature, "subregion_numbers")
                found_s = sorted(((positions(file_subs[n].location) if n in file_subs else ("no such subregion", n))
                                  for n in refs), key=repr)
                results.append(("region-subregion-refs", wanted_s == found_s,
                                f"subregion_numbers={refs} name {_short(found_s)}, the region's subregions "
                                f"are {_short(wanted_s)} numbered {sorted(file_subs)} in the file"))

        # locations stored in qualifiers
        if protos:
            problems = []
            for feature in by_type.get("protocluster", []):
                ident = (feature.qualifiers.get("product", [""])[0], positions(feature.location))
                texts = feature.qualifiers.get("core_location", [])
                if ident in core_of and (len(texts) != 1 or string_positions(texts[0]) != core_of[ident]):
                    problems.append(f"protocluster {ident[0]} at {_ranges(ident[1])}: core_location={texts} "
                                    f"but the core is at {_ranges(core_of[ident])}")
            results.append(("core-locations", not problems, "; ".join(problems[:4])))
        # prepeptides: compare with the qualifiers of the same feature in the full record
        wanted_pre = {}
        for ftype, strand, pos, quals in self.full_features:
            if ftype == "CDS_motif" and ("leader_location" in quals or "tail_location" in quals):
                if all(p in mapping for p in pos):
                    key = (strand, tuple(mapping[p] for p in pos))
                    wanted_pre[key] = {k: tuple(mapping.get(p, -1) for p in string_positions(quals[k][0]))
                                       for k in ("leader_location", "tail_location") if k in quals}
        if wanted_pre:
            problems = []
            for feature in by_type.get("CDS_motif", []):
                key = (strand_of(feature.location), positions(feature.location))
                if key not in wanted_pre:
                    continue
                for qual, where in wanted_pre[key].items():
                    texts = feature.qualifiers.get(qual, [])
                    if len(texts) != 1 or string_positions(texts[0]) != where:
                        problems.append(f"{qual}={texts} of the core at {_ranges(key[1])} should cover {_ranges(where)}")
            results.append(("prepeptide-locations", not problems, "; ".join(problems[:4])))

    def _repaired_reload(self, results: list, raw: Any, expected_view: dict) -> None:
        """ the same file with only the region feature's two reference qualifiers corrected """
        from antismash.common.secmet import Record
        from bounded import _c10_observe as observe
        try:
            fixed = copy.deepcopy(raw)
            cands = [f for f in fixed.features if f.type == "cand_cluster"]
            subs = [f for f in fixed.features if f.type == "subregion"]
            for feature in fixed.features:
                if feature.type == "region":
                    feature.qualifiers["candidate_cluster_numbers"] = sorted(
                        (f.qualifiers["candidate_cluster_number"][0] for f in cands), key=int)
                    feature.qualifiers["subregion_numbers"] = sorted(
                        (f.qualifiers["subregion_number"][0] for f in subs), key=int)
            loaded = Record.from_biopython(fixed, self.spec.get("taxon", "bacteria"))
            if len(loaded.get_regions()) != 1:
                results.append(("reloaded-after-ref-repair", False, f"{len(loaded.get_regions())} regions"))
                return
            view = region_view(loaded, loaded.get_regions()[0], None)
            differences = [] if observe.same(expected_view, view) else observe.diff(expected_view, view)
            results.append(("reloaded-after-ref-repair", not differences, "; ".join(differences)))
        except Exception:  # pylint: disable=broad-except
            results.append(("reloaded-after-ref-repair", False, traceback.format_exc(limit=6)))

    def _parent_checks(self, results: list) -> None:
        from bounded import _c10_observe as observe
        # compared with the state just before this region was written
        after = bio_snapshot(self.bio)
        for clause, pick in (("parent-bio-unchanged", lambda snap: {k: v for k, v in snap.items() if k != "features"}
                              | {"features": [f[:3] for f in snap["features"]]}),
                             ("parent-bio-qualifiers-unchanged", lambda snap: [f[3] for f in snap["features"]])):
            was, now = pick(self.before_bio), pick(after)
            differences = [] if observe.same(was, now) else observe.diff(was, now)
            results.append((clause, not differences, "; ".join(differences)))
        self.before_bio = after
        try:
            now = observe.dump(copy.deepcopy(self.record))
            differences = [] if observe.same(self.before_record, now) else observe.diff(self.before_record, now)
            results.append(("parent-record-unchanged", not differences, "; ".join(differences)))
            self.before_record = now
        except Exception:  # pylint: disable=broad-except
            results.append(("parent-record-unchanged", False, traceback.format_exc(limit=6)))


def _ranges(pos: Any) -> str:
    """ compact text of a position tuple """
    pos = list(pos)
    if not pos:
        return "[]"
    out = []
    start = prev = pos[0]
    step = 0
    for cur in pos[1:]:
        if step == 0 and abs(cur - prev) == 1:
            step = cur - prev
        if cur - prev == step and step != 0:
            prev = cur
            continue
        out.append(f"{start}..{prev}")
        start = prev = cur
        step = 0
    out.append(f"{start}..{prev}")
    return ",".join(out)


def _short(obj: Any) -> str:
    if isinstance(obj, (list, tuple)):
        return "[" + ", ".join(_short(o) for o in obj) + "]"
    return str(obj) if not (isinstance(obj, tuple) and len(obj) > 6) else _ranges(obj)


# ---------------------------------------------------------------------------------------------
# driver interface

def shards(tier: str, seed: int) -> list:
    return [{"tier": tier, "index": i, "of": N_SHARDS, "seed": seed} for i in range(N_SHARDS)]


def run_record(spec: dict, run: Any, only: int | None = None) -> list[str]:
    """ evaluates all regions of the record in writing order; with `only`, reports that region only
        (the earlier ones are still written first, from the same SeqRecord) -> failed clause texts """
    failed: list[str] = []
    try:
        state = _RecordRun(spec)
    except Exception as err:  # pylint: disable=broad-except
        if only is not None:
            failed.append(f"factory could not build the record: {type(err).__name__}: {err}")
        return failed
    try:
        for index in range(len(state.regions)):
            if only is not None and index > only:
                break
            if state.broken:
                break
            results, nontrivial = state.evaluate(index)
            if only is not None and index != only:
                continue
            case = dict(state.spec)
            case["region"] = index
            case["tags"] = state.tags(index)
            for clause, ok, detail in results:
                clause = qualified(clause, case["tags"])
                if run is not None:
                    run.check(clause, ok, case, nontrivial=nontrivial, detail=detail)
                if not ok:
                    failed.append(f"{clause}: {detail}")
        link_miss = state.link_miss
    finally:
        state.close()
    if run is not None and link_miss and not spec.get("relink"):
        # member genes missed by Record.get_cds_features_within_location (C08): also run the record
        # with the links a re-read record has
        run_record(dict(spec, relink=1), run)
    return failed


def run_shard(shard: dict, run: Any) -> None:
    import logging
    from bounded import _c10_specs as specs
    logging.disable(logging.CRITICAL)   # antismash logs refused inputs; nothing may be printed here
    tier = shard["tier"]
    for i, spec in enumerate(specs.all_specs(tier)):
        if i % shard["of"] != shard["index"]:
            continue
        if tier == "thorough" and run.out_of_time():
            return
        run_record(spec, run)
    if tier == "thorough":
        # seeded random records until the budget is used (a fixed number when there is no deadline)
        done = 0
        while not run.out_of_time() and (run.deadline or done < 150):
            run_record(specs.random_spec(run.rng), run)
            done += 1


def replay(case: dict) -> list[str]:
    import logging
    logging.disable(logging.CRITICAL)
    failed = run_record(case, None, only=int(case.get("region", 0)))
    # a stored witness may name the clauses it is a witness for ("only": ["sequence", ...]); other
    # clauses (possibly failing for another known reason in the same region) are then not reported
    wanted = case.get("only")
    if wanted:
        failed = [line for line in failed if line.split(":", 1)[0].split("@", 1)[0] in wanted
                  or line.startswith("factory could not")]
    return failed


# input features under which a clause is known to fail on the pinned tree: such cases are counted under
# their own clause name '<clause>@<tags>' so that they neither hide nor crowd out the others
# (tags of repaired findings - first-candidate>1, first-subregion>1, origin-region at the parent qualifiers,
# prepeptide-post-origin, origin-feature-outside, exons-span-region - are still computed as a description of the
# case but no longer name a clause (likewise numbers-not-contiguous): C12-F1..F4, F6, F9, F7 are fixed in
# /repo (.., 85f7c167, b57beded, 7c3738fc); their cases
# are judged under the bare clause names again and their predicates below cannot match any clause name)
_CONTENT_TAGS = ["whole-circle-region", "extract-order-differs", "frameshifted-gene-cut"]
_LOADING_TAGS = list(_CONTENT_TAGS)
RELEVANT = {
    "sequence": ["whole-circle-region"],
    "numbering-from-1": ["whole-circle-region"],
    "candidate-protocluster-refs": ["whole-circle-region"],
    "core-locations": ["whole-circle-region"],
    "region-candidate-refs": ["whole-circle-region"],
    "region-subregion-refs": ["whole-circle-region"],
    "reloads-one-region": _LOADING_TAGS,
    "reloaded-same-content": _LOADING_TAGS + ["parts-against-strand", "prepeptide-over-origin"],
    "reloaded-after-ref-repair": _CONTENT_TAGS + ["parts-against-strand", "prepeptide-over-origin"],
    "features-same-bases": ["parts-against-strand", "whole-circle-region"],
}


def qualified(clause: str, tags: list[str]) -> str:
    present = [tag for tag in RELEVANT.get(clause, []) if tag in tags]
    return f"{clause}@{'+'.join(present)}" if present else clause


def _known(clause: str, case: Any, clauses: tuple, tag: str) -> bool:
    if "@" not in clause or not isinstance(case, dict):
        return False
    base, _, suffix = clause.partition("@")
    return base in clauses and tag in suffix.split("+") and tag in case.get("tags", [])


_LOADING = ("reloads-one-region", "reloaded-same-content", "reloaded-after-ref-repair")

FINDING_CLASSES: dict[str, Any] = {
    # C12-F1..F4 are repaired in /repo (57e0f6b3, 5d3fc866, f41a9a0a): their tags no longer appear in any
    # clause name, so these predicates cannot match; a recurrence is an ordinary (unclassified) failure
    # the region feature's candidate_cluster_numbers keep the numbers of the full record
    "C12-F1": lambda clause, case: _known(clause, case, ("region-candidate-refs",) + _LOADING, "first-candidate>1"),
    # the region feature's subregion_numbers keep the numbers of the full record
    "C12-F2": lambda clause, case: _known(clause, case, ("region-subregion-refs",) + _LOADING, "first-subregion>1"),
    # qualifiers of the parent's own origin-crossing features are rewritten and not restored
    "C12-F3": lambda clause, case: _known(clause, case, ("parent-bio-qualifiers-unchanged",), "origin-region"),
    # leader/tail locations after the origin of an origin-spanning region become negative
    "C12-F4": lambda clause, case: _known(clause, case, ("prepeptide-locations",) + _LOADING, "prepeptide-post-origin"),
    # a feature with parts on both sides of the origin that does not cross it in strand order is dropped
    "C12-F5": lambda clause, case: _known(clause, case, ("features-same-bases", "reloaded-same-content",
                                                         "reloaded-after-ref-repair"), "parts-against-strand")
    or _known(clause, case, ("reloaded-same-content", "reloaded-after-ref-repair"), "prepeptide-over-origin"),
    # every origin-crossing feature of the record is put into the file of an origin-spanning region,
    # also those not inside it (they then lie outside the extracted sequence)
    "C12-F6": lambda clause, case: _known(clause, case, ("write-ok", "features-same-bases") + _LOADING,
                                          "origin-feature-outside"),
    # 'n - first + 1' leaves gaps when the region's area numbers are not consecutive (origin-spanning
    # region holding the first and the last areas of the record)
    "C12-F7": lambda clause, case: _known(clause, case, ("numbering-from-1", "candidate-protocluster-refs",
                                                         "region-candidate-refs", "region-subregion-refs") + _LOADING,
                                          "numbers-not-contiguous"),
    # a region over the whole circle that does not start at 0: features over the whole record ([0:L),
    # e.g. the source feature or a whole-record candidate) are in neither slice and do not cross the origin
    "C12-F8": lambda clause, case: _known(clause, case, ("sequence", "features-same-bases", "numbering-from-1", "core-locations",
                                                         "candidate-protocluster-refs", "region-candidate-refs",
                                                         "region-subregion-refs") + _LOADING, "whole-circle-region"),
    # a multi-exon feature from the first to the last base of the extract is refused on load as an
    # 'origin spanning exon in a linear record'
    "C12-F9": lambda clause, case: _known(clause, case, _LOADING, "exons-span-region"),
    # numbers are resolved by position in the sorted area lists on load: in the extract of an origin-spanning
    # region the areas can sort differently than in the full record, so 'n - first + 1' names other areas
    "C12-F10": lambda clause, case: _known(clause, case, _LOADING, "extract-order-differs"),
    # a partial gene with codon_start whose shifted location starts exactly at the region start: its
    # domains/modules are extracted, the CDS itself (written unshifted) is not
    "C12-F11": lambda clause, case: _known(clause, case, _LOADING, "frameshifted-gene-cut"),
}
