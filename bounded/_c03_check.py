"""Private helper of bounded/C03.py (and C07.py): evaluation of every clause of property C03 on
one case, the case generators (layouts x hits x rulesets x topology) and small case utilities.

Clauses (each is one sentence of the statement):

  no-unexpected-exception      detection finishes on a legal input
  anchoring-genes              the genes a rule anchors on are those its condition designates,
                               neighbours being looked up within the rule's cutoff, also across the
                               origin (the premise "that rule's anchoring genes" of the statement)
  no-protocluster-without-anchor
  chains-maximal               the anchoring genes inside one reported core are exactly one maximal
                               group (components of "separated by less than the cutoff")
  one-protocluster-per-chain   every maximal group is reported once (rules without SUPERIORS);
                               never more than once in any case
  core-smallest-span           the core is a smallest span covering the group (hull on a line,
                               complement of a largest gap on a ring; any of them on a tie)
  extenders-core               with EXTENDERS: the core is a smallest span covering the group and
                               admissible extender genes, containing every extender gene chained to
                               the group by less than the cutoff
  neighbourhood                protocluster = core widened by the neighbourhood on both sides,
                               clipped on a line, wrapped on a ring
  dropped-when-superior-covers the protocluster is absent when a superior's core contains its core
  kept-unless-superior-covers  the protocluster is present when no superior's protocluster (with
                               neighbourhood) covers all of its anchoring genes

The last two implement "dropped when the cluster of one of its SUPERIORS covers its core genes, and
not otherwise" as a sandwich: only the cases where every reading of "covers its core genes" agrees
are demanded; the cases in between are accepted either way.
"""
from __future__ import annotations

import itertools
from typing import Any, Dict, Iterator, List, Optional, Sequence, Set, Tuple

from . import _c03_model as model

Result = Tuple[str, bool, str, Dict[str, Any]]   # clause, holds, detail, where (rule / group)


# ----------------------------------------------------------------------------------------------
#  case utilities
# ----------------------------------------------------------------------------------------------

def rotate_case(case: Dict[str, Any], cut: int) -> Dict[str, Any]:
    """ the same ring with base `cut` chosen as the new origin (own routine, pure arithmetic) """
    length = case["L"]
    assert case["circ"]
    genes = []
    for gene in case["genes"]:
        start, end, strand = gene[0], gene[1], gene[2]
        new_start = (start - cut) % length
        turned = [new_start, new_start + (end - start), strand]
        if len(gene) > 3:
            turned.append([[low + new_start - start, high + new_start - start] for low, high in gene[3]])
        genes.append(turned)
    new = dict(case)
    new["genes"] = genes
    return new


def valid_case(case: Dict[str, Any]) -> bool:
    """ structural sanity of a generated case (legal input of the pipeline) """
    length = case["L"]
    seen = set()
    for gene in case["genes"]:
        start, end, strand = gene[0], gene[1], gene[2]
        if not (0 <= start < length and 3 <= end - start < length and strand in (1, -1)):
            return False
        if len(gene) > 3:
            exons = gene[3]
            if exons[0][0] != start or exons[-1][1] != end or sum(h - l for l, h in exons) < 3:
                return False
            if any(l >= h for l, h in exons) or any(a[1] >= b[0] for a, b in zip(exons, exons[1:])):
                return False
        if end > length and not case["circ"]:
            return False
        key = (start, end)   # the record refuses two genes at one location
        if key in seen:
            return False
        seen.add(key)
    return len(case["genes"]) == len(case["hits"])


class Geometry:
    """ distances between the genes of a case (set-of-bases model) """
    def __init__(self, case: Dict[str, Any]) -> None:
        self.length = case["L"]
        self.circular = bool(case["circ"])
        self.bases = [model.gene_bases(g, self.length) for g in case["genes"]]
        self._dist: Dict[Tuple[int, int], int] = {}

    def dist(self, i: int, j: int) -> int:
        key = (min(i, j), max(i, j))
        if key not in self._dist:
            self._dist[key] = model.set_distance(self.bases[i], self.bases[j], self.length, self.circular)
        return self._dist[key]

    def union(self, genes: Sequence[int]) -> Set[int]:
        result: Set[int] = set()
        for i in genes:
            result |= self.bases[i]
        return result

    def spans(self, genes: Sequence[int]) -> List[Tuple[int, int]]:
        return model.smallest_spans(self.union(genes), self.length, self.circular)


def expected_anchors(case: Dict[str, Any], rule: Dict[str, Any], geo: Geometry) -> Set[int]:
    cutoff = rule["cut"]
    return model.anchors_of(rule["cond"], case["hits"], lambda i, j: geo.dist(i, j) < cutoff)


def chains(anchors: Set[int], cutoff: int, geo: Geometry) -> List[List[int]]:
    return model.components(sorted(anchors), lambda i, j: geo.dist(i, j) < cutoff)


def extender_closures(case: Dict[str, Any], rule: Dict[str, Any], group: Sequence[int],
                      geo: Geometry) -> Tuple[Set[int], Set[int]]:
    """ (must, may): extender genes that every reading admits / that some reading admits.
        must: chained to the group's genes (or an already admitted gene) by LESS than the cutoff;
        may:  within the cutoff (inclusive) of the span reached so far. """
    cutoff, ext, hits = rule["cut"], rule["ext"], case["hits"]
    candidates = [i for i in range(len(hits)) if i not in group and hits[i]
                  and model.extender_ok(ext, hits[i])]
    must: Set[int] = set()
    changed = True
    while changed:
        changed = False
        current = geo.union(list(group) + sorted(must))
        for i in candidates:
            if i in must:
                continue
            if model.set_distance(geo.bases[i], current, geo.length, geo.circular) < cutoff:
                must.add(i)
                changed = True
                break
    may: Set[int] = set(must)
    changed = True
    while changed:
        changed = False
        variants = geo.spans(list(group) + sorted(may))
        for i in candidates:
            if i in may:
                continue
            reach = min(model.set_distance(geo.bases[i], model.span_bases(v, geo.length),
                                           geo.length, geo.circular) for v in variants)
            if reach <= cutoff:
                may.add(i)
                changed = True
                break
    return must, may


# ----------------------------------------------------------------------------------------------
#  clause evaluation
# ----------------------------------------------------------------------------------------------

def rule_uses(case: Dict[str, Any]) -> None:
    """ generator discipline: the sandwich clauses are only sound for these shapes """
    names = {r["n"] for r in case["rules"]}
    by_name = {r["n"]: r for r in case["rules"]}
    for rule in case["rules"]:
        for sup in rule.get("sup") or []:
            if sup in names:
                assert not by_name[sup].get("sup"), "chains of superiors are not generated"
                assert not by_name[sup].get("ext"), "a superior with extenders is not generated"
        if rule.get("ext"):
            assert not rule.get("sup"), "extenders on an inferior rule are not generated"
        assert rule["cut"] >= 1 and rule["nb"] >= 0


def evaluate(case: Dict[str, Any], obs: Optional[model.Observed] = None) -> List[Result]:
    """ every clause of C03 on one case: list of (clause, holds, detail, where) """
    rule_uses(case)
    if obs is None:
        obs = model.observe(case)
    out: List[Result] = []

    def emit(clause: str, holds: bool, detail: str = "", **where: Any) -> None:
        out.append((clause, bool(holds), "" if holds else detail, where))

    if obs.error is not None:
        emit("no-unexpected-exception", False, obs.error)
        return out
    emit("no-unexpected-exception", True)

    geo = Geometry(case)
    length, circular = geo.length, geo.circular
    by_name = {r["n"]: r for r in case["rules"]}
    reported_anchors = {r["n"]: set(obs.rule_hits.get(r["n"], set())) for r in case["rules"]}
    rule_chains = {r["n"]: chains(reported_anchors[r["n"]], r["cut"], geo) for r in case["rules"]}
    stray = sorted({p["rule"] for p in obs.protoclusters} - set(by_name))
    if stray:
        emit("no-protocluster-without-anchor", False, f"protoclusters of unknown rules {stray}")

    for rule in case["rules"]:
        name, cutoff, nbh = rule["n"], rule["cut"], rule["nb"]
        # -- the premise: which genes anchor
        expected = expected_anchors(case, rule, geo)
        anchors = reported_anchors[name]
        emit("anchoring-genes", anchors == expected,
             f"rule {name} ({rule['cond']}, cutoff {cutoff}): anchors reported {sorted(anchors)} "
             f"expected {sorted(expected)}", rule=name)

        groups = rule_chains[name]
        protos = [p for p in obs.protoclusters if p["rule"] == name]
        inside = [sorted(i for i in anchors if geo.bases[i] <= p["core"]) for p in protos]

        # -- extender closures and entanglement (only for rules with EXTENDERS)
        has_ext = bool(rule.get("ext"))
        must: Dict[int, Set[int]] = {}
        may: Dict[int, Set[int]] = {}
        tangled: Set[int] = set()
        if has_ext:
            reach = []
            for gi, group in enumerate(groups):
                must[gi], may[gi] = extender_closures(case, rule, group, geo)
                reach.append(geo.union(list(group) + sorted(may[gi])))
            for gi, gj in itertools.combinations(range(len(groups)), 2):
                variants_i = model.smallest_spans(reach[gi], length, circular)
                variants_j = model.smallest_spans(reach[gj], length, circular)
                closest = min(model.set_distance(model.span_bases(a, length), model.span_bases(b, length),
                                                 length, circular)
                              for a in variants_i for b in variants_j)
                if closest <= cutoff:
                    tangled.update((gi, gj))

        sup_names = [s for s in (rule.get("sup") or []) if s in by_name]
        sup_info: Dict[str, Any] = {"sup_groups": {s: rule_chains[s] for s in sup_names}} if sup_names else {}
        if has_ext:
            # the chains together with their admissible extender genes (input of the chain clauses)
            sup_info["reach"] = [sorted(set(g) | may[gi]) for gi, g in enumerate(groups)]

        # -- every protocluster holds anchors, and exactly one maximal group of them
        for proto, mine in zip(protos, inside):
            emit("no-protocluster-without-anchor", bool(mine),
                 f"rule {name}: core {proto['core_parts']} holds no anchoring gene of {sorted(anchors)}",
                 rule=name)
            if not mine:
                continue
            if has_ext and any(gi in tangled for gi, g in enumerate(groups) if set(g) & set(mine)):
                continue
            emit("chains-maximal", mine in groups,
                 f"rule {name} cutoff {cutoff}: core {proto['core_parts']} holds anchors {mine}; "
                 f"maximal groups are {groups}", rule=name, genes=mine, groups=groups, **sup_info)

        # -- per maximal group: presence, core, superiors
        for gi, group in enumerate(groups):
            if has_ext and gi in tangled:
                continue
            matching = [p for p, mine in zip(protos, inside) if mine == group]
            variants = geo.spans(group)
            status = "keep"
            sups = [s for s in (rule.get("sup") or []) if s in by_name]
            if sups:
                strong = False
                weak = False
                my_cores = [model.span_bases(v, length) for v in variants]
                my_genes = geo.union(group)
                for sup in sups:
                    srule = by_name[sup]
                    for other in rule_chains[sup]:
                        other_variants = geo.spans(other)
                        if all(mc <= model.span_bases(ov, length) for ov in other_variants for mc in my_cores):
                            strong = True
                        if any(my_genes <= model.widen(ov, srule["nb"], length, circular) for ov in other_variants):
                            weak = True
                status = "drop" if strong else ("either" if weak else "keep")
            reported = [p["core_parts"] for p in protos]
            if status == "drop":
                emit("dropped-when-superior-covers", not matching,
                     f"rule {name}: group {group} core {variants} lies inside a core of a superior "
                     f"{sups} but is reported {[p['core_parts'] for p in matching]}", rule=name, genes=group,
                     groups=groups, **sup_info)
                continue
            if status == "keep" and sups:
                emit("kept-unless-superior-covers", len(matching) >= 1,
                     f"rule {name}: group {group} is covered by no protocluster of {sups} but none of "
                     f"{reported} reports it", rule=name, genes=group, groups=groups, **sup_info)
            elif status == "keep":
                emit("one-protocluster-per-chain", len(matching) == 1,
                     f"rule {name} cutoff {cutoff}: group {group} reported {len(matching)} times; cores "
                     f"{reported} hold {inside}", rule=name, genes=group, groups=groups, **sup_info)
            if sups:
                emit("one-protocluster-per-chain", len(matching) <= 1,
                     f"rule {name}: group {group} reported {len(matching)} times", rule=name, genes=group,
                     groups=groups, **sup_info)
            for proto in matching:
                if has_ext:
                    needed = geo.union(list(group) + sorted(must[gi]))
                    got = [i for i in may[gi] if geo.bases[i] <= proto["core"]]
                    allowed = [model.span_bases(v, length) for v in geo.spans(list(group) + got)]
                    good = needed <= proto["core"] and proto["core"] in allowed
                    emit("extenders-core", good,
                         f"rule {name} cutoff {cutoff} extenders {rule['ext']}: group {group}, must admit "
                         f"{sorted(must[gi])}, may admit {sorted(may[gi])}; core {proto['core_parts']}",
                         rule=name, genes=group, may=sorted(may[gi]), groups=groups)
                else:
                    allowed = [model.span_bases(v, length) for v in variants]
                    emit("core-smallest-span", proto["core"] in allowed,
                         f"rule {name}: group {group} smallest span(s) {variants}; core {proto['core_parts']}",
                         rule=name, genes=group)

        # -- neighbourhood of every reported protocluster, relative to its own core
        for proto, mine in zip(protos, inside):
            span = model.bases_to_span(proto["core"], length)
            if span is None or (not circular and len(proto["core_parts"]) != 1):
                emit("neighbourhood", False, f"rule {name}: core {proto['core_parts']} is not one span",
                     rule=name, core=proto["core_parts"])
                continue
            wanted = model.widen(span, nbh, length, circular)
            emit("neighbourhood", proto["loc"] == wanted,
                 f"rule {name} neighbourhood {nbh}: core {proto['core_parts']} -> {proto['loc_parts']}, "
                 f"wanted bases {describe(wanted, length)}", rule=name, core=proto["core_parts"])
    return out


def describe(bases: Any, length: int) -> str:
    """ compact text of a set of bases """
    have = sorted(bases)
    if not have:
        return "{}"
    runs = []
    start = prev = have[0]
    for x in have[1:]:
        if x != prev + 1:
            runs.append((start, prev + 1))
            start = x
        prev = x
    runs.append((start, prev + 1))
    return " ".join(f"[{a}:{b})" for a, b in runs) + f" of {length}"


def is_nontrivial(case: Dict[str, Any]) -> bool:
    """ at least two anchoring genes of one rule whose separation is within cutoff +- 1, or that
        are chained across the origin (or one of them spans it) """
    geo = Geometry(case)
    for rule in case["rules"]:
        anchors = sorted(expected_anchors(case, rule, geo))
        for i, j in itertools.combinations(anchors, 2):
            d = geo.dist(i, j)
            if abs(d - rule["cut"]) <= 1:
                return True
            if geo.circular and d < rule["cut"]:
                linear = model.set_distance(geo.bases[i], geo.bases[j], geo.length, False)
                if linear != d or case["genes"][i][1] > geo.length or case["genes"][j][1] > geo.length:
                    return True
    return False


# ----------------------------------------------------------------------------------------------
#  generators
# ----------------------------------------------------------------------------------------------

def ring_layout(lens: Sequence[int], gaps: Sequence[int]) -> Optional[Tuple[int, List[List[int]]]]:
    """ genes laid out from base 0 with the given gaps (negative = overlap / nesting), the last gap
        closing the ring: (L, [[s, e], ...]) or None when it is not a legal ring """
    pos = 0
    spans = []
    for size, gap in zip(lens, gaps):
        if pos < 0:
            return None
        spans.append([pos, pos + size])
        pos = pos + size + gap
    length = pos
    if length < max(e for _, e in spans) - 2:   # the last gene may overlap gene 0 by at most 2 over the origin
        return None
    if length < 8 or any(e - s >= length for s, e in spans):
        return None
    if any(s >= length for s, _ in spans):
        return None
    return length, spans


def line_layout(lens: Sequence[int], gaps: Sequence[int], lead: int, tail: int
                ) -> Optional[Tuple[int, List[List[int]]]]:
    """ genes on a line: `lead` bases before the first gene, `tail` after the right-most end """
    pos = lead
    spans = []
    for size, gap in zip(lens, list(gaps) + [0]):
        if pos < 0:
            return None
        spans.append([pos, pos + size])
        pos = pos + size + gap
    length = max(e for _, e in spans) + tail
    return length, spans


def cut_points(length: int, spans: Sequence[Sequence[int]], level: int) -> List[int]:
    """ origins worth choosing on a ring. level -2: the start of the first gene, one base inside it, the
        middle of the free bases; level -1: every gene start, one base inside the first gene, the
        middle of the free bases; level 0: gene starts, one base inside, gene ends, middle of the free
        bases; level 1: also one base before each gene end """
    cuts = []
    for index, (start, end) in enumerate(spans):
        if level <= -2 and index > 0:
            break
        cuts.append(start % length)
        if level >= 0 or index == 0:
            cuts.append((start + 1) % length)
        if level >= 0:
            cuts.append(end % length)
        if level >= 1:
            cuts.append((end - 1) % length)
    covered = set()
    for start, end in spans:
        covered.update(x % length for x in range(start, end))
    free = [x for x in range(length) if x not in covered]
    if free:
        cuts.append(free[len(free) // 2])
    seen: List[int] = []
    for cut in cuts:
        if cut not in seen:
            seen.append(cut)
    return seen


def strands_for(count: int, flavour: int) -> List[int]:
    return [1 if (i + flavour) % 2 == 0 else -1 for i in range(count)]


def make_case(length: int, circular: bool, spans: Sequence[Sequence[int]], strands: Sequence[int],
              hits: Sequence[str], rules: Sequence[Dict[str, Any]]) -> Dict[str, Any]:
    return {"L": length, "circ": 1 if circular else 0,
            "genes": [[s, e, st] for (s, e), st in zip(spans, strands)],
            "hits": list(hits), "rules": [dict(r) for r in rules]}


def family_cases(fam: Dict[str, Any]) -> Iterator[Dict[str, Any]]:
    """ all cases of one family description:
          lens, gaps (menu per position or one menu), hits (list of tuples), rulesets (list of
          rule lists), ring (bool), cuts level, line leads/tails """
    lens = fam["lens"]
    count = len(lens)
    menus = fam["gaps"]
    if not isinstance(menus[0], (list, tuple)):
        menus = [menus] * count
    serial = 0
    if fam.get("ring", True):
        for gaps in itertools.product(*menus[:count]):
            laid = ring_layout(lens, gaps)
            if laid is None:
                continue
            length, spans = laid
            serial += 1
            for cut in cut_points(length, spans, fam.get("cuts", 0)):
                for hits in fam["hits"]:
                    for rules in fam["rulesets"]:
                        base = make_case(length, True, spans, strands_for(count, serial), hits, rules)
                        base["genes"] = [[s % length, s % length + (e - s), st] for s, e, st in base["genes"]]
                        case = rotate_case(base, cut)
                        if valid_case(case):
                            yield case
    for lead in fam.get("leads", []):
        for tail in fam.get("tails", []):
            for gaps in itertools.product(*menus[:count - 1]):
                laid = line_layout(lens, gaps, lead, tail)
                if laid is None:
                    continue
                length, spans = laid
                serial += 1
                for hits in fam["hits"]:
                    for rules in fam["rulesets"]:
                        case = make_case(length, False, spans, strands_for(count, serial), hits, rules)
                        if valid_case(case):
                            yield case


# ----------------------------------------------------------------------------------------------
#  what C07 needs from the C03 oracle: the areas a record should yield, and their regions
# ----------------------------------------------------------------------------------------------

def expected_areas(case: Dict[str, Any]) -> List[Tuple[str, List[int], Any]]:
    """ (rule, chain, bases of the protocluster) for every maximal chain of every rule, extender
        genes admitted generously and nothing dropped for SUPERIORS (an over-approximation of what
        may be reported, used only to decide whether the regions stay below half the record) """
    geo = Geometry(case)
    areas = []
    for rule in case["rules"]:
        anchors = expected_anchors(case, rule, geo)
        for group in chains(anchors, rule["cut"], geo):
            members = list(group)
            if rule.get("ext"):
                _, may = extender_closures(case, rule, group, geo)
                members += sorted(may)
            for span in geo.spans(members):
                areas.append((rule["n"], list(group), model.widen(span, rule["nb"], geo.length, geo.circular)))
    return areas


def expected_region_sizes(case: Dict[str, Any]) -> List[int]:
    """ sizes (smallest covering span) of the connected components of overlapping expected areas """
    areas = expected_areas(case)
    comps = model.components(list(range(len(areas))), lambda i, j: bool(areas[i][2] & areas[j][2]))
    sizes = []
    for comp in comps:
        union: Set[int] = set()
        for i in comp:
            union |= areas[i][2]
        sizes.append(model.smallest_spans(union, case["L"], bool(case["circ"]))[0][1])
    return sizes


def regions_below_half(case: Dict[str, Any]) -> bool:
    """ the premise of C07's rotation clause: every region spans less than half the record """
    sizes = expected_region_sizes(case)
    return bool(sizes) and all(2 * size < case["L"] for size in sizes)
