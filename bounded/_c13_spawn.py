"""Spawn child interpreters with a given PYTHONHASHSEED (shared by bounded/C13.py and C17.py)."""
from __future__ import annotations

import json
import os
import subprocess
import sys
from typing import Any

VERIF = os.path.dirname(os.path.dirname(os.path.abspath(__file__)))


def antismash_init_file() -> str:
    import antismash  # pylint: disable=import-outside-toplevel
    return antismash.__file__ or ""


def run_child(module: str, func: str, arg: Any, hashseed: int, timeout: float = 900.0) -> Any:
    """ Runs module.func(arg) in a fresh interpreter with PYTHONHASHSEED=hashseed and returns its
        JSON result.  Raises RuntimeError for harness problems (never a property violation). """
    env = dict(os.environ)
    env["PYTHONHASHSEED"] = str(hashseed)
    env["PYTHONDONTWRITEBYTECODE"] = "1"
    job = {"sys_path": [p for p in sys.path if p], "antismash_file": antismash_init_file(),
           "module": module, "func": func, "arg": arg}
    proc = subprocess.run([sys.executable, "-m", "bounded._c13_child"], input=json.dumps(job),
                          capture_output=True, text=True, env=env, cwd=VERIF, timeout=timeout, check=False)
    if proc.returncode != 0 or not proc.stdout.strip():
        raise RuntimeError(f"child (seed {hashseed}) exited {proc.returncode}: {proc.stderr[-2000:]}")
    try:
        out = json.loads(proc.stdout[proc.stdout.index('{"ok"'):])
    except ValueError as err:
        raise RuntimeError(f"child (seed {hashseed}) printed no result: {proc.stdout[-500:]!r} "
                           f"{proc.stderr[-1500:]}") from err
    if not out.get("ok"):
        raise RuntimeError(f"child (seed {hashseed}) failed:\n{out.get('error')}")
    if str(out.get("hashseed")) != str(hashseed):
        raise RuntimeError(f"child ran with PYTHONHASHSEED={out.get('hashseed')!r}, wanted {hashseed}")
    return out["result"]
