"""Child-process entry for the hash-seed clauses of C13 / C17.

Started as  `python -m bounded._c13_child`  with PYTHONHASHSEED set by the parent; reads one JSON
job from stdin:  {"sys_path": [...], "antismash_file": "<expected antismash/__init__.py>",
                  "module": "bounded.C13", "func": "child_eval", "arg": <JSON>}
and prints  {"ok": true, "hashseed": "...", "result": <JSON>}  on stdout.

`antismash/__init__.py` imports antismash.main (and with it sklearn, matplotlib, ... ~4 s); the
modules under test do not need it, so the child registers an empty package object for the name
`antismash` that points at the real package directory: all submodules are the real files.
"""
from __future__ import annotations

import importlib
import importlib.util
import json
import os
import sys
import traceback
import types


def light_antismash(expected_init: str = "") -> str:
    """ make `antismash.<submodule>` importable without executing antismash/__init__.py;
        returns the path of the package's __init__.py """
    if "antismash" in sys.modules:
        return getattr(sys.modules["antismash"], "__file__", "") or ""
    spec = importlib.util.find_spec("antismash")
    if spec is None or not spec.submodule_search_locations:
        raise ImportError("antismash not importable in child")
    pkg = types.ModuleType("antismash")
    pkg.__path__ = list(spec.submodule_search_locations)  # type: ignore[attr-defined]
    pkg.__file__ = spec.origin
    pkg.__spec__ = spec
    pkg.__package__ = "antismash"
    sys.modules["antismash"] = pkg
    return spec.origin or ""


def main() -> int:
    job = json.loads(sys.stdin.read())
    try:
        for entry in reversed(job.get("sys_path", [])):
            if entry not in sys.path:
                sys.path.insert(0, entry)
        if job.get("sys_path"):
            # same resolution order as the parent
            sys.path[:] = list(job["sys_path"]) + [p for p in sys.path if p not in job["sys_path"]]
        origin = light_antismash()
        expected = job.get("antismash_file") or ""
        if expected and os.path.realpath(origin) != os.path.realpath(expected):
            raise RuntimeError(f"child resolved antismash to {origin}, parent uses {expected}")
        module = importlib.import_module(job["module"])
        result = getattr(module, job["func"])(job["arg"])
        out = {"ok": True, "hashseed": os.environ.get("PYTHONHASHSEED", ""), "result": result}
    except Exception:  # pylint: disable=broad-except
        out = {"ok": False, "error": traceback.format_exc()}
    sys.stdout.write(json.dumps(out))
    return 0


if __name__ == "__main__":
    sys.exit(main())
