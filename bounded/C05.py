"""Bounded stand-in for C05: candidate clusters group protoclusters by the documented kinds.

REAL objects throughout: a real Record, real CDSFeatures carrying CORE gene functions, real
Protoclusters added with `add_protocluster` (which derives their defining genes), and
`Record.create_candidate_clusters()`; observed through `record.get_candidate_clusters()`
(kind, protoclusters, location).

The oracle is written from the property statement on sets of bases (bit masks) with a plain
union-find; it never calls candidate formation or a helper it is built from.  Its inputs are
the supplied arcs and the defining genes the real protoclusters report (`definition_cdses`;
that they are the right genes is C08's business).

  share(i, j)   the two protoclusters have a defining gene in common
  cores(i, j)   their core locations share a base
  extents(i, j) their full locations share a base

  chemical hybrid   one candidate per transitive group G (>= 2) of `share`, containing G and every
                    protocluster outside the `share` groups whose core lies inside the span of
                    the cores of G (a protocluster of ANOTHER share group with its core inside
                    that span may or may not be included: the statement does not say; two share
                    groups lying inside each other's core span may therefore also end up as one
                    and the same candidate);
  interleaved       one candidate per transitive group (>= 2) of `cores`, unless it has exactly
                    the members of a chemical hybrid (that would be a second candidate with the
                    same coordinates and membership);
  neighbouring      one candidate per transitive group (>= 2) of `extents`, unless it has exactly
                    the members of a `cores` group (same reason);
  single            a protocluster whose core overlaps no other core (it is in no hybrid and in no
                    interleaved group) gets a candidate of its own - unless another candidate with
                    identical coordinates contains it, then it gets none; a single has one member.

Case format (JSON-able, sufficient for `replay`):
  {"L": 800, "circ": bool, "protos": [[[cs, ce], [s, e]], ...], "share": [[i, j], ...]}
  s >= e denotes the origin-spanning location [s:L)+[0:e); protocluster i has product "p<i>";
  each pair in `share` gets one gene inside both cores annotated CORE for both products.
  All orders of supply required by RULE are run by `replay` and by the checker.  Membership of
  a candidate is read as a set (before the C05-F6 repair a protocluster could be listed twice).

Tiers: quick = the exhaustive grid family of RULE (n <= 4); thorough = larger grids, n = 5 on
5 cells, plus seeded random arrangements of 5..6 protoclusters.  With >= 5 protoclusters the
known defects compound; see the class C05-F10.
"""
from __future__ import annotations

import itertools
import logging
from typing import Any, Dict, Iterable, List, Optional, Sequence, Set, Tuple

from bounded._c05_geom import (
    arc_mask,
    components,
    describe_exception,
    is_contiguous,
    make_gene,
    make_protocluster,
    make_record,
    spans_origin,
)

RULE = ("arrangements = multisets of n protoclusters, each a core of 1..k grid cells plus a "
        "neighbourhood of 0..m cells on either side (clipped at the ends of a line, wrapped on a "
        "ring; includes origin-spanning cores/extents, whole-record extents, nesting, identical "
        "coordinates, contig edges), end points on a grid of 8 (n <= 2), 7 (n = 3) or 5 (n = 4) "
        "cells of a line and of a ring, x the defining-gene sharing patterns that the cores "
        "allow (for n <= 3 every subset of pairs; for n = 4 none, all, every 3-pair chain over the 4 "
        "protoclusters, and every single pair when at most 3 pairs are possible; n = 4 uses sets of "
        "distinct shapes); plus a ties family: a host pair with overlapping cores (hybrid or "
        "interleaved) and 2 guests whose cores begin exactly at the first cell / end exactly at the "
        "last cell of the host's core span, fill it or sit inside it, with equal or different "
        "neighbourhoods (identical full starts and ends, identical guests), at the contig ends, "
        "inside, and before/after/across the origin; and a same-extent family: a protocluster with "
        "exactly the coordinates of a hybrid/interleaved candidate (or of one of its members) that "
        "it is not part of, with a fourth protocluster absent / inside / apart / touching / over "
        "either end / around everything; and a bridge family of 5 protoclusters: two separate "
        "pairs (hybrid or interleaved) and a fifth protocluster whose neighbourhood or core reaches "
        "into both, one, or only touches them; every arrangement "
        "is supplied in one order per distinct sorted protocluster list that add_protocluster can "
        "build from it (ties between identical extents) "
        "and in every order when the ordering is inconsistent (whole-record + origin-spanning extent); non-trivial = >= 2 protoclusters related by at least one of the three "
        "relations; distinct = distinct (arrangement, sharing).")
EXHAUSTIVE = {"quick": True, "thorough": False}

CELL = 100
NO_EXC = "no-unexpected-exception"
CLAUSES = ("each-protocluster-in-a-candidate", "location-is-span-of-members", "hybrid-groups-exact",
           "interleaved-groups-exact", "neighbouring-groups-exact", "singles-exact",
           "no-duplicate-candidates", "order-independent")
KIND_NAMES = {"chemical_hybrid": "H", "interleaved": "I", "neighbouring": "N", "single": "S"}


# ---------------------------------------------------------------------------------------------
# the family
# ---------------------------------------------------------------------------------------------
def _shapes(cells: int, circular: bool, core_sizes: Sequence[int],
            neighbourhoods: Sequence[int]) -> List[List[List[int]]]:
    """[core, extent] pairs on a record of `cells` grid cells."""
    length = cells * CELL
    shapes = []
    for start in range(cells):
        for size in core_sizes:
            if not circular and start + size > cells:
                continue
            if circular and size >= cells:
                continue
            for extra in neighbourhoods:
                if circular:
                    total = size + 2 * extra
                    core = [start * CELL, ((start + size) % cells) * CELL]
                    if core[1] == 0:
                        core[1] = length
                    if total >= cells:
                        if spans_origin(core):
                            continue          # a whole-record extent cannot hold a spanning core
                        extent = [0, length]
                    else:
                        extent = [((start - extra) % cells) * CELL, ((start + size + extra) % cells) * CELL]
                        if extent[1] == 0:
                            extent[1] = length
                else:
                    core = [start * CELL, (start + size) * CELL]
                    extent = [max(0, start - extra) * CELL, min(cells, start + size + extra) * CELL]
                shape = [core, extent]
                if shape not in shapes:
                    shapes.append(shape)
    return shapes


def _plans(tier: str) -> List[Tuple[int, bool, int, Sequence[int], Sequence[int]]]:
    """(cells, circular, n, core sizes, neighbourhood sizes)"""
    if tier == "quick":
        return [
            (8, False, 1, (1, 2, 3, 4, 5, 6, 7, 8), (0, 1, 2)), (8, True, 1, (1, 2, 3, 4, 5, 6, 7), (0, 1, 2)),
            (8, False, 2, (1, 2, 3, 4), (0, 1, 2)), (8, True, 2, (1, 2, 3, 4), (0, 1, 2)),
            (7, False, 3, (1, 2), (0, 1, 2)), (7, True, 3, (1, 2), (0, 1, 2)),
            (5, False, 4, (1, 2), (0, 1)), (5, True, 4, (1, 2), (0, 1)),
        ]
    return [
        (8, False, 1, (1, 2, 3, 4, 5, 6, 7, 8), (0, 1, 2, 3)), (8, True, 1, (1, 2, 3, 4, 5, 6, 7), (0, 1, 2, 3)),
        (8, False, 2, (1, 2, 3, 4, 5, 6), (0, 1, 2, 3)), (8, True, 2, (1, 2, 3, 4, 5, 6), (0, 1, 2, 3)),
        (8, False, 3, (1, 2, 3), (0, 1, 2)), (8, True, 3, (1, 2, 3), (0, 1, 2)),
        (7, False, 4, (1, 2), (0, 1, 2)), (7, True, 4, (1, 2), (0, 1, 2)),
        (5, False, 5, (1, 2), (0, 1)), (5, True, 5, (1, 2), (0, 1)),
    ]


def _sharable_pairs(protos: Sequence[Sequence[Sequence[int]]], length: int) -> List[Tuple[int, int, int]]:
    """(i, j, cell) for the pairs whose cores have a whole grid cell in common."""
    cores = [arc_mask(core, length) for core, _ in protos]
    out = []
    for i in range(len(protos)):
        for j in range(i + 1, len(protos)):
            common = cores[i] & cores[j]
            for cell in range(length // CELL):
                if (common >> (cell * CELL)) & ((1 << CELL) - 1) == (1 << CELL) - 1:
                    out.append((i, j, cell))
                    break
    return out


def _sharing_patterns(pairs: Sequence[Tuple[int, int, int]], count: int) -> List[List[List[int]]]:
    plain = [[i, j] for i, j, _ in pairs]
    if not plain:
        return [[]]
    if count <= 3:
        patterns = []
        for size in range(len(plain) + 1):
            patterns.extend([list(c) for c in itertools.combinations(plain, size)])
        return patterns
    patterns = [[], plain]
    if len(plain) <= 3:
        patterns += [[pair] for pair in plain]
    # chains: three pairs that tie four protoclusters together without any further pair
    for trio in itertools.combinations(plain, 3):
        if len({i for pair in trio for i in pair}) == 4:
            patterns.append(list(trio))
    unique = []
    for pattern in patterns:
        if pattern not in unique:
            unique.append(pattern)
    return unique


def _cases_of_plan(plan: Tuple[int, bool, int, Sequence[int], Sequence[int]]) -> Iterable[Dict[str, Any]]:
    cells, circular, count, core_sizes, neighbourhoods = plan
    length = cells * CELL
    shapes = _shapes(cells, circular, core_sizes, neighbourhoods)
    # n <= 3: multisets (identical protoclusters included); n >= 4: distinct shapes
    chooser = itertools.combinations_with_replacement if count <= 3 else itertools.combinations
    for combo in chooser(shapes, count):
        protos = [[list(core), list(extent)] for core, extent in combo]
        for share in _sharing_patterns(_sharable_pairs(protos, length), count):
            yield {"L": length, "circ": circular, "protos": protos, "share": share}


def _cell_arc(first: int, last: int, cells: int, circular: bool) -> Optional[List[int]]:
    """[start, end] in bases of the cells first..last-1 (cell numbers may run past the ring end)."""
    if last - first >= cells:
        return [0, cells * CELL]
    if not circular:
        first, last = max(0, first), min(cells, last)
        return [first * CELL, last * CELL] if first < last else None
    start, end = (first % cells) * CELL, (last % cells) * CELL
    return [start, end if end else cells * CELL]


def _tie_cases(tier: str) -> Iterable[Dict[str, Any]]:
    """Ties at the start and at the end of a group's span: a host pair A, B with overlapping cores
    (sharing a defining gene -> hybrid, or not -> interleaved) whose cores span w cells from cell
    s, and 2 (thorough: 3) guests whose cores lie inside that span and begin exactly at its first
    cell, end exactly at its last cell, fill it, or sit in its middle; guests with equal
    neighbourhoods have identical full starts/ends too, identical guests are included.  Lines (span
    at the contig start, inside, at the contig end) and rings (span before, after and across the
    origin)."""
    quick = tier == "quick"
    cells = 8
    hosts = [((0, 2), (1, 3)), ((0, 3), (1, 2)), ((0, 2), (1, 4))]          # cores of A and B
    host_margins = [(0, 0), (1, 1)] if quick else [(0, 0), (1, 1), (0, 2), (2, 1)]
    guest_margins = (0, 1) if quick else (0, 1, 2)
    for circular in (False, True):
        positions = ((0, 1, 4) if quick else (0, 1, 2, 4)) if not circular else \
            ((0, 3, 6, 7) if quick else tuple(range(cells)))
        for start in positions:
            for core_a, core_b in hosts:
                width = max(core_a[1], core_b[1])
                if not circular and start + width > cells:
                    continue
                guest_cores = [(0, 1), (0, 2), (width - 1, width), (width - 2, width), (0, width), (1, 2)]
                guests = []
                for lo, hi in guest_cores:
                    for margin in guest_margins:
                        guest = (lo, hi, margin)
                        if guest not in guests:
                            guests.append(guest)
                for margin_a, margin_b in host_margins:
                    base = []
                    for (lo, hi), margin in ((core_a, margin_a), (core_b, margin_b)):
                        base.append([_cell_arc(start + lo, start + hi, cells, circular),
                                     _cell_arc(start + lo - margin, start + hi + margin, cells, circular)])
                    for chosen in itertools.combinations_with_replacement(guests, 2 if quick else 3):
                        protos = [list(p) for p in base]
                        for lo, hi, margin in chosen:
                            protos.append([_cell_arc(start + lo, start + hi, cells, circular),
                                           _cell_arc(start + lo - margin, start + hi + margin, cells, circular)])
                        if any(spans_origin(core) and extent == [0, cells * CELL] for core, extent in protos):
                            continue
                        for share in ([[0, 1]], []):
                            yield {"L": cells * CELL, "circ": circular, "protos": protos, "share": share}


def _same_extent_cases(tier: str) -> Iterable[Dict[str, Any]]:
    """A protocluster with exactly the coordinates of a candidate it is NOT a member of: a host pair
    A, B with overlapping cores (sharing a defining gene -> hybrid, or not -> interleaved) whose
    candidate spans the cells [s, s+w); a protocluster C with that very extent whose core lies inside
    the extent but apart from the cores of A and B (asymmetric neighbourhoods); and a fourth
    protocluster D that is absent, inside, apart, touching without a shared base, or overlaps the
    span on its left or right end so that the neighbouring candidate gets other coordinates than
    the host candidate.  Also the variant where C has the extent of the member A instead of the
    span.  Lines, and rings with the span before, after and across the origin."""
    quick = tier == "quick"
    cells = 10
    for circular in (False, True):
        for width in (4, 5):
            positions = (2, 3) if not circular else ((0, 3, 6, 7, 8, 9) if quick else tuple(range(cells)))
            for start in positions:
                if not circular and start + width + 2 > cells:
                    continue

                def arc(lo: int, hi: int) -> Optional[List[int]]:
                    return _cell_arc(start + lo, start + hi, cells, circular)
                host = [[arc(1, 3), arc(0, 3)], [arc(2, 3), arc(1, width)]]       # [core, extent] of A, B
                thirds = [[arc(width - 1, width), arc(0, width)], [arc(3, 4), arc(0, width)],
                          [arc(0, 1), arc(0, width)], [arc(0, 1), arc(0, 3)]]
                fourths = [None,
                           [arc(width, width + 1), arc(width - 1, width + 2)],      # over the right end
                           [arc(-2, -1), arc(-2, 1)],                               # over the left end
                           [arc(width + 1, width + 2), arc(width + 1, width + 2)],  # apart
                           [arc(width, width + 1), arc(width, width + 1)],          # touching
                           [arc(width - 1, width), arc(width - 1, width)],          # inside, at the end
                           [arc(width, width + 2), arc(0, width + 2)]]              # containing everything
                for third in thirds:
                    for fourth in fourths:
                        protos = [list(p) for p in host] + [list(third)] + ([list(fourth)] if fourth else [])
                        if any(part is None for proto in protos for part in proto):
                            continue
                        for share in ([[0, 1]], []):
                            yield {"L": cells * CELL, "circ": circular, "protos": protos, "share": share}


def _bridge_cases(tier: str) -> Iterable[Dict[str, Any]]:
    """Two pairs and a bridge: A, B (cells 0..2) and C, D (cells 6..8), each pair with overlapping
    cores - a chemical hybrid when it shares a defining gene, an interleaved candidate otherwise -
    and apart from the other pair, plus a fifth protocluster S in between whose neighbourhood
    (or, in one variant, whose core) reaches into both pairs, into one of them only, touches them
    without a shared base, starts with the first pair or contains both.  The neighbouring
    (interleaved) group has to be the transitive union through S.  Lines, and rings with the
    first pair, the bridge or the second pair across the origin."""
    quick = tier == "quick"
    cells = 12
    bridges = [((4, 5), (2, 7)),       # core, extent (cells, relative): reaches into both pairs
               ((4, 5), (2, 6)),       # reaches the first pair, touches the second
               ((4, 5), (3, 7)),       # touches the first, reaches the second
               ((3, 4), (0, 7)),       # starts with the first pair, reaches the second
               ((4, 5), (0, 9)),       # contains both pairs
               ((5, 6), (1, 8)),       # reaches the middle of both
               ((2, 7), (2, 7)),       # its CORE reaches into the cores of both pairs
               ((3, 6), (2, 7))]       # core between the pairs, touching both core spans
    for circular in (False, True):
        positions = (0, 1, 3) if not circular else (tuple(range(cells)) if not quick else (0, 2, 4, 5, 7, 9, 10, 11))
        for start in positions:
            def arc(lo: int, hi: int) -> Optional[List[int]]:
                return _cell_arc(start + lo, start + hi, cells, circular)
            pairs = [[arc(0, 2), arc(0, 3)], [arc(1, 3), arc(1, 3)],
                     [arc(6, 8), arc(6, 8)], [arc(7, 9), arc(6, 9)]]
            for core, extent in bridges:
                protos = [list(p) for p in pairs] + [[arc(*core), arc(*extent)]]
                if any(part is None for proto in protos for part in proto):
                    continue
                for share in ([], [[0, 1]], [[2, 3]], [[0, 1], [2, 3]]):
                    yield {"L": cells * CELL, "circ": circular, "protos": protos, "share": share}


# ---------------------------------------------------------------------------------------------
# sharding
# ---------------------------------------------------------------------------------------------
SHARDS = 48


def shards(tier: str, seed: int) -> list:
    make_record(10, False)        # import antismash once, before the driver forks its workers
    out = [{"fn": "grid", "tier": tier, "index": i, "of": SHARDS} for i in range(SHARDS)]
    if tier != "quick":
        out += [{"fn": "random", "tier": tier, "index": i, "of": 16} for i in range(16)]
    return out


def run_shard(shard: Dict[str, Any], run: Any) -> None:
    if shard["fn"] == "random":
        _run_random(run)
        return
    position = 0
    for plan in _plans(shard["tier"]):
        for case in _cases_of_plan(plan):
            if position % shard["of"] == shard["index"]:
                if run.out_of_time():       # budget exhausted: the run is reported as truncated
                    return
                _check_case(run, case)
            position += 1
    for case in itertools.chain(_tie_cases(shard["tier"]), _same_extent_cases(shard["tier"]),
                                _bridge_cases(shard["tier"])):
        if position % shard["of"] == shard["index"]:
            if run.out_of_time():
                return
            _check_case(run, case)
        position += 1


def _run_random(run: Any) -> None:
    """Beyond the exhaustive bound: 5..6 protoclusters on 8 cells."""
    rng = run.rng
    for _ in range(20000):                 # bounded, so that the evidence stays of a sane size
        if run.out_of_time():
            break
        circular = rng.random() < 0.6
        shapes = _shapes(8, circular, (1, 2, 3), (0, 1, 2))
        count = rng.choice((5, 5, 6))
        protos = [[list(c), list(e)] for c, e in (rng.choice(shapes) for _ in range(count))]
        pairs = [[i, j] for i, j, _ in _sharable_pairs(protos, 8 * CELL)]
        share = [pair for pair in pairs if rng.random() < 0.4]
        _check_case(run, {"L": 8 * CELL, "circ": circular, "protos": protos, "share": share})


# ---------------------------------------------------------------------------------------------
# running the real code
# ---------------------------------------------------------------------------------------------
def _orders(case: Dict[str, Any]) -> List[Tuple[int, ...]]:
    """The orders of supply that are run.  `add_protocluster` keeps the record's list sorted by
    (start, longest first; origin-spanning extents first) and puts a new protocluster BEFORE the
    ones it ties with, so two orders of supply can only lead to different lists when extents tie
    (identical extents) or when the ordering itself is inconsistent (a whole-record extent
    contains an origin-spanning one yet sorts after it).  One order per distinct resulting list
    is run; with an inconsistent ordering, every permutation."""
    count = len(case["protos"])
    length = case["L"]
    extents = [tuple(extent) for _, extent in case["protos"]]
    everything = list(itertools.permutations(range(count)))
    whole = any(e[0] == 0 and e[1] == length for e in extents)
    if count <= 2 or (whole and any(spans_origin(e) for e in extents)):
        return everything

    def key(index: int) -> Tuple[int, int]:
        start, end = extents[index]
        if start >= end:
            return (start - length, -(length - start + end))
        return (start, -(end - start))

    chosen: Dict[Tuple[int, ...], Tuple[int, ...]] = {}
    identity = tuple(range(count))
    for order in [identity, identity[::-1]] + everything:
        listed: List[int] = []
        for index in order:                                   # bisect_left insertion
            position = 0
            while position < len(listed) and key(listed[position]) < key(index):
                position += 1
            listed.insert(position, index)
        chosen.setdefault(tuple(listed), order)
    return list(chosen.values())


def _build(case: Dict[str, Any], order: Sequence[int]) -> Tuple[Any, List[Any]]:
    """A fresh record with the sharing genes and the protoclusters added in `order`."""
    length = case["L"]
    record = make_record(length, case["circ"])
    cells = {(i, j): cell for i, j, cell in _sharable_pairs(case["protos"], length)}
    for number, (i, j) in enumerate(case["share"]):
        cell = cells.get((i, j))
        if cell is None:
            raise ValueError(f"case asks protoclusters {i} and {j} to share a gene but their cores share no cell")
        start = cell * CELL + 10 + 8 * number
        record.add_cds_feature(make_gene(f"g{number}", [start, start + 6], 1 if number % 2 == 0 else -1,
                                         length, (f"p{i}", f"p{j}")))
    protos = [make_protocluster(core, extent, f"p{index}", length)
              for index, (core, extent) in enumerate(case["protos"])]
    for index in order:
        record.add_protocluster(protos[index])
    return record, protos


Outcome = Tuple[Tuple[str, Tuple[int, ...], Tuple[Tuple[int, int], ...]], ...]


def _observe(record: Any, protos: Sequence[Any]) -> Outcome:
    index_of = {id(proto): i for i, proto in enumerate(protos)}
    found = []
    for candidate in record.get_candidate_clusters():
        members = tuple(sorted({index_of.get(id(proto), -1) for proto in candidate.protoclusters}))
        parts = tuple((int(p.start), int(p.end)) for p in candidate.location.parts)
        found.append((KIND_NAMES.get(str(candidate.kind), str(candidate.kind)), members, parts))
    return tuple(sorted(found))


def _observed_sharing(protos: Sequence[Any]) -> List[Tuple[int, int]]:
    names = [{cds.get_name() for cds in proto.definition_cdses} for proto in protos]
    return [(i, j) for i in range(len(protos)) for j in range(i + 1, len(protos)) if names[i] & names[j]]


# ---------------------------------------------------------------------------------------------
# the oracle
# ---------------------------------------------------------------------------------------------
def _parts_mask(parts: Iterable[Tuple[int, int]]) -> int:
    mask = 0
    for start, end in parts:
        mask |= ((1 << (end - start)) - 1) << start
    return mask


class Expectation:
    """What the statement demands for one arrangement (independent of the order of supply)."""

    def __init__(self, case: Dict[str, Any], sharing: Sequence[Tuple[int, int]]) -> None:
        self.length = length = case["L"]
        self.circular = case["circ"]
        self.count = count = len(case["protos"])
        self.cores = [arc_mask(core, length) for core, _ in case["protos"]]
        self.extents = [arc_mask(extent, length) for _, extent in case["protos"]]
        pairs = [(i, j) for i in range(count) for j in range(i + 1, count)]
        self.share_groups = [g for g in components(count, sharing) if len(g) > 1]
        self.core_groups = [g for g in components(count, [p for p in pairs if self.cores[p[0]] & self.cores[p[1]]])
                            if len(g) > 1]
        self.extent_groups = [g for g in components(count, [p for p in pairs
                                                              if self.extents[p[0]] & self.extents[p[1]]])
                              if len(g) > 1]
        in_share = {i for group in self.share_groups for i in group}
        # chemical hybrids: (mandatory members, optional members)
        self.hybrids: List[Tuple[Set[int], Set[int]]] = []
        for group in self.share_groups:
            span = 0
            for i in group:
                span |= self.cores[i]
            inside = {i for i in range(count) if i not in group and self.cores[i] & ~span == 0}
            self.hybrids.append((set(group) | (inside - in_share), inside & in_share))
        self.related = bool(self.extent_groups)

    # -- the clauses, evaluated on one outcome -------------------------------------------------
    def judge(self, outcome: Outcome) -> List[Tuple[str, bool, str]]:
        results = []
        every = set(range(self.count))
        covered = {i for _, members, _ in outcome for i in members}
        missing = sorted(every - covered)
        results.append(("each-protocluster-in-a-candidate", not missing and covered <= every,
                        f"protoclusters {missing} are in no candidate"))

        wrong = []
        for kind, members, parts in outcome:
            if not self._is_span(members, parts):
                wrong.append(f"{kind}{list(members)} has location {list(parts)}")
        results.append(("location-is-span-of-members", not wrong,
                        "not the span of the members: " + "; ".join(wrong)))

        by_kind: Dict[str, List[Set[int]]] = {"H": [], "I": [], "N": [], "S": []}
        unknown_kinds = []
        for kind, members, _ in outcome:
            if kind in by_kind:
                by_kind[kind].append(set(members))
            else:
                unknown_kinds.append(kind)

        # chemical hybrids
        problems = [f"unknown kind {k}" for k in unknown_kinds]
        fits = [[n for n, (must, may) in enumerate(self.hybrids) if must <= actual <= (must | may)]
                for actual in by_kind["H"]]
        for actual, matches in zip(by_kind["H"], fits):
            if not matches:
                problems.append(f"hybrid candidate {sorted(actual)} is no share-group plus contained cores")
        # every share group must be represented by a hybrid candidate that fits it and every
        # hybrid candidate must represent a share group (two share groups lying inside each
        # other's core span may legitimately end up as one and the same candidate)
        choices = [[a for a in range(len(fits)) if n in fits[a]] for n in range(len(self.hybrids))]
        valid = all(choices) and any(set(pick) == set(range(len(fits)))
                                     for pick in itertools.product(*choices)) if self.hybrids else not fits
        if not valid and not problems:
            problems.append("the hybrid candidates do not match the share groups "
                            + str([(sorted(must), sorted(may)) for must, may in self.hybrids]))
        results.append(("hybrid-groups-exact", not problems,
                        "; ".join(problems) + f" | hybrids found {[sorted(a) for a in by_kind['H']]}"))

        # interleaved
        required, optional = [], []
        for group in self.core_groups:
            members = set(group)
            exact = [1 for must, may in self.hybrids if members == must and not may]
            loose = [1 for must, may in self.hybrids if must <= members <= (must | may)]
            if exact:
                continue                      # would duplicate the hybrid: must not exist
            (optional if loose else required).append(members)
        results.append(self._groups_clause("interleaved-groups-exact", by_kind["I"], required, optional,
                                           "core-overlap group"))

        # neighbouring
        required = [set(g) for g in self.extent_groups if sorted(g) not in [sorted(c) for c in self.core_groups]]
        results.append(self._groups_clause("neighbouring-groups-exact", by_kind["N"], required, [],
                                           "extent-overlap group"))

        # singles
        problems = []
        absorbed = {i for group in self.core_groups for i in group}
        for members in by_kind["S"]:
            if len(members) != 1:
                problems.append(f"single candidate with members {sorted(members)}")
        for i in range(self.count):
            own = [1 for kind, members, _ in outcome if kind == "S" and members == (i,)]
            if i in absorbed:
                continue
            holder = [f"{kind}{list(members)}" for kind, members, parts in outcome
                      if kind != "S" and i in members and _parts_mask(parts) == self.extents[i]]
            if holder and own:
                problems.append(f"protocluster {i} has a single although {holder[0]} with identical "
                                "coordinates contains it")
            elif not holder and len(own) != 1:
                problems.append(f"protocluster {i} (core overlaps no other core) has {len(own)} singles")
        results.append(("singles-exact", not problems, "; ".join(problems)))

        seen = set()
        twice = []
        for kind, members, parts in outcome:
            key = (members, _parts_mask(parts))
            if key in seen:
                twice.append(f"{list(members)} at {list(parts)}")
            seen.add(key)
        results.append(("no-duplicate-candidates", not twice,
                        "same coordinates and membership more than once: " + "; ".join(twice)))
        return results

    def _groups_clause(self, clause: str, actual: List[Set[int]], required: List[Set[int]],
                       optional: List[Set[int]], what: str) -> Tuple[str, bool, str]:
        problems = []
        for group in required:
            if actual.count(group) != 1:
                problems.append(f"{what} {sorted(group)} has {actual.count(group)} candidates of this kind")
        for group in optional:
            if actual.count(group) > 1:
                problems.append(f"{what} {sorted(group)} has {actual.count(group)} candidates of this kind")
        for group in actual:
            if group not in required and group not in optional:
                problems.append(f"candidate {sorted(group)} of this kind is not a {what} that needs one")
        found = [sorted(a) for a in actual]
        return clause, not problems, "; ".join(problems) + f" | found {found}, required {[sorted(r) for r in required]}"

    def _is_span(self, members: Sequence[int], parts: Sequence[Tuple[int, int]]) -> bool:
        if any(not 0 <= i < self.count for i in members):
            return False
        union = 0
        for i in members:
            union |= self.extents[i]
        location = _parts_mask(parts)
        if is_contiguous(union, self.length, self.circular):
            return location == union
        if not self.circular:                                    # hull on a line
            low = (union & -union).bit_length() - 1
            return location == ((1 << union.bit_length()) - 1) >> low << low
        # members not chained on a ring: any arc that covers them and ends where members end
        if location & union != union or not is_contiguous(location, self.length, True):
            return False
        return True


# ---------------------------------------------------------------------------------------------
# evaluation of one case
# ---------------------------------------------------------------------------------------------
def _evaluate(case: Dict[str, Any]) -> Tuple[List[Tuple[str, bool, str]], bool, int]:
    """([(clause, ok, detail)], nontrivial, number of orders run)"""
    orders = _orders(case)
    outcomes: Dict[Outcome, Tuple[int, ...]] = {}
    expectation: Optional[Expectation] = None
    previous = logging.root.manager.disable
    logging.disable(logging.CRITICAL)
    try:
        for order in orders:
            try:
                record, protos = _build(case, order)
            except Exception as err:  # pylint: disable=broad-except
                return [(NO_EXC, False, f"order {list(order)}, while adding genes/protoclusters: "
                         + describe_exception(err))], True, len(orders)
            if expectation is None:
                expectation = Expectation(case, _observed_sharing(protos))
            try:
                record.create_candidate_clusters()
            except Exception as err:  # pylint: disable=broad-except
                return [(NO_EXC, False, f"order {list(order)}: create_candidate_clusters raised "
                         + describe_exception(err))], expectation.related, len(orders)
            outcomes.setdefault(_observe(record, protos), tuple(order))
    finally:
        logging.disable(previous)
    assert expectation is not None
    merged: Dict[str, Tuple[bool, str]] = {}
    for outcome, order in outcomes.items():
        for clause, ok, detail in expectation.judge(outcome):
            if clause not in merged or (merged[clause][0] and not ok):
                merged[clause] = (ok, "" if ok else f"order {list(order)}: {detail} | outcome {_short(outcome)}")
    results = [(clause, ok, detail) for clause, (ok, detail) in merged.items()]
    if len(outcomes) > 1:
        text = "; ".join(f"order {list(order)} -> {_short(outcome)}" for outcome, order in outcomes.items())
        results.append(("order-independent", False, text))
    else:
        results.append(("order-independent", True, ""))
    return results, expectation.related, len(orders)


def _short(outcome: Outcome) -> str:
    return " ".join(f"{kind}{list(members)}@{[list(p) for p in parts]}" for kind, members, parts in outcome)


def _check_case(run: Any, case: Dict[str, Any]) -> None:
    results, nontrivial, orders = _evaluate(case)
    for clause, ok, detail in results:
        if not ok:
            for finding, predicate in FINDING_CLASSES.items():
                if predicate(clause, case):
                    # keep the inputs of a known class from filling the driver's per-clause
                    # failure list (the predicates accept both spellings of the clause)
                    clause = f"{clause} [{finding}]"
                    break
        run.check(clause, ok, case, nontrivial=nontrivial, detail=detail)
    run.count((orders - 1) * len(results))


def replay(case: Dict[str, Any]) -> List[str]:
    results, _, _ = _evaluate(case)
    return [f"{clause}: {detail}" for clause, ok, detail in results if not ok]



# ---------------------------------------------------------------------------------------------
# known findings (classes of inputs)
# ---------------------------------------------------------------------------------------------
def _plain(clause: str) -> str:
    return clause.split(" [")[0]


def _declared_sharing(case: Dict[str, Any]) -> List[Tuple[int, int]]:
    return [(min(i, j), max(i, j)) for i, j in case["share"]]


def _union(masks: Sequence[int], members: Iterable[int]) -> int:
    out = 0
    for i in members:
        out |= masks[i]
    return out


def _group_levels(case: Dict[str, Any]) -> Tuple["Expectation", List[Tuple[str, Set[int]]]]:
    """The groups the statement asks for, strongest kind first: ("H"|"I"|"N", members)."""
    expectation = Expectation(case, _declared_sharing(case))
    groups: List[Tuple[str, Set[int]]] = [("H", must | may) for must, may in expectation.hybrids]
    groups += [("I", set(g)) for g in expectation.core_groups]
    groups += [("N", set(g)) for g in expectation.extent_groups]
    return expectation, groups


RANK = {"H": 0, "I": 1, "N": 2}


KIND_CLAUSE = {"H": "hybrid-groups-exact", "I": "interleaved-groups-exact", "N": "neighbouring-groups-exact"}


def _materialised_groups(expectation: "Expectation") -> List[Tuple[str, Set[int]]]:
    """The groups that get a candidate of their own (strongest kind first): hybrids, core-overlap
    groups that are not exactly a hybrid, extent-overlap groups that are not exactly a
    core-overlap group."""
    groups: List[Tuple[str, Set[int]]] = [("H", must | may) for must, may in expectation.hybrids]
    hybrid_sets = [members for _, members in groups]
    groups += [("I", set(g)) for g in expectation.core_groups if set(g) not in hybrid_sets]
    core_sets = [set(g) for g in expectation.core_groups]
    groups += [("N", set(g)) for g in expectation.extent_groups if set(g) not in core_sets]
    return groups


def _is_promotion(clause: str, case: Dict[str, Any]) -> bool:
    """F1: a group of a weaker kind (interleaved / neighbouring) has more members than, but
    exactly the span of, a group of a stronger kind it contains.  The pinned code keys its
    de-duplication on coordinates only: it folds the extra members into the stronger candidate
    (keeping that kind) instead of keeping both candidates.  Affects the clause of the stronger
    kind (extra members) and of the weaker kind (no candidate)."""
    clause = _plain(clause)
    if clause not in KIND_CLAUSE.values():
        return False
    expectation, _ = _group_levels(case)
    groups = _materialised_groups(expectation)
    for kind, members in groups:
        for other_kind, other in groups:
            same_span = _union(expectation.extents, other) == _union(expectation.extents, members)
            if RANK[other_kind] < RANK[kind] and other < members and same_span and \
                    clause in (KIND_CLAUSE[kind], KIND_CLAUSE[other_kind]):
                return True
            if RANK[other_kind] <= RANK[kind] and other != members and not other < members and \
                    not members < other and same_span and clause in (KIND_CLAUSE[kind], KIND_CLAUSE[other_kind]):
                return True      # two different groups (e.g. two hybrids) with one span are folded too
    if clause == KIND_CLAUSE["H"]:
        # two share groups whose hybrids (with or without the optional members) have one span
        variants = [[must, must | may] for must, may in expectation.hybrids]
        for a in range(len(variants)):
            for b in range(a + 1, len(variants)):
                if any(_union(expectation.extents, x) == _union(expectation.extents, y)
                       for x in variants[a] for y in variants[b]):
                    return True
    return False


def _pinned_span(arcs: Sequence[Sequence[int]], length: int) -> int:
    """Set of bases the PINNED connect_locations returns for chained arcs on a ring when one of
    them spans the origin: the other arcs go to a pre-origin chunk (start >= length - end) or a
    post-origin chunk; if the hulls of the two chunks overlap the whole record is returned."""
    pre_start, post_end = length, 0
    for start, end in arcs:
        if start >= end:
            pre_start, post_end = min(pre_start, start), max(post_end, end)
        elif start < length - end:
            post_end = max(post_end, end)
        else:
            pre_start = min(pre_start, start)
    if pre_start < post_end or pre_start == 0 or post_end == length:
        return (1 << length) - 1
    return arc_mask([pre_start, post_end], length)


def _over_covered(case: Dict[str, Any]) -> bool:
    """Ring; some chained set of extents containing an origin-spanning one for which the pinned
    connect_locations returns the whole record although the span is smaller."""
    if not case["circ"]:
        return False
    length = case["L"]
    extents = [extent for _, extent in case["protos"]]
    masks = [arc_mask(extent, length) for extent in extents]
    count = len(extents)
    for size in range(2, count + 1):
        for subset in itertools.combinations(range(count), size):
            if not any(spans_origin(extents[i]) for i in subset):
                continue
            pairs = [(a, b) for a in range(size) for b in range(a + 1, size)
                     if masks[subset[a]] & masks[subset[b]]]
            if len(components(size, pairs)) != 1:
                continue
            if _pinned_span([extents[i] for i in subset], length) != _union(masks, subset):
                return True
    return False


def _pinned_location(case: Dict[str, Any], members: Iterable[int]) -> int:
    arcs = [case["protos"][i][1] for i in members]
    if case["circ"] and any(spans_origin(arc) for arc in arcs):
        return _pinned_span(arcs, case["L"])
    return arc_mask([min(a[0] for a in arcs), max(a[1] for a in arcs)], case["L"])


def _is_over_cover(clause: str, case: Dict[str, Any]) -> bool:
    """F4: a candidate on a ring is given the whole record as location although the span of its
    members is smaller (connect_locations, see C06-F2).  location-is-span-of-members: some chained
    set of extents is inflated that way; kind clauses: the inflated
    location of a weaker group coincides with the location of a stronger group it contains, which
    triggers the coordinate-keyed folding of C05-F1 although the true spans differ."""
    clause = _plain(clause)
    if clause == "location-is-span-of-members":
        return _over_covered(case)
    if clause not in KIND_CLAUSE.values() or not case["circ"]:
        return False
    expectation, _ = _group_levels(case)
    groups = _materialised_groups(expectation)
    for kind, members in groups:
        true_span = _union(expectation.extents, members)
        if _pinned_location(case, members) != true_span and len(members) < expectation.count and \
                clause in (KIND_CLAUSE[kind], KIND_CLAUSE["N"]):
            return True       # the inflated candidate "overlaps" protoclusters its members do not touch
        for other_kind, other in groups:
            if RANK[other_kind] < RANK[kind] and other < members and \
                    clause in (KIND_CLAUSE[kind], KIND_CLAUSE[other_kind]) and \
                    _pinned_location(case, other) == _pinned_location(case, members) and \
                    _union(expectation.extents, other) != true_span:
                return True
    return False


def _is_compound(clause: str, case: Dict[str, Any]) -> bool:
    """F10: >= 5 protoclusters (beyond the bound up to which F1 and F4 are delimited clause by
    clause): a folded (F1) or inflated (F4) candidate changes what every later pass works with, so
    for the kind clauses, singles-exact and order-independent the class is only "the input shows
    the feature of F1 or F4 for some clause"."""
    plain = _plain(clause)
    if len(case["protos"]) < 5 or plain not in list(KIND_CLAUSE.values()) + ["singles-exact", "order-independent"]:
        return False
    probes = list(KIND_CLAUSE.values()) + ["location-is-span-of-members"]
    return any(predicate(probe, case) for predicate in (_is_promotion, _is_over_cover) for probe in probes)


# Repaired in /repo, no class any more (a recurrence is reported as an unclassified failure):
# C05-F2 single-pass _merge_sets, C05-F3 singles overlapping a candidate never compared with each
# other, C05-F5 singles looked up under (0, L), C05-F6 cross-origin interleaved subset of a hybrid,
# C05-F7 whole-ring hybrid core cut at an arbitrary point, C05-F8 bisect window of the candidate
# scans, C05-F9 tie order deciding the merge.
FINDING_CLASSES = {
    "C05-F1": _is_promotion,
    "C05-F4": _is_over_cover,
    "C05-F10": _is_compound,
}
