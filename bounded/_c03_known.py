"""Private helper of bounded/C03.py: the input classes of the known findings of property C03.

A class is a predicate over the INPUT of one clause (the case, plus the clause's own input such as
the rule, the chain of anchoring genes or the reported core it is evaluated on). Clause names carry
the class as a suffix, e.g. "core-smallest-span[wrap-prone]": the suffix is decided from the input
alone, before and independently of the outcome, so that failures inside a known class never use up
the driver's per-clause failure slots of the plain clause (where any new violation would appear).
"""
from __future__ import annotations

from typing import Any, Callable, Dict, List, Optional, Sequence, Tuple

from . import _c03_check as chk
from . import _c03_model as model

NEIGHBOUR_CONDITIONS = ("a and b", "a and not c", "minimum(2,[a,b])")
CHAIN_CLAUSES = ("chains-maximal", "one-protocluster-per-chain")
SUP_CLAUSES = ("kept-unless-superior-covers", "dropped-when-superior-covers")


class Context:
    """ one case with its geometry computed once """
    def __init__(self, case: Dict[str, Any]) -> None:
        self.case = case
        self.length = case["L"]
        self.circular = bool(case["circ"])
        self._geo: Optional[chk.Geometry] = None
        self._memo: Dict[Any, Any] = {}

    @property
    def geo(self) -> chk.Geometry:
        if self._geo is None:
            self._geo = chk.Geometry(self.case)
        return self._geo

    def rule(self, where: Dict[str, Any]) -> Dict[str, Any]:
        for rule in self.case["rules"]:
            if rule["n"] == where.get("rule"):
                return rule
        return {}

    def spanning(self, index: int) -> bool:
        return self.case["genes"][index][1] > self.length

    def window(self, index: int, cutoff: int) -> Tuple[int, int, int]:
        """ the search window of a rule around a gene on a ring as the code base builds it (cutoff on
            both sides, capped so that it cannot lap itself): (start, size, parts); parts is 1 for a
            window inside the record or one that became the whole record, 2 when it crosses the origin """
        start, end = self.case["genes"][index][:2]
        size = end - start
        if end > self.length:
            # an origin-spanning gene: the window always crosses the origin unless it is everything
            reach = min(cutoff, (self.length - size) // 2 + 1)
            if size + 2 * reach > self.length:
                return (0, self.length, 1)
            return ((start - reach) % self.length, size + 2 * reach, 2)
        reach = min(cutoff, (self.length - size) // 2 + 1)
        total = size + 2 * reach
        if total > self.length or (total == self.length and start - reach < 0):
            return (0, self.length, 1)
        low = start - reach
        crosses = low < 0 or end + reach > self.length
        return (low % self.length, total, 2 if crosses else 1)

    def wraps(self, index: int, cutoff: int) -> bool:
        return self.window(index, cutoff)[2] == 2

    def hit_genes(self) -> List[int]:
        return [i for i, own in enumerate(self.case["hits"]) if own]

    def crossing_spans(self, group: Sequence[int]) -> List[Tuple[int, int]]:
        """ the smallest spans of the chain if they cross the origin, else [] """
        key = ("spans", tuple(group))
        if key not in self._memo:
            spans = self.geo.spans(list(group)) if self.circular and group else []
            if all(start + size <= self.length for start, size in spans):
                spans = []
            self._memo[key] = spans
        return self._memo[key]

    def wrap_prone(self, group: Sequence[int]) -> bool:
        """ a chain whose smallest span crosses the origin although the gap it leaves out is at most
            half the record (the code base wraps only over "a gap of more than half the record") """
        spans = self.crossing_spans(group)
        return bool(spans) and self.length - spans[0][1] <= self.length // 2

    def spanning_member(self, group: Sequence[int]) -> bool:
        """ a chain of several genes one of which spans the origin (its core is started separately and
            only joined with what follows the origin) """
        return self.circular and len(group) >= 2 and any(self.spanning(i) for i in group)


# ---------------------------------------------------------------------------------------------
#  mechanisms: (ctx, where) -> bool
# ---------------------------------------------------------------------------------------------

def needs_neighbours(ctx: Context, where: Dict[str, Any]) -> bool:
    return ctx.rule(where).get("cond") in NEIGHBOUR_CONDITIONS


def stale_cutoff_cache(ctx: Context, where: Dict[str, Any]) -> bool:
    """ circular; the rule's cutoff was already looked up for an earlier rule, the most recent NEW
        cutoff before it is a different one, and for some gene with hits exactly one of the two
        cutoffs gives a search window that crosses the origin """
    rule = ctx.rule(where)
    if not rule or not ctx.circular or not needs_neighbours(ctx, where):
        return False
    order: List[int] = []
    for other in ctx.case["rules"]:
        if other["n"] == rule["n"]:
            break
        if other["cut"] not in order:
            order.append(other["cut"])
    if rule["cut"] not in order or order[-1] == rule["cut"]:
        return False
    return any(ctx.wraps(i, rule["cut"]) != ctx.wraps(i, order[-1]) for i in ctx.hit_genes())


def whole_record_window(ctx: Context, where: Dict[str, Any]) -> bool:
    """ circular; the rule's search window around a gene with hits is the whole record, and another
        gene with hits is closer than the cutoff only by the way across the origin """
    rule = ctx.rule(where)
    if not rule or not ctx.circular or not needs_neighbours(ctx, where):
        return False
    cutoff = rule["cut"]
    hit = ctx.hit_genes()
    for i in hit:
        if ctx.window(i, cutoff)[1] != ctx.length or ctx.wraps(i, cutoff):
            continue
        for j in hit:
            if j == i:
                continue
            ring = ctx.geo.dist(i, j)
            line = model.set_distance(ctx.geo.bases[i], ctx.geo.bases[j], ctx.length, False)
            if ring < cutoff <= line:
                return True
    return False


def spanning_hit_gene(ctx: Context, where: Dict[str, Any]) -> bool:
    """ circular; a gene with hits spans the origin (distances to it are taken from its envelope
        [0, L), the C04 finding) and the rule looks at neighbours """
    return (ctx.circular and needs_neighbours(ctx, where)
            and any(ctx.spanning(i) for i in ctx.hit_genes()))


def _gene_parts(ctx: Context, index: int) -> list:
    """ the parts of a gene's location as (start, end) pairs: exons, each cut where it crosses the origin """
    gene = ctx.case["genes"][index]
    length = ctx.length
    parts = []
    for low, high in (gene[3] if len(gene) > 3 else [(gene[0], gene[1])]):
        low, high = low % length, low % length + (high - low)
        if high > length:
            parts.extend([(low, length), (0, high - length)])
        else:
            parts.append((low, high))
    return parts


def _lookup_as_coded(ctx: Context, window: Tuple[int, int, int]) -> set:
    """ MODEL OF THE DEFECT (used for classification only, never by the oracle): the genes that
        Record.get_cds_features_within_location(window, with_overlapping=True) yields as the code base
        implements it (after the C03-F4 repair) - a sorted list in which an origin-spanning gene sorts first (negative key) and has
        location.start 0, a bisect to the first gene not before the window, stepping back only over
        directly preceding genes that overlap the window, a forward scan that stops at the first gene that
        neither lies in / overlaps the window nor contains its successor; a two-part window is looked up
        part by part """
    length = ctx.length
    count = len(ctx.case["genes"])
    parts = {i: _gene_parts(ctx, i) for i in range(count)}

    def sort_key(i: int) -> Tuple[int, int]:
        start, end = ctx.case["genes"][i][:2]
        return (start - length if end > length else start, end - start)

    order = sorted(range(count), key=sort_key)

    def overlaps(i: int, low: int, high: int) -> bool:
        return any(s < high and low < e for s, e in parts[i])

    def inside(i: int, low: int, high: int) -> bool:
        return all(low <= s and e <= high for s, e in parts[i])

    def one_part(low: int, high: int) -> List[int]:
        index = sum(1 for i in order if sort_key(i) < (low, high - low))
        while index > 0 and min(s for s, _ in parts[order[index - 1]]) == low:
            index -= 1
        while index >= 1 and overlaps(order[index - 1], low, high):
            index -= 1
        found = []
        while index < count:
            gene = order[index]
            if inside(gene, low, high) or overlaps(gene, low, high):
                found.append(gene)
            elif index + 1 < count and all(any(s2 <= s and e <= e2 for s2, e2 in parts[gene])
                                           for s, e in parts[order[index + 1]]):
                pass
            else:
                break
            index += 1
        return found

    start, size, pieces = window
    if pieces == 1:
        return set(one_part(start, start + size))
    upper, lower = (start, length), (0, start + size - length)
    # every gene found for one of the two parts counts (with_overlapping is honoured since the C03-F4 repair)
    return set(one_part(*upper) + one_part(*lower))


def _reported_under(ctx: Context, rule: Dict[str, Any], scan_defect: bool) -> set:
    """ the anchoring genes that result when the neighbours of a gene are looked up as the code base does
        it (all distances correct). scan_defect False: only "two-part windows see fully contained genes
        only" is modelled; True: the whole lookup as coded (also the C08 scan that loses genes).
        Neighbours that supply a missing profile to a gene at which the rule fires are reported with it. """
    hits, cutoff, cond, length = ctx.case["hits"], rule["cut"], rule["cond"], ctx.length
    genes = list(range(len(hits)))

    def visible(i: int) -> set:
        window = ctx.window(i, cutoff)
        if scan_defect:
            return _lookup_as_coded(ctx, window)
        if window[2] != 2:
            return set(genes)
        upper, lower = (window[0], length), (0, window[0] + window[1] - length)
        return {j for j in genes
                if all(any(low <= s and e <= high for low, high in (upper, lower)) for s, e in _gene_parts(ctx, j))}

    reported = set()
    for i in genes:
        own = hits[i]
        if not own:
            continue
        can_see = visible(i)
        seen = [j for j in genes if j != i and hits[j] and j in can_see and ctx.geo.dist(i, j) < cutoff]
        if cond == "a and b":
            missing = [p for p in "ab" if p not in own]
            helpers = {p: [j for j in seen if p in hits[j]] for p in missing}
            if len(missing) < 2 and all(helpers[p] for p in missing):
                reported.add(i)
                for p in missing:
                    reported.update(helpers[p])
        elif cond == "a and not c":
            if "a" in own and "c" not in own and not any("c" in hits[j] for j in seen):
                reported.add(i)
        elif cond == "minimum(2,[a,b])":
            mine = sum(1 for p in "ab" if p in own)
            if mine >= 2:
                reported.add(i)
            elif mine == 1:
                helpers2 = [j for j in seen if "a" in hits[j] or "b" in hits[j]]
                if mine + sum(1 for j in helpers2 for p in "ab" if p in hits[j]) >= 2:
                    reported.add(i)
                    reported.update(helpers2)
    return reported


def _anchor_model(ctx: Context, where: Dict[str, Any], scan_defect: bool) -> bool:
    rule = ctx.rule(where)
    if not rule or not ctx.circular or not needs_neighbours(ctx, where):
        return False
    key = ("anchors-as-coded", rule["n"], scan_defect)
    if key not in ctx._memo:  # pylint: disable=protected-access
        expected = chk.expected_anchors(ctx.case, rule, ctx.geo)
        ctx._memo[key] = _reported_under(ctx, rule, scan_defect) != expected  # pylint: disable=protected-access
    return ctx._memo[key]  # pylint: disable=protected-access


def lookup_scan_loses_neighbour(ctx: Context, where: Dict[str, Any]) -> bool:
    """ circular; the rule looks at neighbouring genes and its anchoring genes change when the neighbours of
        each gene are looked up the way Record.get_cds_features_within_location is coded (see
        _lookup_as_coded): beyond the two-part-window rule, a one-part window that overlaps the high part
        of an origin-spanning gene does not find it when another gene outside the window sorts in between """
    return _anchor_model(ctx, where, True)


def window_edge(ctx: Context, where: Dict[str, Any]) -> bool:
    """ circular; the rule looks at neighbouring genes and its anchoring genes change when, around every
        gene whose cutoff-extended search window crosses the origin (two parts), only the genes lying
        completely inside one part of that window count as neighbours - which is what
        Record.get_cds_features_within_location does for a two-part location (with_overlapping is
        ignored there; a gene across the seam of a two-part window covering the whole ring is lost too) """
    return _anchor_model(ctx, where, False)


def ring_closes(ctx: Context, where: Dict[str, Any]) -> bool:
    """ circular; the core spans the origin and core + 2 x neighbourhood reaches around the ring """
    rule = ctx.rule(where)
    core = where.get("core") or []
    if not rule or not ctx.circular or len(core) != 2:
        return False
    return sum(end - start for start, end in core) + 2 * rule["nb"] >= ctx.length


def merged_ring_closes(ctx: Context, where: Dict[str, Any]) -> bool:
    """ circular; some rule has a chain of several genes, one of them spanning the origin, whose span with
        the neighbourhood reaches around the ring (the protocluster of the origin-spanning gene gets
        merged with the others by merge_over_origin and the merged neighbourhood laps itself into
        three parts) """
    if not ctx.circular:
        return False
    for rule in ctx.case["rules"]:
        anchors = chk.expected_anchors(ctx.case, rule, ctx.geo)
        extra = [i for i in ctx.hit_genes() if rule.get("ext") and model.extender_ok(rule["ext"], ctx.case["hits"][i])]
        for group in chk.chains(anchors, rule["cut"], ctx.geo):
            members = list(group) + [i for i in extra if i not in group]
            late_merge = (sum(1 for i in members if ctx.spanning(i)) >= 2
                          or _upstream_run(ctx, members, rule["cut"]) is True
                          or len(ctx.geo.union(group)) == ctx.length)
            if len(members) < 2 or not late_merge:
                continue
            for start, size in ctx.geo.spans(group):
                if (start + size > ctx.length or size == ctx.length) and size + 2 * rule["nb"] >= ctx.length:
                    return True
    return False


def _own(where: Dict[str, Any]) -> List[int]:
    return list(where.get("genes") or []) + [i for i in where.get("may") or [] if i not in (where.get("genes") or [])]


def _all_groups(where: Dict[str, Any]) -> List[List[int]]:
    groups = list(where.get("groups") or []) + list(where.get("reach") or [])
    for others in (where.get("sup_groups") or {}).values():
        groups.extend(others)
    return groups


def wrap_prone_own(ctx: Context, where: Dict[str, Any]) -> bool:
    return ctx.wrap_prone(_own(where))


def wrap_prone_any(ctx: Context, where: Dict[str, Any]) -> bool:
    return any(ctx.wrap_prone(group) for group in _all_groups(where))


def spanning_member_own(ctx: Context, where: Dict[str, Any]) -> bool:
    return ctx.spanning_member(_own(where))


def _upstream_run(ctx: Context, group: Sequence[int], cutoff: int) -> Optional[bool]:
    """ for a chain with an origin-spanning gene: None if every other gene is reached by walking forward
        from the origin (what the chain loop of find_protoclusters does), else whether the cutoff-extended
        last gene before the origin itself wraps (then merge_over_origin may still join the two cores) """
    genes = ctx.case["genes"]
    spanning = [i for i in group if ctx.spanning(i)]
    if not spanning or len(group) < 2:
        return None
    reach = max(genes[i][1] - ctx.length for i in spanning)
    rest = sorted((i for i in group if i not in spanning), key=lambda i: genes[i][0])
    index = 0
    while index < len(rest) and genes[rest[index]][0] - reach < cutoff:
        reach = max(reach, genes[rest[index]][1])
        index += 1
    if index == len(rest):
        return None
    return max(genes[i][1] for i in rest[index:]) + cutoff > ctx.length


def spanning_member_any(ctx: Context, where: Dict[str, Any]) -> bool:
    """ circular; a chain (of the rule or of one of its superiors) holds an origin-spanning gene and a gene
        that is chained to it only from before the origin: find_protoclusters starts a separate core for the
        origin-spanning gene and its chain loop joins only what follows the origin """
    cutoff = ctx.rule(where).get("cut", 0)
    by_name = {r["n"]: r for r in ctx.case["rules"]}
    for group in list(where.get("groups") or []) + list(where.get("reach") or []):
        if _upstream_run(ctx, group, cutoff) is not None:
            return True
    for name, others in (where.get("sup_groups") or {}).items():
        for other in others:
            if _upstream_run(ctx, other, by_name[name]["cut"]) is not None:
                return True
    return False


def spanning_member_unjoined(ctx: Context, where: Dict[str, Any]) -> bool:
    """ as spanning_member_any, and the cutoff-extended gene before the origin does not wrap itself """
    cutoff = ctx.rule(where).get("cut", 0)
    return any(_upstream_run(ctx, group, cutoff) is False
               for group in list(where.get("groups") or []) + list(where.get("reach") or []))


def hull_swallows(ctx: Context, where: Dict[str, Any]) -> bool:
    """ circular; a wrap-prone chain of the rule (the code base builds its hull instead of the span over the
        origin) whose hull contains an anchoring gene of another chain of the same rule """
    genes = ctx.case["genes"]
    groups = list(where.get("groups") or [])
    anchors = {i for group in groups for i in group}
    for group in groups + list(where.get("reach") or []):
        if not ctx.wrap_prone(group):
            continue
        others = anchors - set(group)
        if any(ctx.spanning(i) for i in group):
            if others:
                return True
            continue
        low = min(genes[i][0] for i in group)
        high = max(genes[i][1] for i in group)
        if any(low <= genes[h][0] and genes[h][1] <= high for h in others):
            return True
    return False


def some_chain_wrap_prone(ctx: Context, _where: Dict[str, Any]) -> bool:
    """ circular; some rule has a chain (with its admissible extender genes) that is wrap-prone """
    if not ctx.circular:
        return False
    for rule in ctx.case["rules"]:
        anchors = chk.expected_anchors(ctx.case, rule, ctx.geo)
        for group in chk.chains(anchors, rule["cut"], ctx.geo):
            members = list(group)
            if rule.get("ext"):
                _, may = chk.extender_closures(ctx.case, rule, group, ctx.geo)
                members += sorted(may)
            if ctx.wrap_prone(members) or ctx.wrap_prone(group):
                return True
    return False


def half_ring_with_extenders(ctx: Context, where: Dict[str, Any]) -> bool:
    """ circular; the chain together with its admissible extender genes occupies at least half of the
        ring (while extender genes are added one by one the growing core crosses the origin and sides
        are picked by distance to the record ends) """
    members = _own(where)
    if not ctx.circular or not members:
        return False
    return ctx.length - ctx.geo.spans(members)[0][1] <= ctx.length // 2


def superior_chain_over_origin(ctx: Context, where: Dict[str, Any]) -> bool:
    """ circular; a chain of several genes of one of the rule's SUPERIORS crosses the origin (its pieces are
        only joined by merge_over_origin, after remove_redundant_protoclusters has compared cores) """
    for others in (where.get("sup_groups") or {}).values():
        for other in others:
            if len(other) >= 2 and ctx.crossing_spans(other):
                return True
    return False


def merged_cores_with_extenders(ctx: Context, _where: Dict[str, Any]) -> bool:
    """ circular; a rule with EXTENDERS has two chains whose spans (with admissible extender genes) overlap
        or come within the cutoff of each other, so that merge_over_origin merges their protoclusters
        although the merged core does not cross the origin """
    if not ctx.circular:
        return False
    for rule in ctx.case["rules"]:
        if not rule.get("ext"):
            continue
        anchors = chk.expected_anchors(ctx.case, rule, ctx.geo)
        reach = []
        for group in chk.chains(anchors, rule["cut"], ctx.geo):
            _, may = chk.extender_closures(ctx.case, rule, group, ctx.geo)
            reach.append(ctx.geo.union(list(group) + sorted(may)))
        for i in range(len(reach)):
            for j in range(i + 1, len(reach)):
                if model.set_distance(reach[i], reach[j], ctx.length, True) <= rule["cut"]:
                    return True
    return False


def superior_overlaps(ctx: Context, where: Dict[str, Any]) -> bool:
    """ the chain's span shares a base with the span of a chain of one of the rule's SUPERIORS that does
        not contain it (the code base drops the inferior on any interleaving of the two gene ranges) """
    sup_groups = where.get("sup_groups") or {}
    mine = set(where.get("genes") or [])
    if not sup_groups or not mine:
        return False
    own_chains = [g for g in where.get("groups") or [] if set(g) & mine] or [sorted(mine)]
    for group in own_chains:
        own = [model.span_bases(v, ctx.length) for v in ctx.geo.spans(group)]
        for others in sup_groups.values():
            for other in others:
                theirs = [model.span_bases(v, ctx.length) for v in ctx.geo.spans(other)]
                if any(a & b and not a <= b for a in own for b in theirs):
                    return True
    return False


def zero_start_with_spanning_gene(ctx: Context, _where: Dict[str, Any]) -> bool:
    """ circular; one gene spans the origin and the core of some rule's chain (smallest span of the
        chain, not crossing the origin) starts exactly at base 0: Record.get_cds_features_within_location
        (the C08 finding) steps back onto the origin-spanning gene (its compound location also has
        start 0), which is not inside the core, stops and returns no gene at all for that core """
    genes = ctx.case["genes"]
    if not (ctx.circular and any(g[1] > ctx.length for g in genes) and any(g[0] == 0 for g in genes)):
        return False
    for rule in ctx.case["rules"]:
        anchors = chk.expected_anchors(ctx.case, rule, ctx.geo)
        for group in chk.chains(anchors, rule["cut"], ctx.geo):
            variants = [list(group)]
            if rule.get("ext"):
                must, may = chk.extender_closures(ctx.case, rule, group, ctx.geo)
                variants += [list(group) + sorted(must), list(group) + sorted(may)]
            for members in variants:
                for start, size in ctx.geo.spans(members):
                    if start == 0 and size < ctx.length:
                        return True
            # cores are first built from the genes that do not span the origin (an origin-spanning gene
            # gets a core of its own, a chain that should wrap gets its hull, C03-F9 / C03-F6)
            if any(genes[i][0] == 0 for i in group if not ctx.spanning(i)):
                return True
    return False


Mechanism = Tuple[str, str, Callable[[Context, Dict[str, Any]], bool]]

# clause -> ordered list of (suffix, finding id, mechanism); the first that holds labels the check
WRAP_ANY: Mechanism = ("wrap-prone", "C03-F6", wrap_prone_any)
WRAP_SWALLOWS: Mechanism = ("wrap-prone-hull-swallows", "C03-F6", hull_swallows)
# C03-F4 (two-part window), C03-F9 (origin-spanning first core) and C03-F12 (lookup scan) were repaired in /repo:
# no input class is attached to them any more, their witnesses are replayed as regression tests
SUP_OVER: Mechanism = ("superior-overlaps", "C03-F7", superior_overlaps)
# C03-F10 (redundancy tested before merging over the origin) and C03-F11 (merge_pair neighbourhood) were repaired
# in /repo: no input class is attached to them any more, their witnesses are replayed as regression tests

MECHANISMS: Dict[str, List[Mechanism]] = {
    "neighbourhood": [("ring-closes", "C03-F5", ring_closes)],
    "no-unexpected-exception": [
        ("wrap-prone", "C03-F6", some_chain_wrap_prone),
    ],
    "core-smallest-span": [("wrap-prone", "C03-F6", wrap_prone_own)],
    "extenders-core": [("wrap-prone", "C03-F6", wrap_prone_own),
                       ("half-ring", "C03-F6", half_ring_with_extenders)],
    "chains-maximal": [WRAP_SWALLOWS],
    "one-protocluster-per-chain": [WRAP_SWALLOWS],
    "kept-unless-superior-covers": [SUP_OVER, WRAP_ANY],
    "dropped-when-superior-covers": [WRAP_ANY],
}


def label(clause: str, ctx: Context, where: Dict[str, Any]) -> str:
    """ the clause name with the suffix of the first known input class the check falls into """
    for suffix, _, mechanism in MECHANISMS.get(clause, ()):
        if mechanism(ctx, where):
            return f"{clause}[{suffix}]"
    return clause


def classifier(finding: str) -> Callable[[str, Any], bool]:
    """ predicate (clause, case) for the driver: the labelled clause belongs to the finding and the
        input really lies in that class (recomputed from the stored case) """
    def predicate(clause: str, case: Any) -> bool:
        if "[" not in clause or not isinstance(case, dict) or "L" not in case:
            return False
        base, suffix = clause[:-1].split("[", 1)
        where = case.get("at") or {}
        plain = {k: v for k, v in case.items() if k != "at"}
        ctx = Context(plain)
        for name, owner, _ in MECHANISMS.get(base, ()):
            if name == suffix and owner == finding:
                return label(base, ctx, where) == clause
        return False
    return predicate


FINDING_IDS = sorted({owner for entries in MECHANISMS.values() for _, owner, _ in entries})


# ---------------------------------------------------------------------------------------------
#  whole-case view (used by C07, which compares complete runs): which known input classes does a
#  case touch at all, decided from the input only (expected anchors and chains of the oracle)
# ---------------------------------------------------------------------------------------------

# C03-F8 / C03-F12 (both faces of the gene lookup Record.get_cds_features_within_location) were repaired in /repo:
# the classes "gene-at-0-with-origin-spanning-gene" and "lookup-scan-loses-neighbour" label nothing any more
CASE_PRIORITY = (
    "wrap-prone",
    "ring-closes",
    "superior-overlaps-over-origin",
    "merged-cores-with-extenders",
)


def case_mechanisms(case: Dict[str, Any]) -> List[str]:
    """ the suffixes of CASE_PRIORITY that apply to some rule / chain of the case """
    ctx = Context(case)
    found = set()
    if zero_start_with_spanning_gene(ctx, {}):
        found.add("gene-at-0-with-origin-spanning-gene")
    has_spanning_gene = ctx.circular and any(g[1] > ctx.length for g in case["genes"])
    by_name = {r["n"]: r for r in case["rules"]}
    chains_of: Dict[str, List[List[int]]] = {}
    for rule in case["rules"]:
        where = {"rule": rule["n"]}
        if lookup_scan_loses_neighbour(ctx, where):
            found.add("lookup-scan-loses-neighbour")
        anchors = chk.expected_anchors(case, rule, ctx.geo)
        chains_of[rule["n"]] = chk.chains(anchors, rule["cut"], ctx.geo)
        for group in chains_of[rule["n"]]:
            members = list(group)
            if rule.get("ext"):
                _, may = chk.extender_closures(case, rule, group, ctx.geo)
                members += sorted(may)
            if _upstream_run(ctx, members, rule["cut"]) is not None or _upstream_run(ctx, group, rule["cut"]) is not None:
                found.add("origin-spanning-gene-in-chain")
            if ctx.wrap_prone(members) or ctx.wrap_prone(group):
                found.add("wrap-prone")
            for start, size in ctx.crossing_spans(members):
                if size + 2 * rule["nb"] >= ctx.length:
                    found.add("ring-closes")
            if has_spanning_gene:
                # a core or a protocluster that starts exactly at base 0 (same lookup as for a gene at 0)
                for start, size in ctx.geo.spans(members):
                    if start + size <= ctx.length and (start == 0 or 0 < start <= rule["nb"] < ctx.length - size):
                        if start == 0 or start - rule["nb"] == 0:
                            found.add("gene-at-0-with-origin-spanning-gene")
    if ctx.circular:
        for rule in case["rules"]:
            for sup in rule.get("sup") or []:
                if sup not in by_name:
                    continue
                for group in chains_of[rule["n"]]:
                    for other in chains_of[sup]:
                        if not (ctx.crossing_spans(group) or ctx.crossing_spans(other)):
                            continue
                        own = [model.span_bases(v, ctx.length) for v in ctx.geo.spans(group)]
                        theirs = [model.span_bases(v, ctx.length) for v in ctx.geo.spans(other)]
                        if any(a & b and not a <= b for a in own for b in theirs):
                            found.add("superior-overlaps-over-origin")
    if ctx.circular:
        if merged_cores_with_extenders(ctx, {}):
            found.add("merged-cores-with-extenders")
    return [name for name in CASE_PRIORITY if name in found]
