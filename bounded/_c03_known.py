"""Private helper of bounded/C03.py: the input classes of the known findings of property C03.

A class is a predicate over the INPUT of one clause (the case, plus the clause's own input such as
the rule, the chain of anchoring genes or the reported core it is evaluated on). Clause names carry
the class as a suffix, e.g. "core-smallest-span[wrap-prone]": the suffix is decided from the input
alone, before and independently of the outcome, so that failures inside a known class never use up
the driver's per-clause failure slots of the plain clause (where any new violation would appear).
"""
from __future__ import annotations

from typing import Any, Callable, Dict, List, Optional, Sequence, Tuple

from . import _c03_check as chk
from . import _c03_model as model

NEIGHBOUR_CONDITIONS = ("a and b", "a and not c", "minimum(2,[a,b])")
CHAIN_CLAUSES = ("chains-maximal", "one-protocluster-per-chain")
SUP_CLAUSES = ("kept-unless-superior-covers", "dropped-when-superior-covers")


class Context:
    """ one case with its geometry computed once """
    def __init__(self, case: Dict[str, Any]) -> None:
        self.case = case
        self.length = case["L"]
        self.circular = bool(case["circ"])
        self._geo: Optional[chk.Geometry] = None
        self._memo: Dict[Any, Any] = {}

    @property
    def geo(self) -> chk.Geometry:
        if self._geo is None:
            self._geo = chk.Geometry(self.case)
        return self._geo

    def rule(self, where: Dict[str, Any]) -> Dict[str, Any]:
        for rule in self.case["rules"]:
            if rule["n"] == where.get("rule"):
                return rule
        return {}

    def spanning(self, index: int) -> bool:
        return self.case["genes"][index][1] > self.length

    def window(self, index: int, cutoff: int) -> Tuple[int, int, int]:
        """ the search window of a rule around a gene on a ring as the code base builds it (cutoff on
            both sides, capped so that it cannot lap itself): (start, size, parts); parts is 1 for a
            window inside the record or one that became the whole record, 2 when it crosses the origin """
        start, end, _ = self.case["genes"][index]
        size = end - start
        if end > self.length:
            # an origin-spanning gene: the window always crosses the origin unless it is everything
            reach = min(cutoff, (self.length - size) // 2 + 1)
            if size + 2 * reach > self.length:
                return (0, self.length, 1)
            return ((start - reach) % self.length, size + 2 * reach, 2)
        reach = min(cutoff, (self.length - size) // 2 + 1)
        total = size + 2 * reach
        if total > self.length or (total == self.length and start - reach < 0):
            return (0, self.length, 1)
        low = start - reach
        crosses = low < 0 or end + reach > self.length
        return (low % self.length, total, 2 if crosses else 1)

    def wraps(self, index: int, cutoff: int) -> bool:
        return self.window(index, cutoff)[2] == 2

    def hit_genes(self) -> List[int]:
        return [i for i, own in enumerate(self.case["hits"]) if own]

    def crossing_spans(self, group: Sequence[int]) -> List[Tuple[int, int]]:
        """ the smallest spans of the chain if they cross the origin, else [] """
        key = ("spans", tuple(group))
        if key not in self._memo:
            spans = self.geo.spans(list(group)) if self.circular and group else []
            if all(start + size <= self.length for start, size in spans):
                spans = []
            self._memo[key] = spans
        return self._memo[key]

    def wrap_prone(self, group: Sequence[int]) -> bool:
        """ a chain whose smallest span crosses the origin although the gap it leaves out is at most
            half the record (the code base wraps only over "a gap of more than half the record") """
        spans = self.crossing_spans(group)
        return bool(spans) and self.length - spans[0][1] <= self.length // 2

    def spanning_member(self, group: Sequence[int]) -> bool:
        """ a chain of several genes one of which spans the origin (its core is started separately and
            only joined with what follows the origin) """
        return self.circular and len(group) >= 2 and any(self.spanning(i) for i in group)


# ---------------------------------------------------------------------------------------------
#  mechanisms: (ctx, where) -> bool
# ---------------------------------------------------------------------------------------------

def needs_neighbours(ctx: Context, where: Dict[str, Any]) -> bool:
    return ctx.rule(where).get("cond") in NEIGHBOUR_CONDITIONS


def stale_cutoff_cache(ctx: Context, where: Dict[str, Any]) -> bool:
    """ circular; the rule's cutoff was already looked up for an earlier rule, the most recent NEW
        cutoff before it is a different one, and for some gene with hits exactly one of the two
        cutoffs gives a search window that crosses the origin """
    rule = ctx.rule(where)
    if not rule or not ctx.circular or not needs_neighbours(ctx, where):
        return False
    order: List[int] = []
    for other in ctx.case["rules"]:
        if other["n"] == rule["n"]:
            break
        if other["cut"] not in order:
            order.append(other["cut"])
    if rule["cut"] not in order or order[-1] == rule["cut"]:
        return False
    return any(ctx.wraps(i, rule["cut"]) != ctx.wraps(i, order[-1]) for i in ctx.hit_genes())


def whole_record_window(ctx: Context, where: Dict[str, Any]) -> bool:
    """ circular; the rule's search window around a gene with hits is the whole record, and another
        gene with hits is closer than the cutoff only by the way across the origin """
    rule = ctx.rule(where)
    if not rule or not ctx.circular or not needs_neighbours(ctx, where):
        return False
    cutoff = rule["cut"]
    hit = ctx.hit_genes()
    for i in hit:
        if ctx.window(i, cutoff)[1] != ctx.length or ctx.wraps(i, cutoff):
            continue
        for j in hit:
            if j == i:
                continue
            ring = ctx.geo.dist(i, j)
            line = model.set_distance(ctx.geo.bases[i], ctx.geo.bases[j], ctx.length, False)
            if ring < cutoff <= line:
                return True
    return False


def spanning_hit_gene(ctx: Context, where: Dict[str, Any]) -> bool:
    """ circular; a gene with hits spans the origin (distances to it are taken from its envelope
        [0, L), the C04 finding) and the rule looks at neighbours """
    return (ctx.circular and needs_neighbours(ctx, where)
            and any(ctx.spanning(i) for i in ctx.hit_genes()))


def window_edge(ctx: Context, where: Dict[str, Any]) -> bool:
    """ circular; the rule's search window around a gene with hits crosses the origin (two parts) and
        another gene with hits shares a base with that window without each of its parts lying inside
        one part of the window (for two-part windows only such fully contained genes are looked at;
        this includes a gene lying across the seam of a two-part window that covers the whole ring) """
    rule = ctx.rule(where)
    if not rule or not ctx.circular or not needs_neighbours(ctx, where):
        return False
    hit = ctx.hit_genes()
    length = ctx.length
    for i in hit:
        if not ctx.wraps(i, rule["cut"]):
            continue
        start, size, _ = ctx.window(i, rule["cut"])
        upper = frozenset(range(start, length))
        lower = frozenset(range(0, start + size - length))
        for j in hit:
            if j == i or not ctx.geo.bases[j] & (upper | lower):
                continue
            gene = ctx.case["genes"][j]
            if gene[1] > length:
                parts = [frozenset(range(gene[0], length)), frozenset(range(0, gene[1] - length))]
            else:
                parts = [frozenset(range(gene[0], gene[1]))]
            if not all(part <= upper or part <= lower for part in parts):
                return True
    return False


def ring_closes(ctx: Context, where: Dict[str, Any]) -> bool:
    """ circular; the core spans the origin and core + 2 x neighbourhood reaches around the ring """
    rule = ctx.rule(where)
    core = where.get("core") or []
    if not rule or not ctx.circular or len(core) != 2:
        return False
    return sum(end - start for start, end in core) + 2 * rule["nb"] >= ctx.length


def merged_ring_closes(ctx: Context, where: Dict[str, Any]) -> bool:
    """ circular; some rule has a chain of several genes, one of them spanning the origin, whose span with
        the neighbourhood reaches around the ring (the protocluster of the origin-spanning gene gets
        merged with the others by merge_over_origin and the merged neighbourhood laps itself into
        three parts) """
    if not ctx.circular:
        return False
    for rule in ctx.case["rules"]:
        anchors = chk.expected_anchors(ctx.case, rule, ctx.geo)
        extra = [i for i in ctx.hit_genes() if rule.get("ext") and model.extender_ok(rule["ext"], ctx.case["hits"][i])]
        for group in chk.chains(anchors, rule["cut"], ctx.geo):
            members = list(group) + [i for i in extra if i not in group]
            if len(members) < 2 or not any(ctx.spanning(i) for i in members):
                continue
            for start, size in ctx.geo.spans(group):
                if (start + size > ctx.length or size == ctx.length) and size + 2 * rule["nb"] >= ctx.length:
                    return True
    return False


def _own(where: Dict[str, Any]) -> List[int]:
    return list(where.get("genes") or []) + [i for i in where.get("may") or [] if i not in (where.get("genes") or [])]


def _all_groups(where: Dict[str, Any]) -> List[List[int]]:
    groups = list(where.get("groups") or []) + list(where.get("reach") or [])
    for others in (where.get("sup_groups") or {}).values():
        groups.extend(others)
    return groups


def wrap_prone_own(ctx: Context, where: Dict[str, Any]) -> bool:
    return ctx.wrap_prone(_own(where))


def wrap_prone_any(ctx: Context, where: Dict[str, Any]) -> bool:
    return any(ctx.wrap_prone(group) for group in _all_groups(where))


def spanning_member_own(ctx: Context, where: Dict[str, Any]) -> bool:
    return ctx.spanning_member(_own(where))


def spanning_member_any(ctx: Context, where: Dict[str, Any]) -> bool:
    return any(ctx.spanning_member(group) for group in _all_groups(where))


def some_chain_wrap_prone(ctx: Context, _where: Dict[str, Any]) -> bool:
    """ circular; some rule has a chain (with its admissible extender genes) that is wrap-prone """
    if not ctx.circular:
        return False
    for rule in ctx.case["rules"]:
        anchors = chk.expected_anchors(ctx.case, rule, ctx.geo)
        for group in chk.chains(anchors, rule["cut"], ctx.geo):
            members = list(group)
            if rule.get("ext"):
                _, may = chk.extender_closures(ctx.case, rule, group, ctx.geo)
                members += sorted(may)
            if ctx.wrap_prone(members) or ctx.wrap_prone(group):
                return True
    return False


def half_ring_with_extenders(ctx: Context, where: Dict[str, Any]) -> bool:
    """ circular; the chain together with its admissible extender genes occupies at least half of the
        ring (while extender genes are added one by one the growing core crosses the origin and sides
        are picked by distance to the record ends) """
    members = _own(where)
    if not ctx.circular or not members:
        return False
    return ctx.length - ctx.geo.spans(members)[0][1] <= ctx.length // 2


def superior_chain_over_origin(ctx: Context, where: Dict[str, Any]) -> bool:
    """ circular; a chain of several genes of one of the rule's SUPERIORS crosses the origin (its pieces are
        only joined by merge_over_origin, after remove_redundant_protoclusters has compared cores) """
    for others in (where.get("sup_groups") or {}).values():
        for other in others:
            if len(other) >= 2 and ctx.crossing_spans(other):
                return True
    return False


def merged_cores_with_extenders(ctx: Context, _where: Dict[str, Any]) -> bool:
    """ circular; a rule with EXTENDERS has two chains whose spans (with admissible extender genes) overlap
        or come within the cutoff of each other, so that merge_over_origin merges their protoclusters
        although the merged core does not cross the origin """
    if not ctx.circular:
        return False
    for rule in ctx.case["rules"]:
        if not rule.get("ext"):
            continue
        anchors = chk.expected_anchors(ctx.case, rule, ctx.geo)
        reach = []
        for group in chk.chains(anchors, rule["cut"], ctx.geo):
            _, may = chk.extender_closures(ctx.case, rule, group, ctx.geo)
            reach.append(ctx.geo.union(list(group) + sorted(may)))
        for i in range(len(reach)):
            for j in range(i + 1, len(reach)):
                if model.set_distance(reach[i], reach[j], ctx.length, True) <= rule["cut"]:
                    return True
    return False


def superior_overlaps(ctx: Context, where: Dict[str, Any]) -> bool:
    """ the chain's span shares a base with the span of a chain of one of the rule's SUPERIORS that does
        not contain it (the code base drops the inferior on any interleaving of the two gene ranges) """
    sup_groups = where.get("sup_groups") or {}
    mine = set(where.get("genes") or [])
    if not sup_groups or not mine:
        return False
    own_chains = [g for g in where.get("groups") or [] if set(g) & mine] or [sorted(mine)]
    for group in own_chains:
        own = [model.span_bases(v, ctx.length) for v in ctx.geo.spans(group)]
        for others in sup_groups.values():
            for other in others:
                theirs = [model.span_bases(v, ctx.length) for v in ctx.geo.spans(other)]
                if any(a & b and not a <= b for a in own for b in theirs):
                    return True
    return False


def zero_start_with_spanning_gene(ctx: Context, _where: Dict[str, Any]) -> bool:
    """ circular; one gene spans the origin and another gene starts at base 0 (the C08 finding: the
        gene lookup for a location starting at 0 stops at the origin-spanning gene) """
    genes = ctx.case["genes"]
    return (ctx.circular and any(g[1] > ctx.length for g in genes) and any(g[0] == 0 for g in genes))


Mechanism = Tuple[str, str, Callable[[Context, Dict[str, Any]], bool]]

# clause -> ordered list of (suffix, finding id, mechanism); the first that holds labels the check
WRAP_ANY: Mechanism = ("wrap-prone", "C03-F6", wrap_prone_any)
SPAN_ANY: Mechanism = ("origin-spanning-gene-in-chain", "C03-F9", spanning_member_any)
SUP_OVER: Mechanism = ("superior-overlaps", "C03-F7", superior_overlaps)
SUP_LATE: Mechanism = ("superior-chain-over-origin", "C03-F10", superior_chain_over_origin)

MECHANISMS: Dict[str, List[Mechanism]] = {
    "anchoring-genes": [
        ("window-edge-over-origin", "C03-F4", window_edge),
    ],
    "neighbourhood": [("ring-closes", "C03-F5", ring_closes)],
    "no-unexpected-exception": [
        ("gene-at-0-with-origin-spanning-gene", "C03-F8", zero_start_with_spanning_gene),
        ("merged-ring-closes", "C03-F5", merged_ring_closes),
        ("wrap-prone", "C03-F6", some_chain_wrap_prone),
        ("merged-cores-with-extenders", "C03-F11", merged_cores_with_extenders),
    ],
    "core-smallest-span": [("wrap-prone", "C03-F6", wrap_prone_own)],
    "extenders-core": [("wrap-prone", "C03-F6", wrap_prone_own),
                       ("half-ring", "C03-F6", half_ring_with_extenders)],
    "chains-maximal": [WRAP_ANY, SPAN_ANY, SUP_OVER, SUP_LATE],
    "one-protocluster-per-chain": [WRAP_ANY, SPAN_ANY, SUP_LATE],
    "kept-unless-superior-covers": [WRAP_ANY, SPAN_ANY, SUP_OVER, SUP_LATE],
    "dropped-when-superior-covers": [WRAP_ANY, SUP_LATE],
}


def label(clause: str, ctx: Context, where: Dict[str, Any]) -> str:
    """ the clause name with the suffix of the first known input class the check falls into """
    for suffix, _, mechanism in MECHANISMS.get(clause, ()):
        if mechanism(ctx, where):
            return f"{clause}[{suffix}]"
    return clause


def classifier(finding: str) -> Callable[[str, Any], bool]:
    """ predicate (clause, case) for the driver: the labelled clause belongs to the finding and the
        input really lies in that class (recomputed from the stored case) """
    def predicate(clause: str, case: Any) -> bool:
        if "[" not in clause or not isinstance(case, dict) or "L" not in case:
            return False
        base, suffix = clause[:-1].split("[", 1)
        where = case.get("at") or {}
        plain = {k: v for k, v in case.items() if k != "at"}
        ctx = Context(plain)
        for name, owner, _ in MECHANISMS.get(base, ()):
            if name == suffix and owner == finding:
                return label(base, ctx, where) == clause
        return False
    return predicate


FINDING_IDS = sorted({owner for entries in MECHANISMS.values() for _, owner, _ in entries})


# ---------------------------------------------------------------------------------------------
#  whole-case view (used by C07, which compares complete runs): which known input classes does a
#  case touch at all, decided from the input only (expected anchors and chains of the oracle)
# ---------------------------------------------------------------------------------------------

CASE_PRIORITY = (
    "gene-at-0-with-origin-spanning-gene",
    "window-edge-over-origin",
    "origin-spanning-gene-in-chain",
    "wrap-prone",
    "ring-closes",
    "superior-overlaps-over-origin",
    "superior-chain-over-origin",
    "merged-cores-with-extenders",
)


def case_mechanisms(case: Dict[str, Any]) -> List[str]:
    """ the suffixes of CASE_PRIORITY that apply to some rule / chain of the case """
    ctx = Context(case)
    found = set()
    if zero_start_with_spanning_gene(ctx, {}):
        found.add("gene-at-0-with-origin-spanning-gene")
    has_spanning_gene = ctx.circular and any(g[1] > ctx.length for g in case["genes"])
    by_name = {r["n"]: r for r in case["rules"]}
    chains_of: Dict[str, List[List[int]]] = {}
    for rule in case["rules"]:
        where = {"rule": rule["n"]}
        if stale_cutoff_cache(ctx, where):
            found.add("stale-cutoff-cache")
        if whole_record_window(ctx, where):
            found.add("whole-record-window")
        if spanning_hit_gene(ctx, where):
            found.add("origin-spanning-hit-gene")
        if window_edge(ctx, where):
            found.add("window-edge-over-origin")
        anchors = chk.expected_anchors(case, rule, ctx.geo)
        chains_of[rule["n"]] = chk.chains(anchors, rule["cut"], ctx.geo)
        for group in chains_of[rule["n"]]:
            members = list(group)
            if rule.get("ext"):
                _, may = chk.extender_closures(case, rule, group, ctx.geo)
                members += sorted(may)
                if ctx.circular and any(ctx.spanning(i) for i in ctx.hit_genes()
                                        if model.extender_ok(rule["ext"], case["hits"][i]) or i in group):
                    found.add("origin-spanning-hit-gene")
            if ctx.spanning_member(members):
                found.add("origin-spanning-gene-in-chain")
            if ctx.wrap_prone(members) or ctx.wrap_prone(group):
                found.add("wrap-prone")
            for start, size in ctx.crossing_spans(members):
                if size + 2 * rule["nb"] >= ctx.length:
                    found.add("ring-closes")
            if has_spanning_gene:
                # a core or a protocluster that starts exactly at base 0 (same lookup as for a gene at 0)
                for start, size in ctx.geo.spans(members):
                    if start + size <= ctx.length and (start == 0 or 0 < start <= rule["nb"] < ctx.length - size):
                        if start == 0 or start - rule["nb"] == 0:
                            found.add("gene-at-0-with-origin-spanning-gene")
    if ctx.circular:
        for rule in case["rules"]:
            for sup in rule.get("sup") or []:
                if sup not in by_name:
                    continue
                for group in chains_of[rule["n"]]:
                    for other in chains_of[sup]:
                        if not (ctx.crossing_spans(group) or ctx.crossing_spans(other)):
                            continue
                        own = [model.span_bases(v, ctx.length) for v in ctx.geo.spans(group)]
                        theirs = [model.span_bases(v, ctx.length) for v in ctx.geo.spans(other)]
                        if any(a & b and not a <= b for a in own for b in theirs):
                            found.add("superior-overlaps-over-origin")
    if ctx.circular:
        for rule in case["rules"]:
            for sup in rule.get("sup") or []:
                if sup in by_name and chains_of[rule["n"]] and any(
                        len(other) >= 2 and ctx.crossing_spans(other) for other in chains_of[sup]):
                    found.add("superior-chain-over-origin")
        if merged_cores_with_extenders(ctx, {}):
            found.add("merged-cores-with-extenders")
    return [name for name in CASE_PRIORITY if name in found]
