"""Bounded stand-in for property C07: detection is invariant under origin rotation and rule order
(two real runs of the antismash detection are compared; nothing is compared against an oracle except
the premise "each region spans less than half the record", which comes from the C03 oracle).

Shares the harness of C03: bounded/_c03_model.py (input model, bridge), bounded/_c03_check.py
(generators, oracle), bounded/_c03_known.py (input classes of the known findings).
"""
from __future__ import annotations

import itertools
from typing import Any, Dict, Iterator, List, Optional, Sequence, Tuple

from . import _c03_check as chk
from . import _c03_known as known
from . import _c03_model as model
from . import C03

RULE = ("rotation: circular records of the C03 layout families (gap sequences around the cutoffs, 2-4 genes, "
        "hit patterns, rulesets with mixed cutoffs / SUPERIORS / EXTENDERS) whose expected regions all span less "
        "than half the record, each compared with EVERY rotation k=1..L-1 of itself (own rotation routine; cuts "
        "through genes, cores and neighbourhoods included) on rule hits per gene, protoclusters, candidate "
        "clusters and regions by member genes. order: linear and circular records x rulesets of 2-3 rules: all "
        "ordered sub-selections (permutations of every non-empty subset) compared per rule among the runs in "
        "which the same SUPERIORS of that rule are present; plus 3-rule SUPERIORS chains (A > B > C) and a 4-rule "
        "diamond on layouts where one gene satisfies two linked rules (overlaps chained, not mutual), all rule "
        "listing orders. thorough adds wider menus and seeded random cases. "
        "non-trivial = (rotation) the new origin falls inside a gene, a core or a neighbourhood of the base "
        "record, (order) the ruleset has two different cutoffs or a SUPERIORS link; distinct = distinct "
        "(record, hits, ruleset, rotation / ordering).")
EXHAUSTIVE = {"quick": True, "thorough": False}

_rule = C03._rule  # pylint: disable=protected-access
C1, C2, FAR = C03.C1, C03.C2, C03.FAR
RANDOM_PER_SHARD = 600

# rulesets with small neighbourhoods so that regions stay below half of small rings
ROT_SINGLE = [[_rule("r0", C1, 2, "a"), _rule("r1", C2, 3, "a")]]
ROT_PAIRS = [[_rule("r0", C2, 2, "a and b"), _rule("r1", C1, 3, "a and b"), _rule("r2", C2, 3, "a and b")]]
ROT_SUPS = [[_rule("r0", C2, 2, "a"), _rule("r1", C1, 3, "b", sup=["r0"])]]
ROT_EXTS = [[_rule("r0", C1, 2, "a", ext="c")]]
ROT_NBH = [[_rule("r0", C1, 5, "a"), _rule("r1", C2, 4, "a")]]   # neighbourhoods that end exactly at a gene end
ROT_CONDS = [[_rule("r0", C1, 2, "a or b"), _rule("r1", C2, 3, "minimum(2,[a,b])"), _rule("r2", C1, 3, "a and not c")]]

ORD_RULESETS = [
    [_rule("r0", C2, 2, "a and b"), _rule("r1", C1, 5, "a and b"), _rule("r2", C2, 5, "a and b")],
    [_rule("r0", C2, 2, "a"), _rule("r1", C1, 5, "b", sup=["r0"]), _rule("r2", C2, 2, "a or b", sup=["r0"])],
    [_rule("r0", C1, 2, "a and not c"), _rule("r1", C2, 5, "minimum(2,[a,b])"), _rule("r2", C1, 5, "a", ext="c")],
]


# chains of SUPERIORS (A > B > C) and a diamond (D inferior to B and C, both inferior to A): whether an inferior
# protocluster is dropped must not depend on the order in which the rules (hence the protoclusters) are listed
ORD_CHAINS = [
    [_rule("rA", C1, 2, "a"), _rule("rB", C2, 2, "b", sup=["rA"]), _rule("rC", C1, 2, "c", sup=["rB"])],
    [_rule("rA", C2, 2, "a"), _rule("rB", C1, 5, "b", sup=["rA"]), _rule("rC", C2, 2, "c", sup=["rB"])],
]
ORD_DIAMOND = [
    [_rule("rA", C1, 2, "a"), _rule("rB", C2, 2, "b", sup=["rA"]), _rule("rC", C2, 2, "c", sup=["rA"]),
     _rule("rD", C1, 2, "a or b", sup=["rB", "rC"])],
]
# overlaps that are chained rather than mutual: one gene satisfies two linked rules, the next one the next link
CHAIN_HITS2 = [("bc", "ab"), ("ab", "bc"), ("abc", "b"), ("c", "ab")]
CHAIN_HITS3 = [("c", "bc", "ab"), ("ab", "bc", "c"), ("bc", "b", "ab"), ("bc", "ab", "c"), ("b", "abc", "c"),
               ("ac", "b", "bc")]


# an inferior rule with two superiors of which the first (by name) has no protocluster near it (or none at all)
ORD_MULTISUP = [
    [_rule("r0", C1, 2, "c"), _rule("r1", C2, 2, "a"), _rule("r2", C1, 5, "b", sup=["r0", "r1"])],
]
# a negated neighbour condition: only the evaluation of the gene itself decides (nothing masks a lost neighbour)
ROT_EXONS = [[_rule("r0", C1, 2, "a and not c"), _rule("r1", C2, 2, "a")]]


def exon_ring_bases(wide: bool) -> Iterator[Dict[str, Any]]:
    """ rings with one multi-exon gene (2-3 exons of 3 bases, introns of 2; both strands) carrying profile a
        and one neighbour carrying c just inside / at the cutoff of the gene's OUTER exon on either side;
        every rotation then puts the origin into every exon and intron, with one or two exons on a side """
    cutoff = C1
    for exons_n in (2, 3):
        exons = [[20 + 5 * k, 23 + 5 * k] for k in range(exons_n)]
        low, high = exons[0][0], exons[-1][1]
        for strand in (-1, 1):
            for side in ("before", "after"):
                for dist in ((cutoff - 1, cutoff) if not wide else (0, cutoff - 1, cutoff, cutoff + 1)):
                    other = [low - dist - 3, low - dist, -strand] if side == "before" else [high + dist, high + dist + 3, -strand]
                    genes = [[low, high, strand, exons], other]
                    hits = ["a", "c"]
                    if wide:
                        genes.append([42, 45, 1])
                        hits.append("")
                    for rules in ROT_EXONS:
                        case = chk.make_case(48, True, [g[:2] for g in genes], [g[2] for g in genes], hits, rules)
                        case["genes"][0].append(exons)
                        if chk.valid_case(case):
                            yield case


def rotation_families(tier: str) -> Dict[str, Dict[str, Any]]:
    wide = tier != "quick"
    gaps = [0, C1 - 1, C1, C2, FAR] if not wide else [-2, 0, C1 - 1, C1, C1 + 1, C2 - 1, C2, FAR]
    fams = {
        "rot-chain3": {"lens": (3, 4, 5), "gaps": gaps, "hits": [("a", "a", "a")], "rulesets": ROT_SINGLE},
        "rot-pair3": {"lens": (3, 4, 3), "gaps": gaps, "hits": [("a", "b", "a"), ("a", "", "b")],
                      "rulesets": ROT_PAIRS},
        "rot-sup3": {"lens": (3, 4, 3), "gaps": gaps, "hits": [("ab", "b", "a"), ("b", "a", "b")],
                     "rulesets": ROT_SUPS},
        "rot-ext3": {"lens": (3, 4, 3), "gaps": gaps, "hits": [("c", "a", "c"), ("a", "", "c")],
                     "rulesets": ROT_EXTS},
        "rot-cond3": {"lens": (3, 4, 3), "gaps": gaps, "hits": [("a", "b", "c"), ("ab", "c", "b")],
                      "rulesets": ROT_CONDS},
        "rot-chain4": {"lens": (3, 4, 3, 5), "gaps": [0, C1, C2, FAR] if not wide else gaps,
                       "hits": [("a", "a", "a", "a")], "rulesets": ROT_SINGLE},
        # genes without hits that end exactly where a neighbourhood ends (membership by one base)
        "rot-nbh3": {"lens": (3, 4, 3), "gaps": [0, 1, 2, 3, FAR], "hits": [("", "a", ""), ("c", "a", "a")],
                     "rulesets": ROT_NBH},
        # reverse / forward strand multi-exon genes cut by the origin in every exon and intron
        "rot-exon": {"explicit": "exons", "wide": wide},
        # rings shorter than twice the cutoff (the search window becomes the whole record)
        "rot-tiny2": {"lens": (3, 3), "gaps": [0, 1, 2, 7, 8, 9, 10, 11, 12], "hits": [("a", "b")],
                      "rulesets": [[_rule("r0", 8, 1, "a and b")], [_rule("r0", 8, 1, "a")]]},
    }
    return fams


def order_families(tier: str) -> Dict[str, Dict[str, Any]]:
    wide = tier != "quick"
    gaps = [0, C1, C2, FAR] if not wide else [-2, 0, C1 - 1, C1, C2 - 1, C2, FAR]
    return {
        "ord3": {"lens": (3, 4, 3), "gaps": gaps,
                 "hits": [("a", "b", "a"), ("ab", "c", "b"), ("b", "a", "c")][:3 if wide else 2], "rulesets": ORD_RULESETS,
                 "leads": [0, 3], "tails": [0, 6], "cuts": -2 if not wide else -1},
        "ordsup2": {"lens": (3, 4, 3), "gaps": [0, C1 - 1, FAR] if not wide else [0, C1 - 1, C1, C2, FAR],
                    "hits": [("ab", "b", "c"), ("b", "ab", "c"), ("ab", "b", "")], "rulesets": ORD_MULTISUP,
                    "leads": [0], "tails": [3], "cuts": -2},
        "ordchain2": {"lens": (3, 4), "gaps": [0, C1 - 1, C2 - 1, FAR] if not wide else [0, C1 - 1, C1, C2 - 1, C2, FAR],
                      "hits": CHAIN_HITS2, "rulesets": ORD_CHAINS, "leads": [0, 3], "tails": [0, 6],
                      "cuts": -2 if not wide else 0},
        "ordchain3": {"lens": (3, 4, 3), "gaps": [0, C2 - 1, FAR] if not wide else [0, C1 - 1, C1, C2 - 1, C2, FAR],
                      "hits": CHAIN_HITS3[:4] if not wide else CHAIN_HITS3, "rulesets": ORD_CHAINS,
                      "leads": [0], "tails": [3], "cuts": -2},
        "orddiamond": {"lens": (3, 4, 3), "gaps": [0, C2 - 1, FAR] if not wide else [0, C1 - 1, C2 - 1, FAR],
                       "hits": CHAIN_HITS3[:3] if not wide else CHAIN_HITS3[:4], "rulesets": ORD_DIAMOND,
                       "leads": [0], "tails": [3], "cuts": -2, "sel": "perm"},
        "ord2": {"lens": (3, 4), "gaps": gaps + [C1 - 1, 14] if not wide else gaps + [C1 + 1, C2 + 1, 14],
                 "hits": [("a", "b"), ("ab", "c")],
                 "rulesets": ORD_RULESETS, "leads": [0, 3], "tails": [0, 6], "cuts": -1 if not wide else 0},
    }


def ring_bases(fam: Dict[str, Any]) -> Iterator[Dict[str, Any]]:
    """ one base record per ring layout of the family (origin at the start of gene 0) """
    if fam.get("explicit") == "exons":
        yield from exon_ring_bases(fam.get("wide", False))
        return
    lens = fam["lens"]
    count = len(lens)
    serial = 0
    for gaps in itertools.product(*([fam["gaps"]] * count)):
        laid = chk.ring_layout(lens, gaps)
        if laid is None:
            continue
        length, spans = laid
        serial += 1
        for hits in fam["hits"]:
            for rules in fam["rulesets"]:
                case = chk.make_case(length, True, spans, chk.strands_for(count, serial), hits, rules)
                case["genes"] = [[s % length, s % length + (e - s), st] for s, e, st in case["genes"]]
                if chk.valid_case(case):
                    yield case


PARTS = {"rot-exon": 2, "ordsup2": 3, "rot-tiny2": 1, "rot-nbh3": 8, "rot-chain3": 8, "rot-pair3": 12, "rot-sup3": 10, "rot-ext3": 8, "rot-cond3": 10, "rot-chain4": 10,
         "ord3": 10, "ord2": 2, "ordchain2": 3, "ordchain3": 4, "orddiamond": 4}


def shards(tier: str, seed: int) -> list:
    out = []
    scale = 1 if tier == "quick" else 3
    for name in rotation_families(tier):
        parts = PARTS[name] * scale
        out.extend({"kind": "rotation", "fam": name, "part": p, "of": parts} for p in range(parts))
    for name in order_families(tier):
        parts = PARTS[name] * scale
        out.extend({"kind": "order", "fam": name, "part": p, "of": parts} for p in range(parts))
    if tier != "quick":
        out.extend({"kind": "random", "part": p} for p in range(16))
    return out


# ----------------------------------------------------------------------------------------------
#  signatures of a run
# ----------------------------------------------------------------------------------------------

def signature(case: Dict[str, Any], obs: model.Observed) -> Dict[str, Any]:
    """ what a run reports, by gene: rule hits, protoclusters, candidate clusters, regions """
    geo = chk.Geometry(case)
    genes = range(len(case["genes"]))
    return {
        "hits": sorted((rule, gene, tuple(sorted(profiles))) for (rule, gene), profiles in obs.rule_domains.items()),
        "protoclusters": sorted((p["rule"], tuple(i for i in genes if geo.bases[i] <= p["core"]),
                                 tuple(sorted(p["members"]))) for p in obs.protoclusters),
        "candidates": sorted((c["kind"], tuple(c["protos"]), tuple(sorted(c["members"]))) for c in obs.candidates),
        "regions": sorted((tuple(sorted(r["members"])), tuple(r["products"])) for r in obs.regions),
    }


ROT_CLAUSES = {"hits": "rotation-same-rule-hits", "protoclusters": "rotation-same-protoclusters",
               "candidates": "rotation-same-candidate-clusters", "regions": "rotation-same-regions"}


def pair_label(base: Dict[str, Any], other: Dict[str, Any], only: Sequence[str] = ()) -> str:
    """ the first known input class that the base or the re-indexed / re-ordered case touches """
    names = known.case_mechanisms(base) + known.case_mechanisms(other)
    for name in known.CASE_PRIORITY:
        if name in names and (not only or name in only):
            return f"[{name}]"
    return ""


ORDER_DEPENDENT = ("no-order-dependent-class-is-known",)


def crash_label(sub: Dict[str, Any]) -> str:
    """ the input class of C03's no-unexpected-exception clause that the ruleset + record lies in """
    labelled = known.label("no-unexpected-exception", known.Context(sub), {})
    return "[crash:" + labelled.split("[", 1)[1] if "[" in labelled else ""


def compare_rotation(base: Dict[str, Any], base_obs: model.Observed, cut: int
                     ) -> List[Tuple[str, bool, str]]:
    """ the clauses of the rotation half of C07 for one rotation of one base record """
    turned = chk.rotate_case(base, cut)
    obs = model.observe(turned, downstream=True)
    suffix = pair_label(base, turned)
    out = []
    crashed = [o.error for o in (base_obs, obs) if o.error]
    # a crash of both runs is the same outcome twice (property C03 reports the crash itself)
    out.append(("rotation-no-exception" + suffix, len(crashed) != 1,
                f"only one of the two runs fails: base: {base_obs.error}; origin at {cut}: {obs.error}"))
    if crashed:
        return out
    first, second = signature(base, base_obs), signature(turned, obs)
    for key, clause in ROT_CLAUSES.items():
        same = first[key] == second[key]
        out.append((clause + suffix, same,
                    "" if same else f"origin moved to base {cut}: {key} {first[key]} became {second[key]}"))
    return out


def rotation_nontrivial(base: Dict[str, Any], areas: Sequence[Any], cut: int) -> bool:
    """ the new origin falls inside a gene or inside an expected core / neighbourhood """
    length = base["L"]
    if any(cut in model.gene_bases(g, length) and cut != g[0] % length for g in base["genes"]):
        return True
    return any(cut in bases and (cut - 1) % length in bases for _, _, bases in areas)


def ordered_selections(rules: Sequence[Dict[str, Any]], mode: str = "all") -> List[List[Dict[str, Any]]]:
    """ mode "all": every permutation of every non-empty subset; mode "perm" (rulesets of 4 rules): every
        permutation of the full set, and every proper non-empty subset once, in listing order """
    out = []
    for size in range(1, len(rules) + 1):
        if mode == "perm" and size < len(rules):
            out.extend(list(subset) for subset in itertools.combinations(rules, size))
            continue
        for subset in itertools.permutations(rules, size):
            out.append(list(subset))
    return out


def rule_view(case: Dict[str, Any], obs: model.Observed, name: str) -> Tuple[Any, Any]:
    """ what a run says about one rule: its hits and its protoclusters (exact coordinates) """
    hits = sorted((gene, tuple(sorted(profiles))) for (rule, gene), profiles in obs.rule_domains.items()
                  if rule == name)
    protos = sorted((tuple(map(tuple, p["core_parts"])), tuple(map(tuple, p["loc_parts"])))
                    for p in obs.protoclusters if p["rule"] == name)
    return hits, protos


def compare_orders(case: Dict[str, Any]) -> List[Tuple[str, bool, str, Dict[str, Any]]]:
    """ the clauses of the rule-order half of C07 for one record and ruleset: every ordered
        sub-selection is run. Per rule: runs over the same set of rules must agree whatever the order
        (order-independent); the first run of every set must agree with the first run in which the
        same SUPERIORS of that rule are present (subset-independent).
        Returns (clause, holds, detail, where) with where = the rule and the two orderings compared. """
    rules = case["rules"]
    runs = []
    for selection in ordered_selections(rules, case.get("sel", "all")):
        names = [r["n"] for r in selection]
        runs.append((names, dict(case, rules=selection), model.observe(case, rules=selection)))
    out = []

    def compare(clause: str, name: str, ref: Any, new: Any) -> None:
        (ref_names, ref_sub, ref_obs), (names, sub, obs) = ref, new
        suffix = pair_label(ref_sub, sub, ORDER_DEPENDENT) if case["circ"] else ""
        where = {"rule": name, "first": ref_names, "second": names}
        crashed = [o.error for o in (ref_obs, obs) if o.error]
        if len(crashed) == 1:
            # one ruleset makes the detection fail as a whole: label by the crash class of C03, if any
            suffix = crash_label(ref_sub if ref_obs.error else sub)
        # a crash of both runs is the same outcome twice (property C03 reports the crash itself)
        out.append(("order-no-exception" + suffix, len(crashed) != 1,
                    f"only one of the two runs fails: {ref_names}: {ref_obs.error}; {names}: {obs.error}", where))
        if crashed:
            return
        one, two = rule_view(case, ref_obs, name), rule_view(case, obs, name)
        out.append((clause + suffix, one == two,
                    "" if one == two else f"rule {name}: with rules {ref_names}: {one}; with rules {names}: {two}",
                    where))

    # a superior can only explain a difference if one of its (expected) protoclusters touches one of the rule's
    areas = chk.expected_areas(case)

    def touches(superior: str, inferior: str) -> bool:
        return any(mine[2] & theirs[2] for mine in areas if mine[0] == inferior
                   for theirs in areas if theirs[0] == superior)

    for rule in rules:
        name = rule["n"]
        by_set: Dict[Any, Any] = {}
        by_superiors: Dict[Any, Any] = {}
        for entry in runs:
            names = entry[0]
            if name not in names:
                continue
            key = frozenset(names)
            if key in by_set:
                compare("order-independent", name, by_set[key], entry)
                continue
            by_set[key] = entry
            present = frozenset(s for s in rule.get("sup") or [] if s in names and touches(s, name))
            if present in by_superiors:
                compare("subset-independent", name, by_superiors[present], entry)
            else:
                by_superiors[present] = entry
    return out


def order_nontrivial(case: Dict[str, Any]) -> bool:
    rules = case["rules"]
    return len({r["cut"] for r in rules}) > 1 or any(r.get("sup") for r in rules)


# ----------------------------------------------------------------------------------------------
#  driver interface
# ----------------------------------------------------------------------------------------------

def _rotation_base(base: Dict[str, Any], run: Any, cuts: Optional[Sequence[int]] = None) -> None:
    try:
        if not chk.regions_below_half(base):
            return
        areas = chk.expected_areas(base)
    except Exception as err:  # pylint: disable=broad-except
        run.error(f"harness failure on {base!r}: {type(err).__name__}: {err}")
        return
    base_obs = model.observe(base, downstream=True)
    for cut in (cuts if cuts is not None else range(1, base["L"])):
        stored = {"kind": "rotation", "base": base, "cut": cut}
        try:
            results = compare_rotation(base, base_obs, cut)
            nontrivial = rotation_nontrivial(base, areas, cut)
        except Exception as err:  # pylint: disable=broad-except
            run.error(f"harness failure on {stored!r}: {type(err).__name__}: {err}")
            continue
        for clause, holds, detail in results:
            run.check(clause, holds, stored, nontrivial=nontrivial, detail=detail, key=stored)
        if run.out_of_time():
            return


def _order_case(case: Dict[str, Any], run: Any) -> None:
    try:
        results = compare_orders(case)
    except Exception as err:  # pylint: disable=broad-except
        run.error(f"harness failure on {case!r}: {type(err).__name__}: {err}")
        return
    nontrivial = order_nontrivial(case)
    for clause, holds, detail, where in results:
        stored = {"kind": "order", "base": case}
        if not holds:
            stored["at"] = where
        run.check(clause, holds, stored, nontrivial=nontrivial, detail=detail,
                  key={"base": case, "first": where["first"], "second": where["second"], "rule": where["rule"]})


def run_shard(shard: Dict[str, Any], run: Any) -> None:
    if shard["kind"] == "rotation":
        fam = rotation_families(run.tier)[shard["fam"]]
        for index, base in enumerate(ring_bases(fam)):
            if index % shard["of"] == shard["part"]:
                _rotation_base(base, run)
                if run.out_of_time():
                    return
        return
    if shard["kind"] == "order":
        fam = order_families(run.tier)[shard["fam"]]
        for index, case in enumerate(chk.family_cases(fam)):
            if index % shard["of"] == shard["part"]:
                if fam.get("sel"):
                    case["sel"] = fam["sel"]
                _order_case(case, run)
                if run.out_of_time():
                    return
        return
    done = 0
    while done < RANDOM_PER_SHARD and not run.out_of_time():
        case = C03.random_case(run.rng)
        if not case or len(case["rules"]) > 3:
            continue
        done += 1
        if case["circ"] and run.rng.random() < 0.6:
            cuts = sorted(run.rng.sample(range(1, case["L"]), min(6, case["L"] - 1)))
            _rotation_base(case, run, cuts)
        else:
            _order_case(case, run)


def replay(case: Dict[str, Any]) -> List[str]:
    """ re-run one stored comparison (a rotation of a base record, or all orderings of a ruleset) """
    base = case["base"]
    if case.get("kind") == "rotation":
        if not chk.regions_below_half(base):
            return []
        base_obs = model.observe(base, downstream=True)
        return [f"{clause}: {detail}" for clause, holds, detail in compare_rotation(base, base_obs, case["cut"])
                if not holds]
    return [f"{clause}: {detail}" for clause, holds, detail, _ in compare_orders(base) if not holds]


# ----------------------------------------------------------------------------------------------
#  known findings: the comparison touches a known input class of C03 (see _c03_known.py)
# ----------------------------------------------------------------------------------------------

ROOTS = {
    # C07-F1, F2, F3 (stale cutoff cache, whole-record window, envelope distance) were repaired in /repo:
    # their witnesses stay in known_findings.json as regression tests, no input class is attached any more
    # C07-F4, F5 (faces of C03-F4, F9) were repaired in /repo as well
    "C07-F12": "lookup-scan-loses-neighbour",
    "C07-F6": "gene-at-0-with-origin-spanning-gene",
    "C07-F7": "superior-overlaps-over-origin",
    "C07-F8": "merged-cores-with-extenders",
    # C07-F9 (face of C03-F10) was repaired in /repo
}


def _classifier(suffix: str) -> Any:
    def predicate(clause: str, case: Any) -> bool:
        if not clause.endswith(f"[{suffix}]") or not isinstance(case, dict) or "base" not in case:
            return False
        base = case["base"]
        if case.get("kind") == "rotation":
            return pair_label(base, chk.rotate_case(base, case["cut"])) == f"[{suffix}]"
        where = case.get("at") or {}
        by_name = {r["n"]: r for r in base["rules"]}
        first = dict(base, rules=[by_name[n] for n in where.get("first", [])])
        second = dict(base, rules=[by_name[n] for n in where.get("second", [])])
        return bool(base["circ"]) and pair_label(first, second, ORDER_DEPENDENT) == f"[{suffix}]"
    return predicate


def _crash_classifier(clause: str, case: Any) -> bool:
    """ C07-F10: one of the two compared rulesets lies in a crash class of C03 """
    if not clause.startswith("order-no-exception[crash:") or not isinstance(case, dict) or "base" not in case:
        return False
    base = case["base"]
    where = case.get("at") or {}
    by_name = {r["n"]: r for r in base["rules"]}
    wanted = clause[len("order-no-exception"):]
    for key in ("first", "second"):
        sub = dict(base, rules=[by_name[n] for n in where.get(key, [])])
        if sub["rules"] and crash_label(sub) == wanted:
            return True
    return False


FINDING_CLASSES: Dict[str, Any] = {fid: _classifier(suffix) for fid, suffix in ROOTS.items()}
FINDING_CLASSES["C07-F10"] = _crash_classifier
# C07-F13 (extra interleaved candidate) was repaired in /repo as well: no input class any more
# C07-F11 (candidate look-up key) was repaired in /repo: no input class any more, the witness is a regression test
