"""Bounded stand-in for C09 - annotations placed inside a gene cover the nucleotides that encode them.

Genes are generated as exon structures on small records (one to three exons of 1..9 bases, introns,
either strand, a codon_start qualifier, and every way of letting the gene run over the origin of a
circular record). For every gene and every protein range [s,e) the REAL antismash code is asked for
the nucleotide location of that range (Feature.get_sub_location_from_protein_coordinates and its
callers: Prepeptide.to_biopython and its to_biopython -> from_biopython -> to_biopython read-back,
hmmer.build_hits, generate_domain_features / generate_motif_features, TTAResults.new_feature_from_other /
tta.detect) and the answer is compared with an independent model:
transcript base t of a location with parts p0..pn (Biopython order) is the t-th base met when walking
the parts in order, ascending on the forward strand and descending on the reverse strand.

A case is `{"fn": kind, "L", "circ", "gene": [[start,end,strand],...], "cs": codon_start (0 = no
qualifier), "seed", ...}`; `replay(case)` rebuilds record, sequence and gene from it.
"""
from __future__ import annotations

import itertools
from types import SimpleNamespace
from typing import Any, Callable, Iterator, Optional

RULE = (
    "Genes = every tuple of exon sizes (1 exon: 3..9 bases; 2 exons: 1..9 x 1..9; 3 exons: {1,2,3,4,6}^3 "
    "quick / 1..9^3 thorough; total >= 3), introns of 0, 1, 2 or 4 bases fixed by a formula of the sizes (a "
    "second intron layout for two extra placements), both strands, placed (a) not spanning the origin: at "
    "position 0, in the middle, ending at the record end, filling the whole record (linear records) and in the "
    "middle of a circular record; (b) spanning the origin of a circular record with 3 spare bases (thorough also "
    "0 and 1): origin 1, 2, 3 bases into each exon, 1 base before its end, exactly at its end, inside the intron, "
    "exactly at the next exon start. codon_start absent/1 alternating on all genes; 2 and 3 on four non-spanning "
    "and up to three origin-spanning placements (first exon longer than the shift). Per gene: construction "
    "through CDSFeature.from_biopython on a real Record, every protein range 0 <= s < e <= len//3 "
    "(get_sub_location_from_protein_coordinates, convert_protein_position_to_dna), every codon as TTA marker, "
    "tta.detect on a sequence with TTA planted at every 2nd/3rd codon; on every third gene every "
    "leader|core|tail split (Prepeptide.to_biopython; then the read-back history: Prepeptide.from_biopython of "
    "the core feature and to_biopython again, judged against the original gene), on another third every range through hmmer.build_hits, "
    "generate_domain_features and generate_motif_features. Sequence = ATG + pseudo-random sense codons "
    "(neighbouring codons differ in amino acid) laid along the gene, random filler elsewhere. Thorough adds "
    "run.rng-seeded genes with 1..5 exons of 1..40 bases on records up to ~400 bases. Trivial = single forward "
    "exon without codon_start shift; distinct = distinct (gene, placement, codon_start, range/codon, caller)."
)
EXHAUSTIVE = {"quick": True, "thorough": False}

Spec = list   # [[start, end, strand], ...] in Biopython part order

_COMPLEMENT = {"A": "T", "C": "G", "G": "C", "T": "A"}
_STOPS = {"TAA", "TAG", "TGA"}


# ------------------------------------------------------------------------------------------------
# model
# ------------------------------------------------------------------------------------------------

def _walk(parts: Spec) -> list[int]:
    """Genome coordinates of the transcript bases of a location, in transcript order."""
    out: list[int] = []
    for start, end, strand in parts:
        if strand == -1:
            out.extend(range(end - 1, start - 1, -1))
        else:
            out.extend(range(start, end))
    return out


def _loc_parts(location: Any) -> Spec:
    return [[int(p.start), int(p.end), p.strand] for p in location.parts]


def _shifted(gene: Spec, codon_start: int) -> Optional[Spec]:
    """The gene location after the codon_start adjustment: only the 5' end moves, by codon_start - 1."""
    shift = max(codon_start, 1) - 1
    if not shift:
        return [list(p) for p in gene]
    start, end, strand = gene[0]
    if end - start <= shift:
        return None
    first = [start, end - shift, strand] if strand == -1 else [start + shift, end, strand]
    return [first] + [list(p) for p in gene[1:]]


def _spans_origin(gene: Spec) -> bool:
    forward = list(reversed(gene)) if gene[0][2] == -1 else gene
    return any(forward[i][0] < forward[i - 1][0] for i in range(1, len(forward)))


def _inside(parts: Spec, gene: Spec) -> bool:
    """Every base of `parts` is a base of the gene (touching exons of the gene count as one stretch)."""
    stretches: list[list[int]] = []
    for start, end in sorted((g[0], g[1]) for g in gene):
        if stretches and start <= stretches[-1][1]:
            stretches[-1][1] = max(stretches[-1][1], end)
        else:
            stretches.append([start, end])
    return all(any(low <= p[0] and p[1] <= high for low, high in stretches) for p in parts)


class _Lcg:
    """Tiny deterministic generator (replay must rebuild the same sequence from the seed in the case)."""

    def __init__(self, seed: int) -> None:
        self.state = (seed * 2654435761 + 12345) % (1 << 32)

    def below(self, bound: int) -> int:
        self.state = (self.state * 1664525 + 1013904223) % (1 << 32)
        return (self.state >> 8) % bound


_CODONS: list[tuple[str, str]] = []


def _sense_codons() -> list[tuple[str, str]]:
    if not _CODONS:
        from Bio.Data import CodonTable
        table = CodonTable.unambiguous_dna_by_id[1].forward_table
        for codon in ("".join(c) for c in itertools.product("ACGT", repeat=3)):
            if codon in _STOPS or codon == "TTA":
                continue
            _CODONS.append((codon, table[codon]))
    return _CODONS


def _transcript(length: int, seed: int, tta_every: int) -> str:
    """ATG + sense codons, neighbours differing in amino acid; TTA planted at every `tta_every`-th codon
    (0 = never); a trailing partial codon is filled with sense bases."""
    codons = _sense_codons()
    rng = _Lcg(seed)
    out = ["ATG"]
    previous = "M"
    index = 1
    while 3 * len(out) < length + 3:
        if tta_every and index % tta_every == 0:
            out.append("TTA")
            previous = "L"
        else:
            while True:
                codon, amino = codons[rng.below(len(codons))]
                if amino != previous:
                    break
            out.append(codon)
            previous = amino
        index += 1
    return "".join(out)[:length]


def _sequence(length: int, gene: Spec, codon_start: int, seed: int, tta_every: int = 0) -> tuple[str, str]:
    """(record sequence, transcript of the coding part) for a gene whose raw location starts with
    codon_start-1 bases before the reading frame."""
    rng = _Lcg(seed + 977)
    bases = ["ACGT"[rng.below(4)] for _ in range(length)]
    walk = _walk(gene)
    shift = max(codon_start, 1) - 1
    coding = _transcript(len(walk) - shift, seed, tta_every)
    text = "".join("ACGT"[rng.below(4)] for _ in range(shift)) + coding
    strand = gene[0][2]
    for position, base in zip(walk, text):
        bases[position] = _COMPLEMENT[base] if strand == -1 else base
    return "".join(bases), coding


def _translate(coding: str) -> str:
    from Bio.Seq import Seq
    usable = coding[:len(coding) - len(coding) % 3]
    return str(Seq(usable).translate())


# ------------------------------------------------------------------------------------------------
# real objects
# ------------------------------------------------------------------------------------------------

def _mk(spec: Spec) -> Any:
    from antismash.common.secmet.locations import CompoundLocation, FeatureLocation
    parts = [FeatureLocation(p[0], p[1], p[2]) for p in spec]
    return parts[0] if len(parts) == 1 else CompoundLocation(parts)


def _guard(call: Callable[[], Any]) -> tuple[bool, Any]:
    try:
        return True, call()
    except BaseException as err:  # pylint: disable=broad-except
        if isinstance(err, (KeyboardInterrupt, SystemExit, MemoryError)):
            raise
        return False, f"{type(err).__name__}: {str(err)[:200]}"


class _Context:
    """Record + CDS feature of one gene, built through the real constructors."""

    def __init__(self, case: dict) -> None:
        from Bio.Seq import Seq
        from Bio.SeqFeature import SeqFeature
        from antismash.common.secmet import Record
        from antismash.common.secmet.features import CDSFeature
        self.length, self.circular = case["L"], case["circ"]
        self.gene: Spec = case["gene"]
        self.codon_start: int = case.get("cs", 0)
        self.seed: int = case.get("seed", 1)
        self.key = _gene_key(case)
        self.effective = _shifted(self.gene, self.codon_start)
        assert self.effective is not None, "generator must keep the first exon longer than the frame shift"
        self.walk = _walk(self.effective)
        self.residues = len(self.walk) // 3
        self.sequence, self.coding = _sequence(self.length, self.gene, self.codon_start, self.seed,
                                               case.get("tta", 0))
        self.translation = _translate(self.coding)
        self.record = Record(Seq(self.sequence))
        if self.circular:
            self.record.add_annotation("topology", "circular")
        qualifiers = {"locus_tag": ["gene1"]}
        if self.codon_start:
            qualifiers["codon_start"] = [str(self.codon_start)]
        bio = SeqFeature(_mk(self.gene), type="CDS", qualifiers=qualifiers)
        self.problem = ""
        self.cds: Any = None
        okc, got = _guard(lambda: CDSFeature.from_biopython(bio, record=self.record))
        if not okc:
            self.problem = f"CDSFeature.from_biopython raised {got}"
            return
        self.cds = got
        okc, got = _guard(lambda: self.record.add_cds_feature(self.cds))
        if not okc:
            self.problem = f"Record.add_cds_feature raised {got}"

    def nontrivial(self) -> bool:
        return len(self.gene) > 1 or self.gene[0][2] == -1 or self.codon_start > 1


def _gene_key(case: dict) -> tuple:
    return (case["L"], case["circ"], repr(case["gene"]), case.get("cs", 0), case.get("seed", 1), case.get("tta", 0))


_LAST: list = [None]


def _context(case: dict) -> _Context:
    key = _gene_key(case)
    if _LAST[0] is None or _LAST[0].key != key:
        _LAST[0] = _Context(case)
    return _LAST[0]


# ------------------------------------------------------------------------------------------------
# the four demands of the statement on one nucleotide location
# ------------------------------------------------------------------------------------------------

Outcome = list   # of (clause, ok, nontrivial, detail)


def _quiet_translate(location: Any, sequence: Any) -> str:
    """extract + translate through the real library, without Biopython's partial-codon warning on stderr
    (the warning filters must not be touched globally: antismash asserts on a warning at import time)."""
    import warnings
    with warnings.catch_warnings():
        warnings.simplefilter("ignore")
        return str(location.extract(sequence).translate())


def _judge(source: str, location: Any, ctx: _Context, start: int, end: int, want_protein: str,
           nontrivial: bool) -> Outcome:
    """location must: lie inside the gene, have three bases per residue, extract+translate (real library) to
    the protein stretch, and be exactly the encoding bases in transcript order."""
    parts = _loc_parts(location)
    text = f"{source} {location} for residues [{start}:{end}) of {ctx.cds.location}"
    out: Outcome = []
    gene_now = _loc_parts(ctx.cds.location)
    out.append((f"{source}-inside-gene", _inside(parts, gene_now), nontrivial, text))
    out.append((f"{source}-three-bases-per-residue", len(location) == 3 * (end - start), nontrivial,
                f"{text}: {len(location)} bases for {end - start} residues"))
    okc, protein = _guard(lambda: _quiet_translate(location, ctx.record.seq))
    out.append((f"{source}-translates-to-translation-slice", okc and protein == want_protein, nontrivial,
                f"{text}: extract+translate gives {protein!r}, the gene's translation there is {want_protein!r}"))
    want_walk = ctx.walk[3 * start:3 * end]
    out.append((f"{source}-is-exactly-the-encoding-bases-in-order", _walk(parts) == want_walk, nontrivial,
                f"{text}: covers {_walk(parts)}, encoding bases are {want_walk}"))
    return out


def _eval_gene(case: dict) -> Outcome:
    """gene-level: construction, translation, codon_start undo."""
    ctx = _context(case)
    nontrivial = ctx.nontrivial()
    if ctx.problem:
        return [("gene-builds-without-exception", False, nontrivial, ctx.problem)]
    out: Outcome = [("gene-builds-without-exception", True, nontrivial, "")]
    out.append(("gene-location-adjusted-by-codon-start-at-5-prime-end-only",
                _loc_parts(ctx.cds.location) == ctx.effective, nontrivial,
                f"location {ctx.cds.location}, expected parts {ctx.effective} (codon_start {ctx.codon_start})"))
    out.append(("gene-translation-is-translation-of-its-coding-bases", ctx.cds.translation == ctx.translation,
                nontrivial, f"translation {ctx.cds.translation!r}, coding bases translate to {ctx.translation!r}"))
    okc, bios = _guard(ctx.cds.to_biopython)
    if not okc:
        out.append(("gene-codon-start-undo-restores-location", False, nontrivial, str(bios)))
    else:
        out.append(("gene-codon-start-undo-restores-location", _loc_parts(bios[0].location) == ctx.gene, nontrivial,
                    f"to_biopython location {bios[0].location}, original parts {ctx.gene}"))
    return out


def _eval_sub(case: dict) -> Outcome:
    from antismash.common.secmet.locations import convert_protein_position_to_dna
    ctx = _context(case)
    nontrivial = ctx.nontrivial()
    if ctx.problem:
        return [("gene-builds-without-exception", False, nontrivial, ctx.problem)]
    start, end = case["s"], case["e"]
    okc, got = _guard(lambda: ctx.cds.get_sub_location_from_protein_coordinates(start, end))
    if not okc:
        out: Outcome = [("sub-location-no-unexpected-exception", False, nontrivial,
                         f"residues [{start}:{end}) of {ctx.cds.location}: {got}")]
    else:
        out = [("sub-location-no-unexpected-exception", True, nontrivial, "")]
        out.extend(_judge("sub-location", got, ctx, start, end, ctx.cds.translation[start:end], nontrivial))
    if not _spans_origin(ctx.effective):
        want_walk = ctx.walk[3 * start:3 * end]
        want = (min(want_walk), max(want_walk) + 1)
        okc, pair = _guard(lambda: convert_protein_position_to_dna(start, end, ctx.cds.location))
        out.append(("convert-gives-envelope-of-encoding-bases", okc and tuple(pair) == want, nontrivial,
                    f"convert_protein_position_to_dna({start}, {end}, {ctx.cds.location}) gave {pair}, "
                    f"expected {want}"))
    return out


def _eval_prepeptide(case: dict) -> Outcome:
    """leader = residues [0,s), core = [s,e), tail = [e,n)."""
    from antismash.common.secmet.features import Prepeptide
    from antismash.common.secmet.locations import location_from_string
    ctx = _context(case)
    nontrivial = ctx.nontrivial()
    if ctx.problem:
        return [("gene-builds-without-exception", False, nontrivial, ctx.problem)]
    start, end, total = case["s"], case["e"], ctx.residues
    protein = ctx.cds.translation
    okc, features = _guard(lambda: Prepeptide(ctx.cds.location, "lanthipeptide", protein[start:end], "gene1", "test",
                                              leader=protein[:start], tail=protein[end:]).to_biopython())
    if not okc:
        return [("prepeptide-no-unexpected-exception", False, nontrivial,
                 f"leader/core/tail [0:{start}) [{start}:{end}) [{end}:{total}) of {ctx.cds.location}: {features}")]
    out: Outcome = [("prepeptide-no-unexpected-exception", True, nontrivial, "")]
    expected = []
    if start:
        expected.append(("leader", 0, start))
    expected.append(("core", start, end))
    if end < total:
        expected.append(("tail", end, total))
    kinds = [f.qualifiers.get("prepeptide", ["?"])[0] for f in features]
    if kinds != [name for name, _, _ in expected]:
        return out + [("prepeptide-emits-leader-core-tail", False, nontrivial, f"features {kinds}, expected {expected}")]
    merged: dict[str, list] = {}
    for feature, (name, low, high) in zip(features, expected):
        for clause, ok, _, detail in _judge("prepeptide-part", feature.location, ctx, low, high, protein[low:high],
                                            nontrivial):
            slot = merged.setdefault(clause, [True, ""])
            if not ok and slot[0]:
                slot[0], slot[1] = False, f"{name}: {detail}"
    out.extend((clause, ok, nontrivial, detail) for clause, (ok, detail) in merged.items())
    core = features[kinds.index("core")]
    texts_ok, detail = True, ""
    for name, low, high in expected:
        if name == "core":
            continue
        raw = core.qualifiers.get(f"{name}_location", [""])[0]
        okc, parsed = _guard(lambda r=raw: location_from_string(r))
        if not okc or _walk(_loc_parts(parsed)) != ctx.walk[3 * low:3 * high]:
            texts_ok, detail = False, f"{name}_location qualifier {raw!r} does not give bases {ctx.walk[3 * low:3 * high]}"
    out.append(("prepeptide-location-qualifiers-are-the-encoding-bases", texts_ok, nontrivial, detail))
    out.extend(_read_back(core, expected, ctx, protein, nontrivial))
    return out


def _read_back(core: Any, expected: list, ctx: _Context, protein: str, nontrivial: bool) -> Outcome:
    """The history of a precursor peptide in a saved antiSMASH result: only the core feature (with the leader
    and tail locations as qualifiers) is read back by Prepeptide.from_biopython, which rebuilds the gene
    location from the pieces; the rebuilt annotation and the leader/core/tail it writes out next must still
    cover the nucleotides that encode them in the ORIGINAL gene."""
    from antismash.common.secmet.features import Prepeptide
    total = expected[-1][2]
    pieces = f"leader/core/tail {[(n, lo, hi) for n, lo, hi in expected]} of {ctx.cds.location}"
    okc, rebuilt = _guard(lambda: Prepeptide.from_biopython(core))
    if not okc:
        return [("prepeptide-read-back-no-unexpected-exception", False, nontrivial,
                 f"from_biopython(core) for {pieces}: {rebuilt}")]
    out: Outcome = []
    kept = (rebuilt.leader, rebuilt.core, rebuilt.tail) == tuple(
        "".join(protein[lo:hi] for n, lo, hi in expected if n == name) for name in ("leader", "core", "tail"))
    out.append(("prepeptide-read-back-keeps-leader-core-tail", kept, nontrivial,
                f"read back {rebuilt.leader!r}/{rebuilt.core!r}/{rebuilt.tail!r} for {pieces}"))
    out.extend(_judge("prepeptide-read-back-location", rebuilt.location, ctx, 0, total, protein[:total], nontrivial))
    okc, features = _guard(rebuilt.to_biopython)
    if not okc:
        out.append(("prepeptide-read-back-no-unexpected-exception", False, nontrivial,
                    f"to_biopython of the prepeptide read back at {rebuilt.location} for {pieces}: {features}"))
        return out
    out.append(("prepeptide-read-back-no-unexpected-exception", True, nontrivial, ""))
    kinds = [f.qualifiers.get("prepeptide", ["?"])[0] for f in features]
    if kinds != [name for name, _, _ in expected]:
        out.append(("prepeptide-read-back-emits-leader-core-tail", False, nontrivial,
                    f"features {kinds}, expected {expected}"))
        return out
    merged: dict[str, list] = {}
    for feature, (name, low, high) in zip(features, expected):
        for clause, ok, _, detail in _judge("prepeptide-read-back-part", feature.location, ctx, low, high,
                                            protein[low:high], nontrivial):
            slot = merged.setdefault(clause, [True, ""])
            if not ok and slot[0]:
                slot[0], slot[1] = False, f"{name}: {detail}"
    out.extend((clause, ok, nontrivial, detail) for clause, (ok, detail) in merged.items())
    return out


def _eval_callers(case: dict) -> Outcome:
    """hmmer.build_hits, generate_domain_features, generate_motif_features for the range [s,e)."""
    from antismash.common import hmmer, pfamdb
    from antismash.common.hmmscan_refinement import HMMResult
    from antismash.common.secmet.locations import location_from_string
    from antismash.detection.nrps_pks_domains import domain_identification
    ctx = _context(case)
    nontrivial = ctx.nontrivial()
    if ctx.problem:
        return [("gene-builds-without-exception", False, nontrivial, ctx.problem)]
    start, end = case["s"], case["e"]
    protein = ctx.cds.translation
    out: Outcome = []
    pfamdb.KNOWN_MAPPINGS.setdefault("c09-bounded-db", {"PF_test": "PF00001"})
    hsp = SimpleNamespace(bitscore=50.0, evalue=1e-9, query_id="gene1", query_start=start, query_end=end,
                          hit_id="PF_test", hit_description="test")
    okc, hits = _guard(lambda: hmmer.build_hits(ctx.record, [SimpleNamespace(id="label", hsps=[hsp])],
                                                1.0, 1e-3, "c09-bounded-db"))
    if not okc or len(hits) != 1:
        out.append(("hmmer-hit-no-unexpected-exception", False, nontrivial, f"range [{start}:{end}): {hits}"))
    else:
        hit = hits[0]
        out.append(("hmmer-hit-keeps-range-and-translation",
                    (hit.protein_start, hit.protein_end, hit.translation) == (start, end, protein[start:end]),
                    nontrivial, f"{hit}"))
        out.extend(_judge("hmmer-hit", location_from_string(hit.location), ctx, start, end, protein[start:end],
                          nontrivial))
    result = HMMResult("PKS_KS", start, end, 1e-9, 50.0)
    okc, domains = _guard(lambda: domain_identification.generate_domain_features(ctx.cds, [result]))
    if not okc:
        out.append(("nrps-pks-domain-no-unexpected-exception", False, nontrivial, f"range [{start}:{end}): {domains}"))
    else:
        domain = domains[result]
        out.append(("nrps-pks-domain-keeps-range-and-translation",
                    (int(domain.protein_location.start), int(domain.protein_location.end), domain.translation)
                    == (start, end, protein[start:end]), nontrivial,
                    f"{domain.protein_location} {domain.translation!r}"))
        out.extend(_judge("nrps-pks-domain", domain.location, ctx, start, end, protein[start:end], nontrivial))
    okc, motifs = _guard(lambda: domain_identification.generate_motif_features(ctx.cds, [result]))
    if not okc or len(motifs) != 1:
        out.append(("nrps-pks-motif-no-unexpected-exception", False, nontrivial, f"range [{start}:{end}): {motifs}"))
    else:
        motif = motifs[0]
        out.append(("nrps-pks-motif-keeps-range-and-translation",
                    (int(motif.protein_location.start), int(motif.protein_location.end), motif.translation)
                    == (start, end, protein[start:end]), nontrivial,
                    f"{motif.protein_location} {motif.translation!r}"))
        out.extend(_judge("nrps-pks-motif", motif.location, ctx, start, end, protein[start:end], nontrivial))
    return out


def _eval_tta(case: dict) -> Outcome:
    """marked codon: TTAResults.new_feature_from_other(feature, 3*i) for codon i = case['codon']."""
    from antismash.modules.tta.tta import TTAResults
    ctx = _context(case)
    nontrivial = ctx.nontrivial()
    if ctx.problem:
        return [("gene-builds-without-exception", False, nontrivial, ctx.problem)]
    codon = case["codon"]
    results = TTAResults("record", 0.7, 0.65)
    okc, marker = _guard(lambda: results.new_feature_from_other(ctx.cds, 3 * codon))
    if not okc:
        return [("tta-marker-no-unexpected-exception", False, nontrivial,
                 f"codon {codon} of {ctx.cds.location}: {marker}")]
    out: Outcome = [("tta-marker-no-unexpected-exception", True, nontrivial, "")]
    out.extend(_judge("tta-marker", marker.location, ctx, codon, codon + 1, ctx.cds.translation[codon:codon + 1],
                      nontrivial))
    return out


def _eval_detect(case: dict) -> Outcome:
    """tta.detect on a record whose gene carries planted TTA codons: exactly those codons are marked."""
    from antismash.common.secmet.features import SubRegion
    from antismash.common.secmet.locations import FeatureLocation
    from antismash.modules.tta import tta
    ctx = _context(case)
    nontrivial = ctx.nontrivial()
    if ctx.problem:
        return [("gene-builds-without-exception", False, nontrivial, ctx.problem)]
    if not ctx.record.get_regions():
        okc, got = _guard(lambda: (ctx.record.add_subregion(SubRegion(FeatureLocation(0, ctx.length), tool="test")),
                                   ctx.record.create_regions()))
        if not okc:
            return [("tta-detect-no-unexpected-exception", False, nontrivial, f"building the region: {got}")]
    if not any(cds is ctx.cds for cds in ctx.record.get_cds_features_within_regions()):
        return []   # region membership of the gene is C08's business, not a demand of this property
    planted = [i for i in range(ctx.residues) if ctx.coding[3 * i:3 * i + 3] == "TTA"]
    okc, results = _guard(lambda: tta.detect(ctx.record, SimpleNamespace(tta_threshold=0.0)))
    if not okc:
        return [("tta-detect-no-unexpected-exception", False, nontrivial, str(results))]
    out: Outcome = [("tta-detect-no-unexpected-exception", True, nontrivial, "")]
    out.append(("tta-detect-one-marker-per-tta-codon", len(results.features) == len(planted), nontrivial,
                f"{len(results.features)} markers for TTA codons {planted} of {ctx.cds.location}"))
    merged: dict[str, list] = {}
    for feature, codon in zip(results.features, planted):
        for clause, ok, _, detail in _judge("tta-detect-marker", feature.location, ctx, codon, codon + 1, "L",
                                            nontrivial):
            slot = merged.setdefault(clause, [True, ""])
            if not ok and slot[0]:
                slot[0], slot[1] = False, f"codon {codon}: {detail}"
    out.extend((clause, ok, nontrivial, detail) for clause, (ok, detail) in merged.items())
    return out


EVALUATORS: dict[str, Callable[[dict], Outcome]] = {
    "gene": _eval_gene,
    "sub": _eval_sub,
    "prepeptide": _eval_prepeptide,
    "callers": _eval_callers,
    "tta": _eval_tta,
    "detect": _eval_detect,
}


def evaluate(case: dict) -> Outcome:
    return EVALUATORS[case["fn"]](case)


def replay(case: dict) -> list[str]:
    import logging
    logging.disable(logging.CRITICAL)
    _LAST[0] = None
    return [f"{_label(clause, case)}: {detail}" for clause, ok, _, detail in evaluate(case) if not ok]


# ------------------------------------------------------------------------------------------------
# known findings on the pinned tree
# ------------------------------------------------------------------------------------------------

_LOCATED = ("sub-location", "prepeptide-part", "prepeptide-read-back-part", "prepeptide-read-back-location",
            "hmmer-hit", "nrps-pks-domain", "nrps-pks-motif")


def _effective_of(case: dict) -> Spec:
    return _shifted(case["gene"], case.get("cs", 0)) or case["gene"]


def _f1_origin_spanning_gene(clause: str, case: dict) -> bool:
    """convert_protein_position_to_dna / get_sub_location sort the exons by start coordinate: wrong transcript
    order for a gene that spans the origin (all callers inherit it)."""
    if case.get("fn") not in ("sub", "prepeptide", "callers"):
        return False
    wrong_place = clause.startswith(_LOCATED) and clause.endswith(
        ("-translates-to-translation-slice", "-is-exactly-the-encoding-bases-in-order"))
    if not (wrong_place or clause == "prepeptide-location-qualifiers-are-the-encoding-bases"):
        return False
    return _spans_origin(_effective_of(case))


def _tta_formula_holds(case: dict, codon: int) -> bool:
    gene = _effective_of(case)
    strand = gene[0][2]
    if len(gene) == 1:
        return True
    if strand == -1:
        edge = max(p[1] for p in gene)
        first_is_edge = gene[0][1] == edge
    else:
        edge = min(p[0] for p in gene)
        first_is_edge = gene[0][0] == edge
    return first_is_edge and 3 * codon + 3 <= gene[0][1] - gene[0][0]


def _f2_tta_multi_exon(clause: str, case: dict) -> bool:
    """TTAResults.new_feature_from_other: location.start + offset (location.end - offset - 3) is only the codon
    when the codon lies wholly inside a first exon that sits at the 5' edge of the envelope."""
    if not (clause.startswith(("tta-marker-", "tta-detect-marker-")) and clause.endswith(
            ("-inside-gene", "-translates-to-translation-slice", "-is-exactly-the-encoding-bases-in-order"))):
        return False
    gene = _effective_of(case)
    if len(gene) < 2:
        return False
    if case.get("fn") == "tta":
        return not _tta_formula_holds(case, case["codon"])
    if case.get("fn") == "detect":
        total = sum(p[1] - p[0] for p in gene) // 3
        every = case.get("tta", 0)
        return any(not _tta_formula_holds(case, i) for i in range(1, total) if every and i % every == 0)
    return False


def _f3_codon_start_origin_spanning(clause: str, case: dict) -> bool:
    """_adjust_location_by_offset asserts parts[0] is at the envelope edge: an origin-spanning gene with
    codon_start 2 or 3 cannot be built."""
    return (clause == "gene-builds-without-exception" and case.get("cs", 0) > 1
            and _spans_origin(case["gene"]))


_RAW_CLASSES: dict[str, Callable[[str, Any], bool]] = {
    "C09-F1": _f1_origin_spanning_gene,
    "C09-F2": _f2_tta_multi_exon,
    "C09-F3": _f3_codon_start_origin_spanning,
}


_DOMAIN_TAG = " [inputs of "


def _label(clause: str, case: dict) -> str:
    """Evaluations on inputs inside the class of a listed finding are reported under their own clause label
    (`<clause> [inputs of Cxx-Fn]`), so that the known failures cannot crowd the driver's per-clause
    failure samples and hide a new violation of the same clause on other inputs. The clause itself is the same
    strict one on both sides."""
    for finding, predicate in _RAW_CLASSES.items():
        if predicate(clause, case):
            return f"{clause}{_DOMAIN_TAG}{finding}]"
    return clause


def _stripped(predicate: Callable[[str, Any], bool]) -> Callable[[str, Any], bool]:
    return lambda clause, case: predicate(clause.split(_DOMAIN_TAG)[0], case)


FINDING_CLASSES: dict[str, Callable[[str, Any], bool]] = {
    finding: _stripped(predicate) for finding, predicate in _RAW_CLASSES.items()
}


# ------------------------------------------------------------------------------------------------
# gene enumeration
# ------------------------------------------------------------------------------------------------

def _intron(left: int, right: int, index: int) -> int:
    return (1, 2, 4, 0)[(3 * left + right + index) % 4]


def _size_tuples(tier: str) -> list[tuple[int, ...]]:
    out: list[tuple[int, ...]] = [(z,) for z in range(3, 10)]
    out += list(itertools.product(range(1, 10), repeat=2))
    three = range(1, 10) if tier != "quick" else (1, 2, 3, 4, 6)
    out += list(itertools.product(three, repeat=3))
    return [t for t in out if sum(t) >= 3]


def _unrolled(sizes: tuple[int, ...], variant: int = 0) -> list[list[int]]:
    parts, cursor = [], 0
    for index, size in enumerate(sizes):
        parts.append([cursor, cursor + size])
        cursor += size
        if index + 1 < len(sizes):
            cursor += _intron(size, sizes[index + 1], index + 2 * variant)
    return parts


def _place(unrolled: list[list[int]], length: int, rotation: int, strand: int) -> Spec:
    """Rotate the unrolled exons by `rotation` on a record of `length`, splitting an exon at the origin."""
    forward: list[list[int]] = []
    for start, end in unrolled:
        low, high = start + rotation, end + rotation
        if low >= length:
            low, high = low - length, high - length
        if high <= length:
            forward.append([low, high])
        else:
            forward.append([low, length])
            forward.append([0, high - length])
    spec = [[s, e, strand] for s, e in forward]
    if strand == -1:
        spec.reverse()
    return spec


def _placements(unrolled: list[list[int]], pads: tuple[int, ...]) -> Iterator[tuple[str, int, bool, int]]:
    """(label, record length, circular, rotation)."""
    span = unrolled[-1][1]
    yield ("at-start", span + 2, False, 0)
    yield ("middle", span + 5, False, 2)
    yield ("at-end", span + 2, False, 2)
    yield ("whole-record", span, False, 0)
    yield ("circular-middle", span + 5, True, 3)
    cuts: list[tuple[str, int]] = []
    for index, (start, end) in enumerate(unrolled):
        for inside in (start + 1, start + 2, start + 3, end - 1):
            if start < inside < end and ("in-exon", inside) not in cuts:
                cuts.append(("in-exon", inside))
        if index + 1 < len(unrolled):
            nxt = unrolled[index + 1][0]
            cuts.append(("at-exon-end", end))
            if nxt - end >= 2:
                cuts.append(("in-intron", end + 1))
            if nxt > end:
                cuts.append(("at-exon-start", nxt))
    for pad in pads:
        length = span + pad
        for label, cut in cuts:
            yield (f"origin-{label}", length, True, length - cut)


def _genes(tier: str, index: int, stride: int) -> Iterator[dict]:
    """All genes of the tier whose size tuple has position = index mod stride."""
    pads = (3,) if tier == "quick" else (3, 0, 1)
    for position, sizes in enumerate(_size_tuples(tier)):
        if position % stride != index:
            continue
        unrolled = _unrolled(sizes)
        options = list(_placements(unrolled, pads))
        if len(sizes) > 1:
            other = _unrolled(sizes, 1)
            options += [("middle-other-introns", other[-1][1] + 4, False, 1),
                        ("circular-other-introns", other[-1][1] + 1, True, 1)]
        for number, (label, length, circular, rotation) in enumerate(options):
            layout = _unrolled(sizes, 1) if label.endswith("other-introns") else unrolled
            for strand in (1, -1):
                gene = _place(layout, length, rotation, strand)
                base = {"L": length, "circ": circular, "gene": gene, "seed": 1 + position * 7 + number}
                yield {**base, "cs": (position + number) % 2}
                extra = label in ("middle", "at-end", "circular-middle", "middle-other-introns") or \
                    (label.startswith("origin") and number in (5, 6, 7))
                if extra:
                    for codon_start in (2, 3):
                        if gene[0][1] - gene[0][0] > codon_start - 1 and \
                                sum(p[1] - p[0] for p in gene) - (codon_start - 1) >= 3:
                            yield {**base, "cs": codon_start}


def _cases_of_gene(gene: dict, ordinal: int) -> Iterator[dict]:
    effective = _shifted(gene["gene"], gene["cs"])
    assert effective is not None
    residues = sum(p[1] - p[0] for p in effective) // 3
    yield {"fn": "gene", **gene}
    for start in range(residues):
        for end in range(start + 1, residues + 1):
            yield {"fn": "sub", **gene, "s": start, "e": end}
    if ordinal % 3 == 0:
        for start in range(residues):
            for end in range(start + 1, residues + 1):
                yield {"fn": "prepeptide", **gene, "s": start, "e": end}
    if ordinal % 3 == 1:
        for start in range(residues):
            for end in range(start + 1, residues + 1):
                yield {"fn": "callers", **gene, "s": start, "e": end}
    for codon in range(residues):
        yield {"fn": "tta", **gene, "codon": codon}
    if residues >= 2:
        yield {"fn": "detect", **gene, "tta": 2 + ordinal % 2}


def _random_gene(rng: Any) -> Optional[dict]:
    count = rng.randint(1, 5)
    sizes = [rng.choice((1, 2, 3, 4, 5, 6, 7, 10, 17, 40)) if rng.random() < 0.6 else rng.randint(1, 40)
             for _ in range(count)]
    if sum(sizes) < 3:
        return None
    parts, cursor = [], 0
    for index, size in enumerate(sizes):
        parts.append([cursor, cursor + size])
        cursor += size
        if index + 1 < count:
            cursor += rng.choice((0, 1, 2, 3, 7, 30))
    span = parts[-1][1]
    strand = rng.choice((1, -1))
    if rng.random() < 0.5:
        length = span + rng.choice((0, 1, 2, 50))
        rotation = rng.randint(0, length - span)
        circular = rng.random() < 0.5
    else:
        length = span + rng.choice((0, 1, 3, 50))
        rotation = length - rng.randint(1, span - 1)
        circular = True
    gene = _place(parts, length, rotation, strand)
    codon_start = rng.choice((0, 1, 1, 2, 3))
    if codon_start > 1 and (gene[0][1] - gene[0][0] <= codon_start - 1
                            or sum(p[1] - p[0] for p in gene) - (codon_start - 1) < 3):
        codon_start = 1
    return {"L": length, "circ": circular, "gene": gene, "seed": rng.randint(1, 10 ** 6), "cs": codon_start}


# ------------------------------------------------------------------------------------------------
# driver entry points
# ------------------------------------------------------------------------------------------------

def shards(tier: str, seed: int) -> list:
    del seed
    count = 32 if tier == "quick" else 64
    return [{"tier": tier, "index": i, "stride": count, "random_s": 0 if tier == "quick" else 40}
            for i in range(count)]


def _report(run: Any, case: dict) -> None:
    try:
        outcome = evaluate(case)
    except Exception as err:  # a bug of this module, not of the code under test
        import traceback
        run.error(f"evaluator crashed on {case!r}: {err!r}\n{traceback.format_exc()}")
        return
    key = repr(case)
    for clause, ok, nontrivial, detail in outcome:
        run.check(_label(clause, case), ok, case, nontrivial=nontrivial, detail=detail if not ok else "", key=key)


def run_shard(shard: dict, run: Any) -> None:
    import logging
    logging.disable(logging.CRITICAL)
    ordinal = 0
    for gene in _genes(shard["tier"], shard["index"], shard["stride"]):
        if run.out_of_time():
            return
        ordinal += 1
        for case in _cases_of_gene(gene, ordinal):
            _report(run, case)
            if case["fn"] == "gene" and _context(case).problem:
                break       # reported once at gene level; every other case of it would repeat the same failure
    if shard.get("random_s"):
        import time
        stop = time.time() + shard["random_s"]
        while not run.out_of_time() and time.time() < stop:
            gene = _random_gene(run.rng)
            if gene is None:
                continue
            ordinal += 1
            residues = sum(p[1] - p[0] for p in (_shifted(gene["gene"], gene["cs"]) or [])) // 3
            if residues < 1:
                continue
            _report(run, {"fn": "gene", **gene})
            if _context({"fn": "gene", **gene}).problem:
                continue
            picks = {(0, residues), (0, 1), (residues - 1, residues)}
            for _ in range(12):
                start = run.rng.randint(0, residues - 1)
                picks.add((start, run.rng.randint(start + 1, residues)))
            for start, end in sorted(picks):
                _report(run, {"fn": "sub", **gene, "s": start, "e": end})
                if ordinal % 3 == 0:
                    _report(run, {"fn": "prepeptide", **gene, "s": start, "e": end})
                if ordinal % 3 == 1:
                    _report(run, {"fn": "callers", **gene, "s": start, "e": end})
                _report(run, {"fn": "tta", **gene, "codon": start})
            if residues >= 2:
                _report(run, {"fn": "detect", **gene, "tta": 2 + ordinal % 2})
