"""Bounded stand-in for C06: regions are the disjoint connected components of overlapping areas;
numbering and parent links stay consistent over add / clear / create histories.

Everything runs on a REAL Record with real Protocluster / SubRegion objects; candidate clusters
and regions are the ones the record creates itself.  The oracle is a set-of-bases model (bit
masks) with a union-find over "two areas share a base"; the areas it reads are the candidate
clusters and subregions actually present in the record when `create_regions` is called (they
are the input of region creation; how candidates are formed is C05's business).

Case formats (JSON-able, sufficient for `replay`):

  layout:  {"fn": "layout", "L": 80, "circ": bool, "areas": [["c" | "s", [s, e]], ...]}
           "c": a protocluster with that extent (core: the extent without its first and last
           grid cell when it has >= 3 cells) - candidate clusters come from
           create_candidate_clusters; "s": a subregion.  s >= e: origin-spanning [s:L)+[0:e).
  history: {"fn": "history", "L": 80, "circ": bool, "protos": [[core, extent], ...],
            "subs": [[s, e], ...], "genes": [[s, e, strand], ...], "init": [op, ...],
            "ops": [op, ...]}
           ops: "addP<i>", "addS<i>", "createC", "createR", "clearP", "clearC", "clearS",
           "clearR"; the genes are added first, then `init`, then `ops`; the clauses are
           evaluated on the state after the last operation.
  regions: {"fn": "regions", "L": 80, "circ": bool, "subs": [[s, e], ...], "order": [i, ...]}
           pairwise disjoint subregions; one Region per subregion is built with the real
           constructor and handed to `add_region` in the given order (the public way to add
           regions one by one); the numbering / link clauses are evaluated afterwards.
  offers:  {"fn": "offers", "L": 80, "circ": bool, "subs": [[s, e], ...], "order": [i, ...]}
           subregions that MAY overlap; one Region per subregion is offered to `add_region` in the
           given order.  Each offer must be refused with ValueError iff it shares a base with a
           region already held; afterwards the held regions are pairwise disjoint and the
           numbering / link clauses hold.
"""
from __future__ import annotations

import itertools
import logging
from typing import Any, Dict, Iterable, List, Optional, Sequence, Tuple

from bounded._c05_geom import (
    arc_mask,
    components,
    describe_exception,
    is_contiguous,
    location_mask,
    location_parts,
    make_gene,
    make_protocluster,
    make_record,
    make_subregion,
    spans_origin,
)

RULE = ("layout: every multiset of 1..4 areas (protocluster-derived candidate clusters and "
        "subregions) whose end points lie on a grid of 8 positions of an 80-base ring (all arcs "
        "incl. origin-spanning and the whole record for <= 2 areas, arcs of <= 5 cells for 3 and "
        "<= 3 cells for 4 areas) and of a line (arcs of <= 4 cells, <= 3 areas), plus every ring "
        "layout of one origin-spanning area of 2..6 cells with four of 12 short areas (contact "
        "across the origin with >= 3 sections); non-trivial = at "
        "least 2 areas of which at least two share a base, or an origin-spanning area; "
        "history: every legal sequence of <= 4 operations add_protocluster / add_subregion / "
        "create_candidate_clusters / create_regions / clear_* from three initial states over a "
        "pool of 3 protoclusters, 2 subregions and 3 genes; non-trivial = contains a clear_* or "
        "a create_*; regions: every choice of 3 (4) pairwise disjoint one-cell subregions of the "
        "8 cells, plus the variants with an origin-spanning two-cell subregion, added as Regions "
        "through add_region in every order; offers: every set of 3 ring arcs (line intervals) of "
        "<= 3 cells incl. origin-spanning ones, overlapping or not, offered to add_region in every "
        "order, and every set of 4 of <= 2 cells in 6 orders (thorough: all 24); "
        "distinct = distinct case.")
EXHAUSTIVE = {"quick": True, "thorough": False}

CELL = 10
CELLS = 8
LENGTH = CELL * CELLS
NO_EXC = "no-unexpected-exception"

LAYOUT_CLAUSES = ("creation-succeeds", "regions-disjoint", "regions-are-components",
                  "every-area-in-exactly-one-region", "region-span-exact")
STATE_CLAUSES = ("numbering-1-to-n-in-location-order", "numbers-identify-features",
                 "no-stale-parent-links")


# ---------------------------------------------------------------------------------------------
# families
# ---------------------------------------------------------------------------------------------
def _ring_arcs(max_cells: int, whole: bool) -> List[List[int]]:
    arcs = []
    for start in range(CELLS):
        for size in range(1, min(max_cells, CELLS - 1) + 1):
            end = (start + size) % CELLS
            if start + size <= CELLS:
                arcs.append([start * CELL, (start + size) * CELL])
            else:
                arcs.append([start * CELL, end * CELL])
    if whole:
        arcs.append([0, LENGTH])
    return arcs


def _line_arcs(max_cells: int) -> List[List[int]]:
    return [[a * CELL, b * CELL] for a in range(CELLS) for b in range(a + 1, CELLS + 1) if b - a <= max_cells]


def _kind_patterns(count: int, tier: str) -> List[str]:
    if count <= 2:
        return ["".join(p) for p in itertools.product("cs", repeat=count)]
    patterns = ["c" * count, "".join("cs"[i % 2] for i in range(count))]
    if tier != "quick" or count == 3:
        patterns.append("".join("sc"[i % 2] for i in range(count)))
    if count == 4 and tier == "quick":
        return patterns[1:2]
    return patterns


def _layouts(tier: str) -> Iterable[Dict[str, Any]]:
    quick = tier == "quick"
    plans = [  # (circular, count, arcs)
        (True, 1, _ring_arcs(7, True)),
        (True, 2, _ring_arcs(7, True)),
        (True, 3, _ring_arcs(5 if quick else 7, True)),
        (True, 4, _ring_arcs(3 if quick else 4, True)),
        (False, 1, _line_arcs(8)),
        (False, 2, _line_arcs(8)),
        (False, 3, _line_arcs(4 if quick else 8)),
    ]
    if not quick:
        plans.append((False, 4, _line_arcs(3)))
    for circular, count, arcs in plans:
        for combo in itertools.combinations_with_replacement(arcs, count):
            for pattern in _kind_patterns(count, tier):
                yield {"fn": "layout", "L": LENGTH, "circ": circular,
                       "areas": [[kind, list(arc)] for kind, arc in zip(pattern, combo)]}
    # contact across the origin with three or more sections: one origin-spanning area of 2..6
    # cells and four short areas anywhere (inside it, overlapping either of its ends, touching it
    # without a shared base, apart), so that the sweep leaves up to five sections of which
    # several meet the first one only through the origin-spanning area
    spanning = [[a * CELL, b * CELL] for a in (4, 5, 6, 7) for b in (1, 2)]
    short = [[c * CELL, (c + 1) * CELL] for c in range(CELLS)] + \
            [[c * CELL, (c + 2) * CELL] for c in (1, 2, 3, 5)]
    for wide in spanning:
        for combo in itertools.combinations(short, 4):
            for pattern in (("sssss", "cscsc") if quick else ("sssss", "cscsc", "scscs", "ccccc")):
                arcs = [wide] + [list(arc) for arc in combo]
                yield {"fn": "layout", "L": LENGTH, "circ": True,
                       "areas": [[kind, arc] for kind, arc in zip(pattern, arcs)]}


HISTORY_POOLS = [
    {   # ring: P0 spans the origin and overlaps P1; P2 apart; S0 overlaps P2; S1 inside P0
        "circ": True,
        "protos": [[[70, 10], [60, 20]], [[20, 30], [10, 40]], [[50, 60], [50, 60]]],
        "subs": [[55, 65], [0, 10]],
        "genes": [[0, 9, 1], [21, 30, -1], [75, 6, 1]],
    },
    {   # line: P0 and P1 identical coordinates, P2 neighbouring P1; S0 disjoint, S1 bridging
        "circ": False,
        "protos": [[[10, 20], [0, 30]], [[10, 20], [0, 30]], [[40, 50], [20, 60]]],
        "subs": [[70, 80], [55, 75]],
        "genes": [[12, 18, 1], [41, 47, -1], [70, 79, 1]],
    },
]
INITIAL_STATES = [
    [],
    ["addP0", "addP1", "addS0"],
    ["addP0", "addP1", "addP2", "addS0", "createC", "createR"],
]


class _Abstract:
    """What the history generator needs to know to produce only legal call sequences."""

    def __init__(self) -> None:
        self.protos: set = set()
        self.subs: set = set()
        self.candidates = False
        self.regions = False

    def copy(self) -> "_Abstract":
        other = _Abstract()
        other.protos, other.subs = set(self.protos), set(self.subs)
        other.candidates, other.regions = self.candidates, self.regions
        return other

    def legal(self, op: str) -> bool:
        if op.startswith("addP"):
            return int(op[4:]) not in self.protos
        if op.startswith("addS"):
            return int(op[4:]) not in self.subs
        if op == "createC":      # candidates are created once from the current protoclusters
            return bool(self.protos) and not self.candidates
        if op == "createR":      # regions are created when none exist
            return not self.regions and (self.candidates or bool(self.subs))
        if op == "clearP":
            return bool(self.protos)
        if op == "clearC":
            return self.candidates
        if op == "clearS":
            return bool(self.subs)
        return self.regions      # clearR

    def apply(self, op: str) -> None:
        if op.startswith("addP"):
            self.protos.add(int(op[4:]))
        elif op.startswith("addS"):
            self.subs.add(int(op[4:]))
        elif op == "createC":
            self.candidates = True
        elif op == "createR":
            self.regions = True
        elif op == "clearP":
            self.protos.clear()
            self.candidates = False
            self.regions = self.regions and bool(self.subs)
        elif op == "clearC":
            self.candidates = False
            self.regions = self.regions and bool(self.subs)
        elif op == "clearS":
            self.subs.clear()
            self.regions = self.regions and self.candidates
        else:
            self.regions = False


ALL_OPS = ["addP0", "addP1", "addP2", "addS0", "addS1", "createC", "createR",
           "clearP", "clearC", "clearS", "clearR"]


def _histories(tier: str) -> Iterable[Dict[str, Any]]:
    depth = 4 if tier == "quick" else 5
    for pool in HISTORY_POOLS:
        for init in INITIAL_STATES:
            state = _Abstract()
            for op in init:
                state.apply(op)
            stack: List[Tuple[List[str], _Abstract]] = [([], state)]
            while stack:
                ops, current = stack.pop()
                if ops:
                    case = {"fn": "history", "L": LENGTH}
                    case.update(pool)
                    case["init"] = list(init)
                    case["ops"] = list(ops)
                    yield case
                if len(ops) == depth:
                    continue
                for op in ALL_OPS:
                    if current.legal(op):
                        following = current.copy()
                        following.apply(op)
                        stack.append((ops + [op], following))


def _region_orders(tier: str) -> Iterable[Dict[str, Any]]:
    cells = [[c * CELL, (c + 1) * CELL] for c in range(CELLS)]
    spanning = [(CELLS - 1) * CELL, CELL]
    choices: List[Tuple[bool, List[List[int]]]] = []
    for count in (3, 4):
        for combo in itertools.combinations(cells, count):
            choices.append((False, [list(arc) for arc in combo]))
            choices.append((True, [list(arc) for arc in combo]))
        for combo in itertools.combinations(cells[1:-1], count - 1):
            choices.append((True, [list(spanning)] + [list(arc) for arc in combo]))
    for circular, subs in choices:
        for order in itertools.permutations(range(len(subs))):
            if tier == "quick" and len(subs) == 4 and not circular and order[0] > 1:
                continue
            yield {"fn": "regions", "L": LENGTH, "circ": circular, "subs": subs, "order": list(order)}


def _offers(tier: str) -> Iterable[Dict[str, Any]]:
    """Region sets that may overlap, offered one by one to `add_region`."""
    quick = tier == "quick"
    plans = [
        (True, 3, _ring_arcs(3, False), None),
        (False, 3, _line_arcs(3), None),
        (True, 4, _ring_arcs(2, False), 6 if quick else None),
        (False, 4, _line_arcs(2), 6 if quick else None),
    ]
    if not quick:
        plans.append((True, 3, _ring_arcs(6, True), None))
    for circular, count, arcs, limit in plans:
        orders = list(itertools.permutations(range(count)))
        if limit:      # a reduced slice: the given order, its reverse, and the rotations
            keep = [orders[0], orders[-1]] + [tuple(range(k, count)) + tuple(range(k)) for k in range(1, count)]
            keep += [(1, 0) + tuple(range(2, count))]
            orders = sorted(set(keep))
        for combo in itertools.combinations(arcs, count):
            for order in orders:
                yield {"fn": "offers", "L": LENGTH, "circ": circular,
                       "subs": [list(arc) for arc in combo], "order": list(order)}


# ---------------------------------------------------------------------------------------------
# sharding
# ---------------------------------------------------------------------------------------------
LAYOUT_SHARDS = 40
HISTORY_SHARDS = 8


def shards(tier: str, seed: int) -> list:
    make_record(10, False)        # import antismash once, before the driver forks its workers
    out = [{"fn": "layout", "tier": tier, "index": i, "of": LAYOUT_SHARDS} for i in range(LAYOUT_SHARDS)]
    out += [{"fn": "history", "tier": tier, "index": i, "of": HISTORY_SHARDS} for i in range(HISTORY_SHARDS)]
    out += [{"fn": "regions", "tier": tier, "index": i, "of": 4} for i in range(4)]
    out += [{"fn": "offers", "tier": tier, "index": i, "of": 8} for i in range(8)]
    if tier != "quick":
        out += [{"fn": "random", "tier": tier, "index": i, "of": 16} for i in range(16)]
    return out


def run_shard(shard: Dict[str, Any], run: Any) -> None:
    if shard["fn"] == "random":
        _run_random(run)
        return
    source = {"layout": _layouts, "history": _histories, "regions": _region_orders,
              "offers": _offers}[shard["fn"]](shard["tier"])
    for case in itertools.islice(source, shard["index"], None, shard["of"]):
        if run.out_of_time():               # budget exhausted: the run is reported as truncated
            return
        _check_case(run, case)


def _run_random(run: Any) -> None:
    """Beyond the exhaustive bound: 5..7 areas with arbitrary (off-grid) coordinates on rings and
    lines of 80 / 81 bases."""
    rng = run.rng
    for _ in range(40000):                 # bounded, so that the evidence stays of a sane size
        if run.out_of_time():
            break
        length = rng.choice((80, 81))
        circular = rng.random() < 0.7
        areas = []
        for _ in range(rng.randrange(5, 8)):
            start = rng.randrange(0, length - 3)
            size = rng.randrange(3, length // 2)
            end = start + size
            if end > length:
                if not circular or end - length >= start:
                    end = length
                else:
                    end -= length
            areas.append([rng.choice("cs"), [start, end]])
        _check_case(run, {"fn": "layout", "L": length, "circ": circular, "areas": areas})


# ---------------------------------------------------------------------------------------------
# building
# ---------------------------------------------------------------------------------------------
def _core_of(extent: Sequence[int], length: int) -> List[int]:
    """The extent without its first and last cell when it has at least 3 cells (so that
    neighbouring, interleaved and single candidates all occur); the extent itself otherwise."""
    start, end = extent
    size = end - start if start < end else length - start + end
    if size < 3 * CELL:
        return [start, end]
    core_start = (start + CELL) % length
    core_end = (end - CELL) % length
    if core_end == 0:
        core_end = length
    if core_start >= core_end and not spans_origin(extent):
        return [start, end]
    return [core_start, core_end]


def _single_candidates(record: Any, circular: bool, length: int) -> None:
    from antismash.common.secmet.features import CandidateCluster
    from antismash.common.secmet.features.candidate_cluster import CandidateClusterKind
    for proto in record.get_protoclusters():
        record.add_candidate_cluster(CandidateCluster(CandidateClusterKind.SINGLE, [proto],
                                                      circular_wrap_point=length if circular else None))


def _create_candidates(record: Any, circular: bool, length: int) -> None:
    """create_candidate_clusters; if candidate formation itself fails (not this property's
    business) fall back to one single candidate per protocluster."""
    try:
        record.create_candidate_clusters()
    except Exception:  # pylint: disable=broad-except
        if record.get_candidate_clusters():
            raise
        _single_candidates(record, circular, length)


# ---------------------------------------------------------------------------------------------
# the clauses
# ---------------------------------------------------------------------------------------------
def _region_clauses(record: Any, areas: List[Any]) -> List[Tuple[str, bool, str]]:
    """Clauses about the regions just created from `areas` (the candidate clusters and subregions
    present when create_regions ran)."""
    masks = [location_mask(area.location) for area in areas]
    index_of = {id(area): i for i, area in enumerate(areas)}
    pairs = [(a, b) for a in range(len(areas)) for b in range(a + 1, len(areas)) if masks[a] & masks[b]]
    expected = sorted(components(len(areas), pairs))
    regions = list(record.get_regions())
    region_masks = [location_mask(region.location) for region in regions]
    members = []
    for region in regions:
        children = list(region.candidate_clusters) + list(region.subregions)
        members.append([index_of.get(id(child), -1) for child in children])
    out = []
    described = [(location_parts(r.location), sorted(m)) for r, m in zip(regions, members)]

    clash = [(location_parts(regions[a].location), location_parts(regions[b].location))
             for a in range(len(regions)) for b in range(a + 1, len(regions))
             if region_masks[a] & region_masks[b]]
    out.append(("regions-disjoint", not clash, f"regions sharing a base: {clash}"))

    actual = sorted(sorted(set(m)) for m in members)
    out.append(("regions-are-components", actual == expected,
                f"regions group the areas as {actual}, the components of 'share a base' are {expected}; "
                f"areas {[location_parts(a.location) for a in areas]}"))

    counts = [0] * len(areas)
    foreign = 0
    for group in members:
        for index in group:
            if index < 0:
                foreign += 1
            else:
                counts[index] += 1
    bad = [i for i, count in enumerate(counts) if count != 1]
    out.append(("every-area-in-exactly-one-region", not bad and not foreign,
                f"areas {bad} are listed {[counts[i] for i in bad]} times, {foreign} foreign children; {described}"))

    wrong = []
    for region, mask, group in zip(regions, region_masks, members):
        union = 0
        for index in group:
            if index >= 0:
                union |= masks[index]
        if mask != union:
            wrong.append((location_parts(region.location),
                          [location_parts(areas[i].location) for i in group if i >= 0]))
    out.append(("region-span-exact", not wrong, f"region location differs from the span of its areas: {wrong}"))
    return out


def _in_location_order(features: Sequence[Any]) -> bool:
    """Demanded only where every reading of 'location order' agrees: the features that do not
    span the origin appear by non-decreasing start, and the features that do span it appear,
    among themselves, by non-decreasing start of their part before the origin (the one that
    begins earlier comes first; equal starts are left free, as is the position of the spanning
    features relative to the others)."""
    starts = [int(f.location.start) for f in features if len(f.location.parts) == 1]
    if not all(starts[i] <= starts[i + 1] for i in range(len(starts) - 1)):
        return False
    spanning = [max(int(part.start) for part in f.location.parts) for f in features if len(f.location.parts) > 1]
    return all(spanning[i] <= spanning[i + 1] for i in range(len(spanning) - 1))


def _state_clauses(record: Any, retired: Sequence[Any] = ()) -> List[Tuple[str, bool, str]]:
    """Clauses that must hold for the features the record currently lists, after any operation.
    `retired`: candidate clusters / regions the record listed earlier and has removed since; a
    parent link is stale when it still points at one of those (a link to an object the record
    never listed - a temporary of candidate formation - is not this property's business)."""
    out = []
    kinds = [
        ("region", record.get_regions(), record.get_region, record.get_region_number,
         lambda f: f.get_region_number()),
        ("candidate", record.get_candidate_clusters(), record.get_candidate_cluster,
         record.get_candidate_cluster_number, lambda f: f.get_candidate_cluster_number()),
        ("protocluster", record.get_protoclusters(), record.get_protocluster,
         record.get_protocluster_number, lambda f: f.get_protocluster_number()),
        ("subregion", record.get_subregions(), record.get_subregion, record.get_subregion_number,
         lambda f: f.get_subregion_number()),
    ]
    order_problems = []
    identity_problems = []
    for name, features, getter, number_of, own_number in kinds:
        if not _in_location_order(features):
            order_problems.append(f"{name}s not in location order: {[location_parts(f.location) for f in features]}")
        for position, feature in enumerate(features):
            try:
                number = number_of(feature)
                shown = own_number(feature)
                back = getter(number)
            except Exception as err:  # pylint: disable=broad-except
                identity_problems.append(f"{name} {position + 1}: {describe_exception(err)}")
                continue
            if number != position + 1:
                order_problems.append(f"{name} at position {position + 1} has number {number}")
            if shown != number or back is not feature:
                identity_problems.append(f"{name} at position {position + 1} shows number {shown}, "
                                         f"record says {number}, get_{name}({number}) is "
                                         f"{'the same' if back is feature else 'another'} feature")
    out.append(("numbering-1-to-n-in-location-order", not order_problems, "; ".join(order_problems)))
    out.append(("numbers-identify-features", not identity_problems, "; ".join(identity_problems)))

    stale = []
    regions = list(record.get_regions())
    candidates = list(record.get_candidate_clusters())
    def was_removed(parent: Any) -> bool:
        return any(parent is old for old in retired)

    for proto in record.get_protoclusters():
        parent = proto.parent
        if parent is not None and was_removed(parent):
            stale.append(f"protocluster {location_parts(proto.location)} has parent "
                         f"{parent!r} which the record has removed")
        elif parent is not None and any(parent is c for c in candidates) and \
                not any(proto is p for p in parent.protoclusters):
            stale.append(f"protocluster {location_parts(proto.location)} has parent {parent!r} "
                         "which does not list it")
    for kind, features in (("candidate", candidates), ("subregion", list(record.get_subregions()))):
        for feature in features:
            parent = feature.parent
            if parent is None:
                continue
            listed = [r for r in regions if r is parent
                      and any(feature is child for child in list(r.candidate_clusters) + list(r.subregions))]
            if was_removed(parent) or (any(r is parent for r in regions) and not listed):
                stale.append(f"{kind} {location_parts(feature.location)} has parent {parent!r} "
                             "which the record has removed or which does not list it")
    for gene in record.get_cds_features():
        if gene.region is not None and not any(gene.region is r for r in regions):
            stale.append(f"gene {location_parts(gene.location)} points to {gene.region!r} "
                         "which is not a region of the record")
    out.append(("no-stale-parent-links", not stale, "; ".join(stale)))
    return out


# ---------------------------------------------------------------------------------------------
# evaluation of one case
# ---------------------------------------------------------------------------------------------
def _evaluate_layout(case: Dict[str, Any]) -> Tuple[List[Tuple[str, bool, str]], bool]:
    length, circular = case["L"], case["circ"]
    try:
        record = make_record(length, circular)
        for index, (kind, arc) in enumerate(case["areas"]):
            if kind == "c":
                record.add_protocluster(make_protocluster(_core_of(arc, length), arc, f"p{index}", length))
            else:
                record.add_subregion(make_subregion(arc, f"s{index}", length))
        _create_candidates(record, circular, length)
    except Exception as err:  # pylint: disable=broad-except
        return [(NO_EXC, False, "while building the areas: " + describe_exception(err))], True
    areas = list(record.get_candidate_clusters()) + list(record.get_subregions())
    masks = [arc_mask(arc, length) for _, arc in case["areas"]]
    nontrivial = any(spans_origin(arc) for _, arc in case["areas"]) or any(
        masks[a] & masks[b] for a in range(len(masks)) for b in range(a + 1, len(masks)))
    try:
        record.create_regions()
    except Exception as err:  # pylint: disable=broad-except
        return [("creation-succeeds", False, describe_exception(err))], nontrivial
    results = [("creation-succeeds", True, "")]
    results.extend(_region_clauses(record, areas))
    results.extend(_state_clauses(record))
    return results, nontrivial


def _evaluate_history(case: Dict[str, Any]) -> Tuple[List[Tuple[str, bool, str]], bool]:
    length, circular = case["L"], case["circ"]
    record = make_record(length, circular)
    protos = [make_protocluster(core, extent, f"p{i}", length) for i, (core, extent) in enumerate(case["protos"])]
    subs = [make_subregion(arc, f"s{i}", length) for i, arc in enumerate(case["subs"])]
    results: List[Tuple[str, bool, str]] = []
    areas_at_creation: Optional[List[Any]] = None
    sequence = list(case["init"]) + list(case["ops"])
    try:
        for index, gene in enumerate(case["genes"]):
            record.add_cds_feature(make_gene(f"g{index}", gene[:2], gene[2], length))
    except Exception as err:  # pylint: disable=broad-except
        return [(NO_EXC, False, "while adding genes: " + describe_exception(err))], True
    retired: List[Any] = []
    for position, op in enumerate(sequence):
        had_regions = bool(record.get_regions())
        areas_at_creation = None
        listed_before = list(record.get_candidate_clusters()) + list(record.get_regions())
        try:
            if op.startswith("addP"):
                record.add_protocluster(protos[int(op[4:])])
            elif op.startswith("addS"):
                record.add_subregion(subs[int(op[4:])])
            elif op == "createC":
                _create_candidates(record, circular, length)
            elif op == "createR":
                areas_at_creation = list(record.get_candidate_clusters()) + list(record.get_subregions())
                record.create_regions()
            elif op == "clearP":
                record.clear_protoclusters()
                if had_regions:
                    areas_at_creation = list(record.get_subregions())
            elif op == "clearC":
                record.clear_candidate_clusters()
                if had_regions:
                    areas_at_creation = list(record.get_subregions())
            elif op == "clearS":
                record.clear_subregions()
                if had_regions:
                    areas_at_creation = list(record.get_candidate_clusters())
            elif op == "clearR":
                record.clear_regions()
            else:
                raise KeyError(op)
        except Exception as err:  # pylint: disable=broad-except
            clause = "creation-succeeds" if op != "createC" and not op.startswith("add") else NO_EXC
            return [(clause, False, f"operation {position} ({op}): " + describe_exception(err))], True
        listed_now = list(record.get_candidate_clusters()) + list(record.get_regions())
        retired.extend(old for old in listed_before if not any(old is new for new in listed_now))
    if areas_at_creation is not None:
        # the last operation (re-)created the regions: they must be the components of the areas
        results.append(("creation-succeeds", True, ""))
        results.extend(_region_clauses(record, areas_at_creation))
    results.extend(_state_clauses(record, retired))
    nontrivial = any(op.startswith("clear") or op.startswith("create") for op in case["ops"])
    return results, nontrivial


def _evaluate_regions(case: Dict[str, Any]) -> Tuple[List[Tuple[str, bool, str]], bool]:
    from antismash.common.secmet.features import Region
    length = case["L"]
    record = make_record(length, case["circ"])
    subs = [make_subregion(arc, f"s{i}", length) for i, arc in enumerate(case["subs"])]
    try:
        for sub in subs:
            record.add_subregion(sub)
        for index in case["order"]:
            record.add_region(Region(subregions=[subs[index]]))
    except Exception as err:  # pylint: disable=broad-except
        return [(NO_EXC, False, describe_exception(err))], True
    results = _region_clauses(record, list(record.get_subregions()))
    results.extend(_state_clauses(record))
    return results, True


def _evaluate_offers(case: Dict[str, Any]) -> Tuple[List[Tuple[str, bool, str]], bool]:
    """One Region per subregion is offered to add_region in the given order; an offer must be
    refused (ValueError) iff it shares a base with a region the record already holds."""
    from antismash.common.secmet.features import Region
    length = case["L"]
    record = make_record(length, case["circ"])
    subs = [make_subregion(arc, f"s{i}", length) for i, arc in enumerate(case["subs"])]
    masks = [arc_mask(arc, length) for arc in case["subs"]]
    held: List[int] = []
    wrong = []
    try:
        for sub in subs:
            record.add_subregion(sub)
    except Exception as err:  # pylint: disable=broad-except
        return [(NO_EXC, False, describe_exception(err))], True
    for index in case["order"]:
        clash = [h for h in held if masks[h] & masks[index]]
        try:
            region = Region(subregions=[subs[index]])
        except Exception as err:  # pylint: disable=broad-except
            return [(NO_EXC, False, "Region(): " + describe_exception(err))], True
        try:
            record.add_region(region)
            accepted = True
        except ValueError as err:
            accepted = False
            if "overlap" not in str(err):
                return [(NO_EXC, False, describe_exception(err))], True
        except Exception as err:  # pylint: disable=broad-except
            return [(NO_EXC, False, describe_exception(err))], True
        if accepted == bool(clash):
            wrong.append(f"offer {case['subs'][index]} was {'accepted' if accepted else 'refused'} while the "
                         f"record held {[case['subs'][h] for h in held]} (overlapping: "
                         f"{[case['subs'][h] for h in clash]})")
        listed = any(r is region for r in record.get_regions())
        if listed != accepted:
            wrong.append(f"offer {case['subs'][index]}: accepted={accepted} but listed={listed}")
        if accepted:
            held.append(index)
    results = [("offer-refused-iff-overlaps-held", not wrong, "; ".join(wrong))]
    regions = list(record.get_regions())
    region_masks = [location_mask(r.location) for r in regions]
    clash2 = [(location_parts(regions[a].location), location_parts(regions[b].location))
              for a in range(len(regions)) for b in range(a + 1, len(regions)) if region_masks[a] & region_masks[b]]
    results.append(("regions-disjoint", not clash2, f"regions sharing a base: {clash2}"))
    results.extend(_state_clauses(record))
    nontrivial = any(masks[a] & masks[b] for a in range(len(masks)) for b in range(a + 1, len(masks))) or \
        any(spans_origin(arc) for arc in case["subs"])
    return results, nontrivial


def _evaluate(case: Dict[str, Any]) -> Tuple[List[Tuple[str, bool, str]], bool]:
    try:
        if case["fn"] == "offers":
            return _evaluate_offers(case)
        if case["fn"] == "regions":
            return _evaluate_regions(case)
        if case["fn"] == "layout":
            return _evaluate_layout(case)
        return _evaluate_history(case)
    except Exception as err:  # pylint: disable=broad-except
        return [(NO_EXC, False, describe_exception(err))], True


def _check_case(run: Any, case: Dict[str, Any]) -> None:
    results, nontrivial = _quietly(case)
    for clause, ok, detail in results:
        if not ok:
            for finding, predicate in FINDING_CLASSES.items():
                if predicate(clause, case):
                    # keep the inputs of a known class from filling the driver's per-clause
                    # failure list (the predicates accept both spellings of the clause)
                    clause = f"{clause} [{finding}]"
                    break
        run.check(clause, ok, case, nontrivial=nontrivial, detail=detail)


def _quietly(case: Dict[str, Any]) -> Tuple[List[Tuple[str, bool, str]], bool]:
    """_evaluate with the logging of the code under test ("existing region overlaps") muted."""
    previous = logging.root.manager.disable
    logging.disable(logging.CRITICAL)
    try:
        return _evaluate(case)
    finally:
        logging.disable(previous)


def replay(case: Dict[str, Any]) -> List[str]:
    results, _ = _quietly(case)
    return [f"{clause}: {detail}" for clause, ok, detail in results if not ok]


# ---------------------------------------------------------------------------------------------
# known findings
# ---------------------------------------------------------------------------------------------
def _plain(clause: str) -> str:
    return clause.split(" [")[0]


def _mask_to_arc(mask: int, length: int) -> List[int]:
    """(s, e) of a contiguous set of bases of a ring ([0, length] for the whole ring)."""
    if mask == (1 << length) - 1:
        return [0, length]
    start = next(i for i in range(length) if mask >> i & 1 and not mask >> ((i - 1) % length) & 1)
    last = next(i for i in range(length) if mask >> i & 1 and not mask >> ((i + 1) % length) & 1)
    return [start, last + 1]


def _pinned_connect(arcs: Sequence[Sequence[int]], length: int, exact: bool) -> int:
    """Set of bases of the location that the PINNED `connect_locations(arcs, wrap_point=length)`
    returns for arcs that are chained by shared bases (exact=True: the span it should return).
    With an origin-spanning arc present the pinned code sorts the other arcs into a pre-origin
    chunk (start >= length - end) and a post-origin chunk, takes the hull of each chunk and, when
    the two hulls overlap, returns the whole record."""
    union = 0
    for arc in arcs:
        union |= arc_mask(arc, length)
    if exact or not any(spans_origin(arc) for arc in arcs):
        if any(spans_origin(arc) for arc in arcs) or not is_contiguous(union, length, False):
            return union if is_contiguous(union, length, True) else (1 << length) - 1
        return union
    pre_start, post_end = length, 0
    for start, end in arcs:
        if start >= end:
            pre_start, post_end = min(pre_start, start), max(post_end, end)
        elif start < length - end:
            post_end = max(post_end, end)
        else:
            pre_start = min(pre_start, start)
    if pre_start < post_end or pre_start == 0 or post_end == length:
        return (1 << length) - 1
    return arc_mask([pre_start, post_end], length)


def _model_areas(case: Dict[str, Any], exact: bool) -> List[List[int]]:
    """The arcs of the areas create_regions will see for a layout case: the subregions and the
    candidate clusters of the protoclusters (no genes, so no hybrids): the span of every
    core-overlap group (interleaved), the span of every extent-overlap group that is not a
    core-overlap group (neighbouring), and every protocluster outside the core-overlap groups
    (single).  Same coordinates are listed once (candidates are de-duplicated by coordinates)."""
    length = case["L"]
    arcs = [list(arc) for kind, arc in case["areas"] if kind == "s"]
    protos = [list(arc) for kind, arc in case["areas"] if kind == "c"]
    count = len(protos)
    extents = [arc_mask(arc, length) for arc in protos]
    cores = [arc_mask(_core_of(arc, length), length) for arc in protos]
    pairs = [(a, b) for a in range(count) for b in range(a + 1, count)]
    core_groups = [g for g in components(count, [p for p in pairs if cores[p[0]] & cores[p[1]]]) if len(g) > 1]
    extent_groups = [g for g in components(count, [p for p in pairs if extents[p[0]] & extents[p[1]]])
                     if len(g) > 1 and g not in core_groups]
    candidates: List[List[int]] = []

    def span(group: Sequence[int]) -> List[int]:
        if case["circ"]:
            return _mask_to_arc(_pinned_connect([protos[i] for i in group], length, exact), length)
        return [min(protos[i][0] for i in group), max(protos[i][1] for i in group)]

    for group in core_groups + extent_groups:
        candidates.append(span(group))
    absorbed = {i for group in core_groups for i in group}
    candidates.extend(protos[i] for i in range(count) if i not in absorbed)
    for arc in candidates:
        if arc not in arcs[len([a for k, a in case["areas"] if k == "s"]):]:
            arcs.append(arc)
    return arcs


def _model_regions(case: Dict[str, Any], exact: bool) -> Tuple[bool, List[List[int]], List[int], List[List[int]]]:
    """Model of Record.create_regions as it is in /repo (sorted sweep that merges consecutive areas
    sharing a base with the running span, then every later section that shares a base with the
    first one is merged into it, a region per section) on a ring,
    with `connect_locations` either as pinned or exact.  Returns (raises 'regions cannot overlap',
    sections as lists of area indices, region masks, area arcs).  Used ONLY to delimit the
    known-finding classes, never as an oracle."""
    length = case["L"]
    arcs = _model_areas(case, exact)

    def key(index: int) -> Tuple[int, int]:
        arc = arcs[index]
        if spans_origin(arc):
            return (arc[0] - length, -(length - arc[0] + arc[1]))
        return (arc[0], -(arc[1] - arc[0]))
    ordered = sorted(range(len(arcs)), key=key)
    sections: List[Tuple[int, List[int]]] = []
    current = arc_mask(arcs[ordered[0]], length)
    members = [ordered[0]]
    for index in ordered[1:]:
        mask = arc_mask(arcs[index], length)
        if mask & current:
            current = _pinned_connect([arcs[index], _mask_to_arc(current, length)], length, exact)
            members.append(index)
        else:
            sections.append((current, members))
            current, members = mask, [index]
    sections.append((current, members))
    merged = True
    while merged and len(sections) > 1:            # every later section sharing a base with the first
        merged = False
        for position in range(len(sections) - 1, 0, -1):
            if sections[0][0] & sections[position][0]:
                other = sections.pop(position)
                span = _pinned_connect([_mask_to_arc(sections[0][0], length), _mask_to_arc(other[0], length)],
                                       length, exact)
                sections[0] = (span, sections[0][1] + [i for i in other[1] if i not in sections[0][1]])
                merged = True
    region_masks = [_pinned_connect([arcs[i] for i in group], length, exact) for _, group in sections]
    raises = any(region_masks[a] & region_masks[b]
                 for a in range(len(region_masks)) for b in range(a + 1, len(region_masks)))
    return raises, [sorted(group) for _, group in sections], region_masks, arcs


def _some_span_inflated(case: Dict[str, Any]) -> bool:
    """Some chained set of the supplied areas that contains an origin-spanning one is given the
    whole record by the pinned connect_locations although its span is smaller (candidate clusters
    and regions are spans of such sets)."""
    length = case["L"]
    arcs = [list(arc) for _, arc in case["areas"]]
    masks = [arc_mask(arc, length) for arc in arcs]
    for size in range(2, len(arcs) + 1):
        for subset in itertools.combinations(range(len(arcs)), size):
            if not any(spans_origin(arcs[i]) for i in subset):
                continue
            pairs = [(a, b) for a in range(size) for b in range(a + 1, size)
                     if masks[subset[a]] & masks[subset[b]]]
            if len(components(size, pairs)) != 1:
                continue
            union = 0
            for i in subset:
                union |= masks[i]
            if _pinned_connect([arcs[i] for i in subset], length, False) != union:
                return True
    return False


def _is_f2(clause: str, case: Dict[str, Any]) -> bool:
    """Ring, an origin-spanning area chained with an area on the "other side" of the pinned
    pre/post-origin chunk split: connect_locations returns the whole record instead of the span,
    so a region is larger than the span of its areas (region-span-exact), swallows areas of
    another component (regions-are-components) or collides with another region
    (creation-succeeds).  Delimited by the sweep model with the pinned connect_locations."""
    clause = _plain(clause)
    if case.get("fn") != "layout" or not case["circ"]:
        return False
    if clause not in ("creation-succeeds", "region-span-exact", "regions-are-components"):
        return False
    if not any(spans_origin(arc) for _, arc in case["areas"]):
        return False
    if (clause == "region-span-exact" or len(case["areas"]) > 4) and _some_span_inflated(case):
        return True       # (> 4 areas: sampled layouts, where the sweep model below is not exact)
    raises, sections, region_masks, arcs = _model_regions(case, exact=False)
    if raises:
        # an inflated region span reaches the region of another component
        return clause in ("creation-succeeds", "regions-are-components")
    if clause == "creation-succeeds":
        return False
    length = case["L"]
    masks = [arc_mask(arc, length) for arc in arcs]
    if clause == "region-span-exact":
        for group, region in zip(sections, region_masks):
            union = 0
            for index in group:
                union |= masks[index]
            if union != region:
                return True
        return False
    pairs = [(a, b) for a in range(len(arcs)) for b in range(a + 1, len(arcs)) if masks[a] & masks[b]]
    return sorted(sections) != sorted(components(len(arcs), pairs))


# C06-F1 (single first/last fix-up of the sweep) and C06-F3 (add_region stopped scanning the held
# regions early) are repaired in /repo and have no class any more: a recurrence is reported as an
# unclassified failure.
FINDING_CLASSES = {
    "C06-F2": _is_f2,
}
