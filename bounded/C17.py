"""Bounded stand-in for C17 — same input, same output: results do not depend on the process or
hash seed.

Three ways of varying what the statement quantifies over, all on the real code:

* seed/...     the same input evaluated in child interpreters started with PYTHONHASHSEED = 0..7
               (quick) / 0..15 (thorough); every stage dump is compared byte-wise between the children.
               Different seeds also shift the allocation pattern, so identity-hashed sets are exercised
               too, but only weakly.
* setorder/... in-process: the name `set` of the anchored modules is shadowed by a subclass of set whose
               iteration order is a chosen permutation of the natural order (the "ghost seed" of
               DESIGN.md); every set built through `set(...)` / `defaultdict(set)` in those modules then
               iterates in that order.  Set displays / comprehensions are not reached by this.
* layout/...   filter_results on HSP stand-ins whose hash (real HSP objects hash by address) is an
               explicit slot number: the same input list with every assignment of slots.

Pipeline scenario ("P" family): a small record (4 genes linear / 3 genes circular), per gene one of a few
hit sets over the profiles a, b (equivalent), c; five rules of which several can hold for the same genes
(identical protocluster coordinates), run through
    detect_protoclusters_and_signatures (hmmsearch replaced by the scenario's hits) -> add_protocluster
    -> annotate_cds_features -> create_candidate_clusters -> create_regions -> GenBank text
    -> AntismashResults JSON text.
Stages compared: detection-json, protoclusters, candidates, regions, unique-protoclusters (the order of
Region.get_unique_protoclusters per region, with its crosses-origin flag), areas (that section of the JSON),
genbank, json.  The "A" family feeds records with 2-3 equal-coordinate protoclusters of different products
straight into the candidate/region/areas stages.  Children differ in hash seed AND in pre-allocated padding.

Hit families ("T"): the tie-containing sets of the C13 families for refine_hmmscan_results,
hmmer.remove_overlapping and filter_results.
"""
from __future__ import annotations

import hashlib
import io
import itertools
import json
import types
from typing import Any, Callable, Iterator, Optional

from bounded import _c13_oracle as O

RULE = ("P (pipeline scenarios): a 4-gene linear record and a 3-gene circular record with a gene next to the origin; "
        "every gene gets one of the hit sets (none, a, c, a+b apart) and, in at most one gene, the equal-score "
        "overlapping pair a/b of equivalent profiles (453 scenarios + 56 equal-start ones; thorough: 7 hit sets everywhere, 2,742 + 112); 5 rules "
        "of which ra/rb/rab and rc/rac yield protoclusters with identical coordinates.  Each scenario runs "
        "detection -> protoclusters -> candidate clusters -> regions -> GenBank -> JSON in child processes with "
        "PYTHONHASHSEED 0..7 (thorough 0..15) and in-process under 4 (thorough 8) permutations of the iteration order "
        "of every set built by `set(...)` in the anchored modules; the ten stage dumps (detection-json, reloaded-gene-functions (saved rule results loaded against a fresh record and annotated again), protoclusters, "
        "candidates, regions, unique-protoclusters, areas, domain-qualifiers, genbank, json) are compared byte-wise.  "
        "A (areas): records whose protoclusters are given directly - 2-3 protoclusters of different products with "
        "IDENTICAL coordinates (+ optionally one with other coordinates), linear and on a ring, in the middle, at the "
        "edge, with the neighbourhood or the core across the origin, added in both orders (64 cases; thorough 128) - run "
        "through candidate clusters -> regions -> Region.get_unique_protoclusters order -> 'areas' JSON -> GenBank -> "
        "JSON under the same 8 (16) children and under 6 (24) set-order permutations.  Every child also differs in "
        "memory layout: seed k pre-allocates k mod 8 batches of unrelated objects and a few more before each case.  "
        "The A family also holds the kind-promotion path of create_candidates_from_protoclusters: an interleaved pair "
        "plus every non-empty subset of three further protoclusters lying inside its span (1 extra: the unit-tested "
        "path; 2-3 extras), no two with equal coordinates, linear / ring / wrapped over the origin, both insertion "
        "orders (42 cases; thorough 99).  The P family also has, in one gene at a time, hits of two or three different "
        "non-equivalent profiles starting at the SAME protein position (a=d, d=a, a=c, a=c=d; d is used by no rule) "
        "with the other genes empty / all `a` (56 scenarios; thorough 112).  Sets derived from a permuted set "
        "(difference, union, ...) iterate in the chosen permutation too.  "
        "Every gene of every P / A record carries an aSDomain with 2-3 and a PFAM_domain with 2 active-site (ASF) "
        "labels and 2 GO terms (the qualifiers kept in sets / dicts and written as lists); the qualifiers of CDS and "
        "domain features form a stage dump of their own (domain-qualifiers).  "
        "T (hits kept): all sets of 2-3 hits of the C13 grids q3, q5 / h1 that contain a tie (equal start, equal "
        "score, identical coordinates; q6: pairs that differ in exactly one of profile, end, bitscore, e-value) for refine_hmmscan_results (8 seeds; every iteration order of the per-protein "
        "set) and hmmer.remove_overlapping (8 seeds); filter_results on the C13 sets f0, f1, f2 with every slot "
        "(address) assignment of the HSP objects, comparing the survivors AND the order in which each gene's hits come back.  A case is one scenario / one hit set (+ mode); non-trivial: a P "
        "scenario yields >= 1 protocluster and has a gene with two hits or two genes with hits, a T set has >= 2 hits; "
        "distinct = distinct case.")
EXHAUSTIVE = {"quick": True, "thorough": False}

STAGES = ["detection-json", "reloaded-gene-functions", "protoclusters", "candidates", "regions", "unique-protoclusters", "areas",
          "domain-qualifiers", "genbank", "json"]
FULL_TEXT_STAGES = ("detection-json", "reloaded-gene-functions", "protoclusters", "candidates", "regions", "unique-protoclusters", "areas",
                    "domain-qualifiers")

RULES_TEXT = """
RULE ra CATEGORY Cat CUTOFF 3 NEIGHBOURHOOD 1 CONDITIONS a
RULE rb CATEGORY Cat CUTOFF 3 NEIGHBOURHOOD 1 CONDITIONS b
RULE rab CATEGORY Cat CUTOFF 3 NEIGHBOURHOOD 1 CONDITIONS cds(a and b)
RULE rc CATEGORY Cat CUTOFF 6 NEIGHBOURHOOD 2 CONDITIONS c
RULE rac CATEGORY Cat CUTOFF 6 NEIGHBOURHOOD 2 CONDITIONS a and c
"""
EQUIVALENT = ["a", "b"]

# hit sets per gene: [profile, start, end, score] in protein coordinates
GENE_OPTIONS: dict[str, list[list]] = {
    "-": [],
    "a": [["a", 0, 100, 50]],
    "c": [["c", 0, 100, 40]],
    "ab": [["a", 0, 100, 50], ["b", 150, 250, 60]],      # apart: both survive the competition
    "AB": [["a", 0, 100, 50], ["b", 10, 110, 50]],       # overlapping, equal score
    "aB": [["a", 0, 100, 50], ["b", 10, 110, 60]],       # overlapping, b better (thorough only)
    "ac": [["a", 0, 100, 50], ["c", 150, 250, 40]],      # thorough only
    # hits of different, non-equivalent profiles starting at the SAME protein position (ends / scores differ);
    # d is a profile no rule uses: it only shows up as a domain of the gene
    "a=d": [["a", 0, 100, 50], ["d", 0, 130, 70]],
    "d=a": [["d", 0, 130, 70], ["a", 0, 100, 50]],
    "a=c": [["a", 0, 100, 50], ["c", 0, 120, 40]],
    "a=c=d": [["a", 0, 100, 50], ["c", 0, 120, 40], ["d", 0, 130, 70]],
}
EQUAL_START_OPTIONS = ["a=d", "d=a", "a=c", "a=c=d"]
LINEAR = {"len": 30000, "circular": False,
          "genes": [["g1", 1000, 2000, 1], ["g2", 3000, 4000, 1], ["g3", 9000, 10000, -1], ["g4", 12000, 13000, 1]]}
CIRCULAR = {"len": 20000, "circular": True,
            "genes": [["g1", 500, 1500, 1], ["g2", 6000, 7000, -1], ["g3", 18500, 19500, 1]]}


# ------------------------------------------------------------------------------------------
# scenarios

def scenario(layout: dict[str, Any], choice: list[str]) -> dict[str, Any]:
    hits = []
    for (name, _, _, _), option in zip(layout["genes"], choice):
        for prof, a, b, score in GENE_OPTIONS[option]:
            hits.append([prof, name, a, b, score])
    return {"fn": "pipeline", "len": layout["len"], "circular": layout["circular"], "genes": layout["genes"],
            "choice": list(choice), "hits": hits}


def scenarios(tier: str) -> list[dict[str, Any]]:
    """ quick: every gene one of (none, a, c, a+b apart); plus the equal-score overlapping pair a/b in one
        gene with (none, a, c) elsewhere.  thorough: all seven options everywhere. """
    out = []
    for layout in (LINEAR, CIRCULAR):
        n = len(layout["genes"])
        if tier == "quick":
            choices = [list(c) for c in itertools.product(["-", "a", "c", "ab"], repeat=n)]
            for pos in range(n):
                for rest in itertools.product(["-", "a", "c"], repeat=n - 1):
                    choices.append(list(rest[:pos]) + ["AB"] + list(rest[pos:]))
        else:
            choices = [list(c) for c in itertools.product(["-", "a", "c", "ab", "AB", "aB", "ac"], repeat=n)]
        # equal-start hits of different profiles in one gene, the other genes all empty / all with profile a
        for pos in range(n):
            for option in EQUAL_START_OPTIONS:
                for rest in (["-", "a"] if tier == "quick" else ["-", "a", "c", "ab"]):
                    choices.append([rest] * pos + [option] + [rest] * (n - 1 - pos))
        for choice in choices:
            if all(c == "-" for c in choice):
                continue
            out.append(scenario(layout, choice))
    return out


# ------------------------------------------------------------------------------------------
# the pipeline on the real code

class _SearchHSP:
    """ what cluster_prediction reads of a hmmsearch HSP (query = profile, hit = gene) """
    def __init__(self, prof: str, cds: str, start: int, end: int, score: float) -> None:
        self.query_id = prof
        self.hit_id = cds
        self.hit_start = start
        self.hit_end = end
        self.query_start = 0
        self.query_end = end - start
        self.bitscore = float(score)
        self.evalue = 10.0 ** -score


class _RunResult:
    def __init__(self, prof: str, hsps: list) -> None:
        self.accession = prof + ".1"
        self.id = prof
        self.hsps = hsps


_CACHE: dict[str, Any] = {}


def _modules() -> dict[str, Any]:
    if not _CACHE:
        # pylint: disable=import-outside-toplevel
        from Bio import SeqIO
        from Bio.Seq import Seq
        from antismash.common import serialiser
        from antismash.common.hmm_rule_parser import cluster_prediction, rule_parser
        from antismash.common.secmet import Record
        from antismash.common.secmet.features import CDSFeature
        from antismash.common.secmet.locations import FeatureLocation
        from antismash.common.signature import HmmSignature
        from antismash.detection import hmm_detection
        _CACHE.update(SeqIO=SeqIO, Seq=Seq, serialiser=serialiser, cp=cluster_prediction, rule_parser=rule_parser,
                      Record=Record, CDSFeature=CDSFeature, FeatureLocation=FeatureLocation,
                      HmmSignature=HmmSignature, hmm_detection=hmm_detection)
    return _CACHE


def _scenario_record(scn: dict[str, Any]) -> Any:
    mod = _modules()
    rec = mod["Record"](mod["Seq"]("A" * scn["len"]))
    rec.id = "rec1"
    rec.name = "rec1"
    if scn["circular"]:
        rec.annotations["topology"] = "circular"
    for name, start, end, strand in scn["genes"]:
        rec.add_cds_feature(mod["CDSFeature"](mod["FeatureLocation"](start, end, strand), locus_tag=name,
                                              translation="M" * ((end - start) // 3)))
    decorate_genes(rec, scn["genes"])
    return rec


def run_pipeline(scn: dict[str, Any]) -> dict[str, str]:
    """ -> {stage: text}; an exception of the code under test becomes the text of every later stage """
    mod = _modules()
    out: dict[str, str] = {}
    stage = "setup"
    try:
        rec = _scenario_record(scn)
        profiles = ["a", "b", "c", "d"]
        rules = mod["rule_parser"].Parser(RULES_TEXT, set(profiles), {"Cat"}).rules
        sigs = {p: mod["HmmSignature"](p, "profile " + p, 10, "nofile") for p in profiles}
        ruleset = mod["cp"].Ruleset(tuple(rules), sigs, "nodb", {"Cat"}, "rule-based-clusters",
                                    equivalence_groups=[set(EQUIVALENT)])
        by_prof: dict[str, list] = {}
        for prof, cds, start, end, score in scn["hits"]:
            by_prof.setdefault(prof, []).append(_SearchHSP(prof, cds, start, end, score))
        fake = [_RunResult(prof, hsps) for prof, hsps in by_prof.items()]
        cp = mod["cp"]
        original = cp.run_hmmsearch
        cp.run_hmmsearch = lambda *args, **kwargs: fake
        stage = "detection-json"
        # through the module's own entry point, as main does: hmm_detection.run_on_record detects, annotates the
        # genes and wraps the rule results together with the names of the enabled rules (all saved to JSON)
        detection = mod["hmm_detection"]
        # the real get_ruleset runs too, restricted by name to all five rules (as with --hmmdetection-limit-to-rules):
        # only the reading of the shipped rule files is replaced by the ruleset of the scenario
        options = types.SimpleNamespace(hmmdetection_strictness="relaxed", taxon="bacteria",
                                        hmmdetection_limit_to_rules=[rule.name for rule in rules],
                                        hmmdetection_limit_to_categories=[])
        original_from_files = cp.Ruleset.from_files
        cp.Ruleset.from_files = classmethod(lambda cls, *args, **kwargs: ruleset)
        detection._RULESETS.clear()  # pylint: disable=protected-access
        try:
            wrapped = detection.run_on_record(rec, None, options)
        finally:
            cp.run_hmmsearch = original
            cp.Ruleset.from_files = original_from_files
            detection._RULESETS.clear()  # pylint: disable=protected-access
        results = wrapped.rule_results
        out["detection-json"] = json.dumps(wrapped.to_json())
        # the reuse path: the saved rule results are loaded against a fresh copy of the record and annotate its genes
        # again (main with --reuse-results); the gene functions they produce must not depend on the process either
        stage = "reloaded-gene-functions"
        again = _scenario_record(scn)
        reloaded = cp.RuleDetectionResults.from_json(json.loads(json.dumps(results.to_json())), again)
        if reloaded is None:
            raise ValueError("saved rule results refused on reload")
        reloaded.annotate_cds_features()
        out["reloaded-gene-functions"] = json.dumps([[cds.get_name(), [str(function) for function in cds.gene_functions]]
                                                     for cds in again.get_cds_features()])
        stage = "protoclusters"
        for proto in results.protoclusters:
            rec.add_protocluster(proto)
        stage = _finish_record(rec, out, {"antismash.detection.hmm_detection": wrapped})
    except Exception as err:  # pylint: disable=broad-except
        if "detection-json" not in out:
            out["detection-json"] = f"EXCEPTION at {stage}: {type(err).__name__}: {err}"[:400]
        _fail_stages(out, stage, err)
    return out


ASF_LABELS = ["active site serine present", "catalytic triad S,D,H complete", "KR domain putatively catalyzing D-configuration"]


def decorate_genes(rec: Any, genes: list[list]) -> None:
    """ every gene gets an aSDomain with three and a PFAM_domain with two active-site (ASF) labels and two GO
        terms: the qualifiers that antiSMASH keeps in sets / dicts and writes as lists """
    mod = _modules()
    from antismash.common.secmet.features import AntismashDomain, PFAMDomain  # pylint: disable=import-outside-toplevel
    from antismash.common.secmet.qualifiers.go import GOQualifier  # pylint: disable=import-outside-toplevel
    for n, (name, start, _end, strand) in enumerate(genes):
        dom = AntismashDomain(mod["FeatureLocation"](start + 30, start + 120, strand), "verif_tool",
                              mod["FeatureLocation"](10, 40), locus_tag=name, domain="KR")
        dom.domain_id = f"verif_{name}_0001"
        for label in ASF_LABELS[n % 2:]:      # three labels, or two on every other gene
            dom.asf.add(label)
        rec.add_antismash_domain(dom)
        pfam = PFAMDomain(mod["FeatureLocation"](start + 150, start + 300, strand), "a pfam", mod["FeatureLocation"](50, 100),
                          identifier="PF00106.5", tool="verif_pfam", locus_tag=name)
        pfam.domain_id = f"verifpfam_{name}_0001"
        pfam.gene_ontologies = GOQualifier({"GO:0016491": "oxidoreductase activity", "GO:0004312": "fatty acid synthase activity"})
        for label in ASF_LABELS[:2]:
            pfam.asf.add(label)
        rec.add_pfam_domain(pfam)


def _feature_qualifiers(bio_record: Any) -> str:
    """ the qualifiers of the CDS and domain features as they are written (order of values included) """
    rows = []
    for feature in bio_record.features:
        if feature.type in ("CDS", "aSDomain", "PFAM_domain", "CDS_motif"):
            rows.append([feature.type, str(feature.location), [[k, list(v)] for k, v in feature.qualifiers.items()
                                                               if k != "translation"]])
    return json.dumps(rows)


class _StageError(Exception):
    def __init__(self, stage: str, err: Exception) -> None:
        super().__init__(str(err))
        self.stage = stage
        self.err = err


def _finish_record(rec: Any, out: dict[str, str], module_results: dict[str, Any]) -> str:
    """ protoclusters are in the record: dump them, build candidate clusters and regions, dump those, the
        order of Region.get_unique_protoclusters, the 'areas' section of the JSON output, GenBank and JSON """
    mod = _modules()
    stage = "protoclusters"
    try:
        out["protoclusters"] = json.dumps([[rec.get_protocluster_number(p), p.product, str(p.location),
                                            str(p.core_location)] for p in rec.get_protoclusters()])
        stage = "candidates"
        rec.create_candidate_clusters()
        out["candidates"] = json.dumps([[rec.get_candidate_cluster_number(c), str(c.kind), str(c.location),
                                         [rec.get_protocluster_number(p) for p in c.protoclusters]]
                                        for c in rec.get_candidate_clusters()])
        stage = "regions"
        rec.create_regions()
        out["regions"] = json.dumps([[r.get_region_number(), r.products,
                                      [rec.get_candidate_cluster_number(c) for c in r.candidate_clusters]]
                                     for r in rec.get_regions()])
        stage = "unique-protoclusters"
        out["unique-protoclusters"] = json.dumps([[r.get_region_number(), bool(r.crosses_origin()),
                                                   [rec.get_protocluster_number(p) for p in r.get_unique_protoclusters()]]
                                                  for r in rec.get_regions()])
        stage = "domain-qualifiers"
        bio_record = rec.to_biopython()
        out["domain-qualifiers"] = _feature_qualifiers(bio_record)
        stage = "genbank"
        handle = io.StringIO()
        mod["SeqIO"].write(bio_record, handle, "genbank")
        out["genbank"] = handle.getvalue()
        stage = "json"
        full = mod["serialiser"].AntismashResults("input.gbk", [rec], [module_results], "verif")
        handle = io.StringIO()
        full.write_to_file(handle)
        out["json"] = handle.getvalue()
        stage = "areas"
        out["areas"] = json.dumps(json.loads(out["json"])["records"][0]["areas"])
    except Exception as err:  # pylint: disable=broad-except
        raise _StageError(stage, err) from err
    return stage


def _fail_stages(out: dict[str, str], stage: str, err: Exception) -> None:
    if isinstance(err, _StageError):
        stage, err = err.stage, err.err
    text = f"EXCEPTION at {stage}: {type(err).__name__}: {err}"[:400]
    for later in STAGES:
        if later not in out and later != "detection-json" or later == stage:
            out.setdefault(later, text)


# ---- A family: areas of records whose protoclusters are given directly

AREA_GENES = [["g1", 500, 1500, 1], ["g2", 6000, 7000, -1], ["g3", 18500, 19500, 1]]
AREA_LEN = 20000
# name: (circular only?, core parts, surrounding parts)
AREA_TEMPLATES: dict[str, tuple[bool, list[list[int]], list[list[int]]]] = {
    "mid": (False, [[6000, 7000]], [[5000, 8000]]),
    "edge": (False, [[500, 1500]], [[0, 2500]]),
    "wrap-surround": (True, [[18500, 19500]], [[17500, 20000], [0, 500]]),
    "wrap-core": (True, [[18500, 20000], [0, 1500]], [[17500, 20000], [0, 2500]]),
}
AREA_EXTRAS: dict[str, list[list]] = {
    "none": [],
    "overlapping": [["px", [[6500, 7000]], [[5500, 9000]]]],        # another protocluster, other coordinates
    "wrapping": [["px", [[19000, 19500]], [[18000, 20000], [0, 1000]]]],  # circular records only
}


def area_cases(tier: str) -> list[dict[str, Any]]:
    """ 2-3 protoclusters of different products with identical coordinates (+ optionally one more with other
        coordinates), on a linear record and on a ring, inside / next to / across the origin, added to the
        record in both orders """
    out = []
    products = [["pa", "pb"], ["pa", "pb", "pc"]] + ([["pc", "pa"], ["pb", "pc", "pa"]] if tier != "quick" else [])
    for circular in (False, True):
        for name, (needs_ring, core, surround) in AREA_TEMPLATES.items():
            if needs_ring and not circular:
                continue
            for prods in products:
                for extra_name, extra in AREA_EXTRAS.items():
                    if extra_name == "wrapping" and not circular:
                        continue
                    for reverse in (False, True):
                        protos = [[prod, core, surround] for prod in prods] + [list(e) for e in extra]
                        if reverse:
                            protos.reverse()
                        out.append({"fn": "areas", "len": AREA_LEN, "circular": circular, "genes": AREA_GENES,
                                    "template": name, "extra": extra_name, "protos": protos})
    return out + promotion_cases(tier)


# kind promotion in create_candidates_from_protoclusters: A and B interleave (cores overlap); the extras have
# cores of their own inside the span of A+B, so the neighbouring group A+B+extras has exactly the span of the
# interleaved candidate and is folded into it.  No two protoclusters share a start or a size.
PROMOTION_BASE = [["T1PKS", [[3000, 5000]], [[0, 10000]]], ["NRPS", [[4500, 7000]], [[1000, 10000]]]]
PROMOTION_EXTRAS = [["terpene", [[8000, 8500]], [[7500, 10000]]], ["butyrolactone", [[9000, 9500]], [[8700, 9900]]],
                    ["lassopeptide", [[7200, 7400]], [[7100, 7900]]]]


def _shifted(parts: list[list[int]], shift: int, length: int) -> list[list[int]]:
    """ the location moved by `shift` on a ring of `length` (split at the origin when it wraps) """
    out = []
    for start, end in parts:
        start, end = start + shift, end + shift
        if start >= length:
            out.append([start - length, end - length])
        elif end > length:
            out += [[start, length], [0, end - length]]
        else:
            out.append([start, end])
    return out


def promotion_cases(tier: str) -> list[dict[str, Any]]:
    """ every non-empty subset of the three extras (one extra: the unit-tested, deterministic path), on a
        linear record, on a ring, and on a ring shifted so that the whole group wraps over the origin; the
        protoclusters are added in forward and reverse order (thorough: also rotated orders) """
    out = []
    subsets = [list(c) for size in (1, 2, 3) for c in itertools.combinations(PROMOTION_EXTRAS, size)]
    for circular, shift in ((False, 0), (True, 0), (True, 14000)):
        for extras in subsets:
            protos = [[prod, _shifted(core, shift, AREA_LEN), _shifted(area, shift, AREA_LEN)]
                      for prod, core, area in PROMOTION_BASE + extras]
            orders = [protos, protos[::-1]]
            if tier != "quick":
                orders += [protos[k:] + protos[:k] for k in range(1, len(protos))]
            for order in orders:
                out.append({"fn": "areas", "len": AREA_LEN, "circular": circular, "genes": AREA_GENES,
                            "template": "promotion", "extra": f"{len(extras)} extras, shift {shift}",
                            "protos": [list(p) for p in order]})
    return out


def run_areas(case: dict[str, Any]) -> dict[str, str]:
    """ -> {stage: text} for a record that gets the protoclusters of the case directly """
    mod = _modules()
    out: dict[str, str] = {}
    try:
        from antismash.common.secmet.features import Protocluster  # pylint: disable=import-outside-toplevel
        from antismash.common.secmet.locations import CompoundLocation  # pylint: disable=import-outside-toplevel

        def location(parts: list[list[int]]) -> Any:
            locs = [mod["FeatureLocation"](a, b, 1) for a, b in parts]
            return locs[0] if len(locs) == 1 else CompoundLocation(locs)
        rec = mod["Record"](mod["Seq"]("A" * case["len"]))
        rec.id = "rec1"
        rec.name = "rec1"
        if case["circular"]:
            rec.annotations["topology"] = "circular"
        for name, start, end, strand in case["genes"]:
            rec.add_cds_feature(mod["CDSFeature"](mod["FeatureLocation"](start, end, strand), locus_tag=name,
                                                  translation="M" * ((end - start) // 3)))
        decorate_genes(rec, case["genes"])
        for product, core, surround in case["protos"]:
            rec.add_protocluster(Protocluster(location(core), location(surround), "rule-based-clusters", product,
                                              1000, 1000, "rule " + product, "Cat"))
    except Exception as err:  # pylint: disable=broad-except
        _fail_stages(out, "protoclusters", err)
        return out
    try:
        _finish_record(rec, out, {})
    except Exception as err:  # pylint: disable=broad-except
        _fail_stages(out, "protoclusters", err)
    return out


def _digest(stages: dict[str, str]) -> dict[str, str]:
    """ what a child reports per scenario: the small dumps in full, the big ones as digests """
    out = {}
    for stage in STAGES:
        if stage not in stages:
            continue
        text = stages[stage]
        out[stage] = text if stage in FULL_TEXT_STAGES or text.startswith("EXCEPTION") \
            else hashlib.sha1(text.encode()).hexdigest()
    return out


# ------------------------------------------------------------------------------------------
# set iteration order under our control

class _AnySetMeta(type):
    """ isinstance(x, <the shadowing name>) must keep accepting the builtin sets made by displays """
    def __instancecheck__(cls, obj: Any) -> bool:
        return isinstance(obj, set)

    def __subclasscheck__(cls, sub: Any) -> bool:
        return issubclass(sub, set)


class PermutedSet(set, metaclass=_AnySetMeta):
    """ a set whose iteration order is a chosen permutation of the order the interpreter would use """
    mode = 0

    def __iter__(self) -> Iterator:
        items = list(set.__iter__(self))
        mode = PermutedSet.mode
        if mode == 0 or len(items) < 2:
            return iter(items)
        if len(items) <= 4:
            perms = list(itertools.permutations(items))
            return iter(perms[mode % len(perms)])
        if mode % 2:
            items.reverse()
        shift = (mode // 2) % len(items)
        return iter(items[shift:] + items[:shift])


def _derived(name: str) -> Callable[..., Any]:
    def method(self: Any, *args: Any) -> Any:
        result = getattr(set, name)(self, *args)
        return PermutedSet(result) if type(result) is set else result  # pylint: disable=unidiomatic-typecheck
    method.__name__ = name
    return method


# sets derived from a permuted set (s.difference(t), s | t, ...) iterate in the chosen permutation too
for _name in ("difference", "union", "intersection", "symmetric_difference", "copy",
              "__or__", "__and__", "__sub__", "__xor__", "__ror__", "__rand__", "__rsub__", "__rxor__"):
    setattr(PermutedSet, _name, _derived(_name))


PATCHED_MODULES = [
    "antismash.common.hmmscan_refinement",
    "antismash.common.hmm_rule_parser.cluster_prediction",
    "antismash.common.hmm_rule_parser.rule_parser",
    "antismash.common.secmet.features.candidate_cluster.formation",
    "antismash.common.secmet.features.candidate_cluster.structures",
    "antismash.common.secmet.features.region.structures",
    "antismash.common.secmet.features.protocluster",
    "antismash.common.secmet.features.cdscollection",
    "antismash.common.secmet.record",
    "antismash.common.secmet.qualifiers.gene_functions",
    "antismash.common.secmet.qualifiers.asf",
    "antismash.common.secmet.qualifiers.secmet",
    "antismash.common.secmet.qualifiers.go",
    "antismash.common.secmet.qualifiers.nrps_pks",
    "antismash.common.secmet.features.feature",
    "antismash.common.secmet.features.domain",
    "antismash.common.secmet.features.antismash_domain",
    "antismash.common.secmet.features.pfam_domain",
    "antismash.common.secmet.features.cds_feature",
    "antismash.common.serialiser",
]


class permuted_sets:  # pylint: disable=invalid-name
    """ context manager: sets built via the name `set` in the anchored modules iterate in permutation `mode` """
    def __init__(self, mode: int) -> None:
        self.mode = mode
        self.touched: list[Any] = []

    _modules: list[Any] = []

    def __enter__(self) -> "permuted_sets":
        import importlib  # pylint: disable=import-outside-toplevel
        PermutedSet.mode = self.mode
        if not permuted_sets._modules:
            for name in PATCHED_MODULES:
                try:
                    permuted_sets._modules.append(importlib.import_module(name))
                except ImportError:
                    continue
        for module in permuted_sets._modules:
            if "set" not in vars(module):
                vars(module)["set"] = PermutedSet
                self.touched.append(module)
        return self

    def __exit__(self, *exc: Any) -> None:
        for module in self.touched:
            vars(module).pop("set", None)
        PermutedSet.mode = 0


# ------------------------------------------------------------------------------------------
# features of a scenario behind the known findings

def p_tied_equivalent_hits(case: dict[str, Any]) -> bool:
    """ a gene with hits of both equivalent profiles has an overlapping group (> 20 shared residues)
        whose best score is shared by two hits: filter_results keeps whichever its set yields first """
    hits = [[h[0], h[1], h[2], h[3], h[4]] for h in case.get("hits", [])]
    for cds in {h[1] for h in hits}:
        mine = [h for h in hits if h[1] == cds]
        if len({h[0] for h in mine} & set(EQUIVALENT)) >= 2 and O.f_tied_best_in_component(mine):
            return True
    return False


def _obs(case: Any, key: str) -> Any:
    obs = case.get("observed") if isinstance(case, dict) else None
    return obs.get(key) if isinstance(obs, dict) else None


def p_multi_definition(detections: list[str]) -> bool:
    """ some gene has >= 2 definition domains for one product in a detection dump """
    for text in detections:
        try:
            data = json.loads(text)
        except ValueError:
            continue
        chunks = [cds for _, cdses in data.get("cds_by_protocluster", []) for cds in cdses]
        chunks += data.get("outside_protoclusters", [])
        for cds in chunks:
            if any(len(v) >= 2 for v in cds.get("definition_domains", {}).values()):
                return True
    return False


def p_detection_equal_up_to_definition_order(detections: list[str]) -> bool:
    def norm(text: str) -> str:
        data = json.loads(text)
        chunks = [cds for _, cdses in data.get("cds_by_protocluster", []) for cds in cdses]
        chunks += data.get("outside_protoclusters", [])
        for cds in chunks:
            cds["definition_domains"] = {k: sorted(v) for k, v in cds.get("definition_domains", {}).items()}
        return json.dumps(data)
    try:
        return len({norm(text) for text in detections}) == 1
    except (ValueError, AttributeError, TypeError):
        return False


def p_tied_protoclusters(dumps: list[str]) -> bool:
    """ two protoclusters with the same location in a protocluster dump """
    for text in dumps:
        try:
            locations = [entry[2] for entry in json.loads(text)]
        except (ValueError, IndexError, TypeError):
            continue
        if len(set(locations)) != len(locations):
            return True
    return False


def p_equal_up_to_tied_order(stage: str, dumps: list[str]) -> bool:
    """ the candidate / region dumps of all variants agree once the order of protoclusters inside a
        candidate cluster, of products and of equally placed candidates is ignored """
    def norm(text: str) -> str:
        data = json.loads(text)
        if stage == "candidates":
            return json.dumps(sorted([kind, loc, sorted(protos)] for _, kind, loc, protos in data))
        return json.dumps(sorted([sorted(products), len(cands)] for _, products, cands in data))
    try:
        return len({norm(text) for text in dumps}) == 1
    except (ValueError, TypeError):
        return False


def p_unique_order_only_plain_ties(unique_dumps: list[str], proto_dumps: list[str]) -> bool:
    """ What Region.get_unique_protoclusters did, read off its results: every region lists the same
        protoclusters in all variants; where the order differs, the region does NOT cross the origin (that
        branch is `sorted(set)` with Feature.__lt__, which ties on equal coordinates - the origin-crossing
        branch sorts with a key that ends in the product and must not tie) and only protoclusters with
        identical coordinates changed places (the sequence of locations is the same in all variants). """
    try:
        if len(set(proto_dumps)) != 1:
            return False
        location = {entry[0]: entry[2] for entry in json.loads(proto_dumps[0])}
        variants = [json.loads(text) for text in unique_dumps]
        if len({len(v) for v in variants}) != 1:
            return False
        for regions in zip(*variants):
            if len({json.dumps(sorted(r[2])) for r in regions}) != 1 or len({r[1] for r in regions}) != 1:
                return False
            if len({json.dumps(r[2]) for r in regions}) == 1:
                continue
            if regions[0][1]:  # crosses the origin: total key, the order must not vary
                return False
            if len({json.dumps([location[n] for n in r[2]]) for r in regions}) != 1:
                return False
        return True
    except (ValueError, TypeError, KeyError, IndexError):
        return False


def p_areas_equal_up_to_order(dumps: list[str]) -> bool:
    """ the 'areas' sections agree once the numbering of the protoclusters of a region and the order of
        protoclusters inside a candidate are ignored """
    def norm(text: str) -> str:
        out = []
        for region in json.loads(text):
            protos = region.get("protoclusters", {})
            cands = sorted([c["start"], c["end"], c["kind"], sorted(json.dumps(protos[str(i)], sort_keys=True)
                                                                     for i in c["protoclusters"])]
                           for c in region.get("candidates", []))
            out.append([region["start"], region["end"], sorted(region["products"]),
                        sorted(json.dumps(v, sort_keys=True) for v in protos.values()), cands,
                        region.get("subregions", [])])
        return json.dumps(out)
    try:
        return len({norm(text) for text in dumps}) == 1
    except (ValueError, TypeError, KeyError, AttributeError):
        return False


def _stage(clause: str) -> str:
    return clause.split(" [")[0].split("/", 1)[-1]


def _kind(clause: str) -> str:
    return clause.split("/", 1)[0]


def _is_pipeline(case: Any) -> bool:
    return isinstance(case, dict) and case.get("fn") == "pipeline"


def _f1(clause: str, case: Any) -> bool:
    """ tied best scores of overlapping equivalent-profile hits in one gene (every stage of the pipeline: the
        HSP objects hash by address, which changes with the seed and from call to call) and tied best scores
        in one overlapping group (layout clause of filter_results) """
    if _is_pipeline(case):
        return _kind(clause) in ("seed", "setorder") and _stage(clause) in STAGES and p_tied_equivalent_hits(case)
    return (isinstance(case, dict) and case.get("fn") == "filter"
            and clause.split(" [")[0] == "layout/hits-kept (filter_results)" and O.f_tied_best_in_component(case["hits"]))


def _f2(clause: str, case: Any) -> bool:
    """ a gene carries >= 2 definition domains for one product: their order in the detection JSON and the
        order of the gene_functions they produce follow set order """
    if not _is_pipeline(case) or _kind(clause) not in ("seed", "setorder"):
        return False
    stage = _stage(clause)
    if not _obs(case, "multi_definition"):
        return False
    if stage == "detection-json":
        return bool(_obs(case, "detection_equal_up_to_definition_order"))
    return stage in ("genbank", "json") and not _obs(case, "earlier_stage_differs")


def _f3(clause: str, case: Any) -> bool:
    """ two protoclusters with identical coordinates, the protocluster dump itself is stable, and the variants
        differ ONLY in what formation.py's `sorted(<set of protoclusters>)` and the non-origin branch of
        Region.get_unique_protoclusters (`sorted(clusters)`) leave to set order: the order of equal-coordinate
        protoclusters inside a candidate cluster (and the product order derived from it), and of the unique
        protoclusters of a region that does not cross the origin (numbering of 'areas') """
    if not isinstance(case, dict) or case.get("fn") not in ("pipeline", "areas"):
        return False
    if _kind(clause) not in ("seed", "setorder"):
        return False
    if not _obs(case, "tied_protoclusters") or _obs(case, "protoclusters_differ"):
        return False
    stage = _stage(clause)
    candidates_ok = bool(_obs(case, "candidates_equal_up_to_order"))
    regions_ok = candidates_ok and bool(_obs(case, "regions_equal_up_to_order"))
    unique_ok = bool(_obs(case, "unique_order_only_plain_ties"))
    areas_ok = regions_ok and unique_ok and bool(_obs(case, "areas_equal_up_to_order"))
    if stage == "candidates":
        return candidates_ok
    if stage == "regions":
        return regions_ok
    if stage == "unique-protoclusters":
        return unique_ok
    if stage == "areas":
        return areas_ok
    if stage == "genbank":
        return regions_ok and bool(_obs(case, "earlier_stage_differs"))
    # JSON text: the structural dumps differ, and only in those orders
    return stage == "json" and areas_ok and bool(_obs(case, "earlier_stage_differs"))


def _f4(clause: str, case: Any) -> bool:
    """ refine_hmmscan_results with two distinct hits sharing a start (same root as C13-F7) """
    return (isinstance(case, dict) and case.get("fn") == "refine" and O.r_has_equal_starts(case["hits"])
            and clause.split(" [")[0] in ("seed/hits-kept (refine)", "setorder/hits-kept (refine)"))


FINDING_CLASSES: dict[str, Callable[[str, Any], bool]] = {
    "C17-F1": _f1,
    "C17-F2": _f2,
    "C17-F3": _f3,
    "C17-F4": _f4,
}


def classify(clause: str, case: Any) -> Optional[str]:
    for fid, pred in FINDING_CLASSES.items():
        try:
            if pred(clause, case):
                return fid
        except Exception:  # pylint: disable=broad-except
            continue
    return None


# ------------------------------------------------------------------------------------------
# recording

class _Collector:
    def __init__(self) -> None:
        self.failed: list[str] = []

    def check(self, clause: str, ok: bool, case: Any, *, nontrivial: bool = True, detail: str = "",
              key: Any = None) -> bool:
        del case, nontrivial, key
        if not ok:
            self.failed.append(f"{clause}: {detail}"[:600])
        return ok

    def error(self, text: str) -> None:
        self.failed.append(f"harness error: {text}"[:600])

    def out_of_time(self) -> bool:
        return False


def _emit(run: Any, clause: str, problem: Optional[tuple[str, dict[str, Any]]], case: dict[str, Any],
          nontrivial: bool, key: str) -> None:
    if problem is None:
        run.check(clause, True, case, nontrivial=nontrivial, key=key)
        return
    failing = dict(case)
    failing["observed"] = dict(problem[1], clause=clause)
    fid = classify(clause, failing)
    run.check(clause if fid is None else f"{clause} [{fid}]", False, failing, nontrivial=nontrivial,
              detail=problem[0], key=key)


def _first_difference(texts: list[str]) -> str:
    first, second = texts[0], next(t for t in texts if t != texts[0])
    i = next((i for i in range(min(len(first), len(second))) if first[i] != second[i]), min(len(first), len(second)))
    return f"...{first[max(0, i - 60):i + 60]!r} vs ...{second[max(0, i - 60):i + 60]!r}"


def _case_key(scn: dict[str, Any]) -> str:
    if scn.get("fn") == "areas":
        return "A" + json.dumps([scn["circular"], scn["protos"]])
    return "P" + json.dumps([scn["circular"], scn["choice"]])


def compare_pipeline(run: Any, kind: str, scn: dict[str, Any], variants: dict[str, dict[str, str]]) -> None:
    """ variants: {label (seed / permutation): {stage: text-or-digest}}; one check per stage """
    key = _case_key(scn)
    labels = list(variants)
    stages = [stage for stage in STAGES if any(stage in variants[label] for label in labels)]

    def dumps(stage: str) -> list[str]:
        return [variants[label].get(stage, "") for label in labels]
    protos = dumps("protoclusters")
    try:
        nontrivial = any(json.loads(p) for p in protos) and (scn.get("fn") == "areas" or (
            len({h[1] for h in scn["hits"]}) >= 2 or len(scn["hits"]) > len({h[1] for h in scn["hits"]})))
    except ValueError:
        nontrivial = True
    detections = sorted(set(dumps("detection-json")))
    observed_base = {"multi_definition": p_multi_definition(detections),
                     "detection_equal_up_to_definition_order": p_detection_equal_up_to_definition_order(detections),
                     "tied_protoclusters": p_tied_protoclusters(protos),
                     "protoclusters_differ": len(set(protos)) > 1,
                     "candidates_equal_up_to_order": p_equal_up_to_tied_order("candidates", dumps("candidates")),
                     "regions_equal_up_to_order": p_equal_up_to_tied_order("regions", dumps("regions")),
                     "unique_order_only_plain_ties": p_unique_order_only_plain_ties(dumps("unique-protoclusters"), protos),
                     "areas_equal_up_to_order": p_areas_equal_up_to_order(dumps("areas"))}
    raised = sorted({text for label in labels for text in variants[label].values() if text.startswith("EXCEPTION")})
    _emit(run, f"{kind}/no-unexpected-exception", (raised[0], {"raised": raised[:3]}) if raised else None,
          scn, nontrivial, key)
    earlier_differs = False
    for stage in stages:
        groups: dict[str, list[str]] = {}
        for label in labels:
            groups.setdefault(variants[label].get(stage, ""), []).append(label)
        problem = None
        if len(groups) > 1:
            texts = list(groups)
            shown = _first_difference(texts) if stage not in ("genbank", "json") else "digests differ"
            observed = dict(observed_base)
            observed["by_variant"] = {",".join(v): (k if len(k) < 200 else hashlib.sha1(k.encode()).hexdigest())
                                      for k, v in list(groups.items())[:4]}
            observed["earlier_stage_differs"] = earlier_differs
            problem = (f"{kind} {list(groups.values())[:4]}: {shown}", observed)
        _emit(run, f"{kind}/{stage}", problem, scn, nontrivial, key)
        if len(groups) > 1 and stage in ("protoclusters", "candidates", "regions", "unique-protoclusters", "areas"):
            earlier_differs = True


# ------------------------------------------------------------------------------------------
# T families: hits kept

def t_refine_cases(cfg_name: str, sizes: list[int], chunk: int, nchunks: int) -> Iterator[dict[str, Any]]:
    cfg = O.R_CONFIGS[cfg_name]
    for hits in O.r_cases(cfg_name, sizes, chunk, nchunks):
        if len(hits) < 2:
            continue
        scores = [h[3] for h in hits]
        if not (O.r_has_equal_starts(hits) or len(set(scores)) < len(scores)):
            continue
        for mode in (0, 1):
            yield {"fn": "refine", "lens": cfg["lens"], "hits": hits, "mode": mode}


def t_hmmer_cases(cfg_name: str, sizes: list[int], chunk: int, nchunks: int) -> Iterator[dict[str, Any]]:
    cfg = O.H_CONFIGS[cfg_name]
    for hits in O.h_cases(cfg_name, sizes, chunk, nchunks):
        if len(hits) < 2:
            continue
        if len({h[1] for h in hits}) == len(hits) and len({h[3] for h in hits}) == len(hits):
            continue
        yield {"fn": "hmmer", "cutoffs": cfg["cutoffs"], "limit": cfg["limit"], "hits": hits}


def t_eval(case: dict[str, Any]) -> str:
    from bounded import C13  # pylint: disable=import-outside-toplevel
    if case["fn"] == "refine":
        return json.dumps(C13.call_refine(case["hits"], case["lens"], case["mode"]))
    return json.dumps(C13.call_hmmer(case["hits"], case["cutoffs"], case["limit"]))


def _t_key(case: dict[str, Any]) -> str:
    return "T" + json.dumps({k: v for k, v in case.items() if k != "observed"}, sort_keys=True)


def check_refine_setorder(run: Any, case: dict[str, Any]) -> None:
    """ every iteration order of the per-protein set of hits """
    from bounded import C13  # pylint: disable=import-outside-toplevel
    import math  # pylint: disable=import-outside-toplevel
    outs: dict[str, list[int]] = {}
    for mode in range(math.factorial(min(len(case["hits"]), 4))):
        with permuted_sets(mode):
            out = json.dumps(C13.call_refine(case["hits"], case["lens"], case["mode"]))
        outs.setdefault(out, []).append(mode)
    problem = None
    if len(outs) > 1:
        problem = (f"results by set order: {list(outs)[:3]}", {"outs": list(outs)[:4]})
    _emit(run, "setorder/hits-kept (refine)", problem, case, True, _t_key(case))


def call_filter_slots(hits: list[list], slots: list[int]) -> Any:
    """ filter_results then filter_result_multiple on the hits in the given list order, hit i hashing as slots[i] """
    from bounded import C13  # pylint: disable=import-outside-toplevel
    module = C13._prediction()  # pylint: disable=protected-access
    try:
        objs = [C13._SearchHSP(hit, i, slots[i]) for i, hit in enumerate(hits)]  # pylint: disable=protected-access
        by_id: dict[str, list] = {}
        for obj in objs:
            by_id.setdefault(obj.hit_id, []).append(obj)
        results, by_id = module.filter_results(list(objs), by_id, [frozenset(O.F_GROUP)])
        first = sorted(obj.idx for obj in results)
        results, by_id = module.filter_result_multiple(results, by_id)
        # the survivors, and the ORDER in which each gene's hits come back (it becomes the order of the
        # gene's domains in the results JSON and of its sec_met_domain qualifiers)
        return [first, sorted(obj.idx for obj in results), {cds: [obj.idx for obj in objs_] for cds, objs_ in by_id.items()},
                [obj.idx for obj in results]]
    except Exception as err:  # pylint: disable=broad-except
        return f"{type(err).__name__}: {err}"[:300]


def check_filter_layout(run: Any, hits: list[list]) -> None:
    case = {"fn": "filter", "group": O.F_GROUP, "hits": hits}
    outs: dict[str, list] = {}
    for slots in itertools.permutations(range(len(hits))):
        outs.setdefault(json.dumps(call_filter_slots(hits, list(slots))), []).append(list(slots))
    problem = None
    if len(outs) > 1:
        problem = (f"survivors by layout: { {k: v[0] for k, v in list(outs.items())[:3]} }", {"outs": list(outs)[:4]})
    _emit(run, "layout/hits-kept (filter_results)", problem, case, O.f_nontrivial(hits), _t_key(case))


# ------------------------------------------------------------------------------------------
# children

_PADDING: list[Any] = []


class _Pad:  # pylint: disable=too-few-public-methods
    """ an unrelated object with an instance dict, the same kind of allocation as a Feature """
    def __init__(self, n: int) -> None:
        self.n = n
        self.location = (n, n + 1)


def child_eval(arg: dict[str, Any]) -> dict[str, Any]:
    """ runs in a child interpreter; `pad` unrelated objects are allocated (and kept) first, and a little
        more before every scenario, so that children differ in memory layout as well as in hash seed """
    pad = int(arg.get("pad", 0))
    _PADDING.extend(_Pad(i) for i in range(pad))
    _PADDING.extend(object() for _ in range(3 * pad))
    out: dict[str, Any] = {}

    def padded(func: Callable[[dict[str, Any]], dict[str, str]], case: dict[str, Any], n: int) -> dict[str, str]:
        _PADDING.extend(_Pad(i) for i in range((pad * (n + 1)) % 11))
        return _digest(func(case))
    if "scenarios" in arg:
        out["pipeline"] = [padded(run_pipeline, scn, n) for n, scn in enumerate(arg["scenarios"])]
    if "areas" in arg:
        out["areas"] = [padded(run_areas, case, n) for n, case in enumerate(arg["areas"])]
    if "t_jobs" in arg:
        out["t"] = [[t_eval(case) for case in _t_job_cases(job, arg["chunk"], arg["of"])] for job in arg["t_jobs"]]
    return out


def _t_job_cases(job: dict[str, Any], chunk: int, nchunks: int) -> Iterator[dict[str, Any]]:
    if job["fam"] == "refine":
        return t_refine_cases(job["cfg"], job["sizes"], chunk, nchunks)
    if job["fam"] == "hmmer":
        return t_hmmer_cases(job["cfg"], job["sizes"], chunk, nchunks)
    if job["fam"] == "case":
        return iter([job["case"]])
    raise ValueError(f"unknown job {job}")


def _spawn(arg: dict[str, Any], seeds: list[int], run: Any) -> Optional[dict[int, Any]]:
    from bounded._c13_spawn import run_child  # pylint: disable=import-outside-toplevel
    out = {}
    for seed in seeds:
        if run.out_of_time():
            if len(out) < 2:
                return None
            break  # compare the seeds evaluated so far
        try:
            out[seed] = run_child("bounded.C17", "child_eval", dict(arg, pad=seed % 8), seed)
        except Exception as err:  # pylint: disable=broad-except
            run.error(f"hash-seed child {seed}: {err}")
            return None
    return out


# ------------------------------------------------------------------------------------------
# shards

def _run_seed(shard: dict[str, Any], run: Any) -> None:
    """ one child per seed evaluates this shard's slice of the pipeline scenarios and of the hit families """
    scns = scenarios(shard["tier"])[shard["chunk"]::shard["of"]]
    areas = area_cases(shard["tier"])[shard["chunk"]::shard["of"]]
    arg = {"scenarios": scns, "areas": areas, "t_jobs": shard["jobs"], "chunk": shard["chunk"], "of": shard["of"]}
    results = _spawn(arg, shard["seeds"], run)
    if results is None:
        return
    for k, scn in enumerate(scns):
        compare_pipeline(run, "seed", scn, {str(seed): results[seed]["pipeline"][k] for seed in results})
    for k, case in enumerate(areas):
        compare_pipeline(run, "seed", case, {str(seed): results[seed]["areas"][k] for seed in results})
    for j, job in enumerate(shard["jobs"]):
        clause = f"seed/hits-kept ({job['fam']})"
        for k, case in enumerate(_t_job_cases(job, shard["chunk"], shard["of"])):
            groups: dict[str, list[int]] = {}
            for seed in results:
                groups.setdefault(results[seed]["t"][j][k], []).append(seed)
            problem = None
            if len(groups) > 1:
                problem = (f"results by seed: {dict(list(groups.items())[:3])}",
                           {"seeds": {out: seeds[:1] for out, seeds in list(groups.items())[:2]}})
            _emit(run, clause, problem, case, True, _t_key(case))


def _run_setorder_pipeline(shard: dict[str, Any], run: Any) -> None:
    scns = scenarios(shard["tier"])[shard["chunk"]::shard["of"]]
    for n, scn in enumerate(scns):
        if n % 16 == 0 and run.out_of_time():
            return
        variants = {}
        for mode in shard["modes"]:
            with permuted_sets(mode):
                variants[f"perm{mode}"] = _digest(run_pipeline(scn))
        compare_pipeline(run, "setorder", scn, variants)


def _run_setorder_areas(shard: dict[str, Any], run: Any) -> None:
    """ every iteration order (up to 6 / 24 permutations) of the sets behind candidate clusters and regions """
    for n, case in enumerate(area_cases(shard["tier"])[shard["chunk"]::shard["of"]]):
        if n % 16 == 0 and run.out_of_time():
            return
        variants = {}
        for mode in shard["modes"]:
            with permuted_sets(mode):
                variants[f"perm{mode}"] = _digest(run_areas(case))
        compare_pipeline(run, "setorder", case, variants)


def _run_setorder_t(shard: dict[str, Any], run: Any) -> None:
    for n, case in enumerate(t_refine_cases(shard["cfg"], shard["sizes"], shard["chunk"], shard["of"])):
        if n % 64 == 0 and run.out_of_time():
            return
        check_refine_setorder(run, case)


def _run_layout(shard: dict[str, Any], run: Any) -> None:
    for n, hits in enumerate(O.f_cases(shard["cfg"], shard["chunk"], shard["of"], shard.get("sizes"))):
        if n % 64 == 0 and run.out_of_time():
            return
        if len(hits) >= 2:
            check_filter_layout(run, hits)


def shards(tier: str, seed: int) -> list:
    del seed
    _modules()
    from bounded import C13  # pylint: disable=import-outside-toplevel
    C13._refinement()  # pylint: disable=protected-access
    C13._hmmer()  # pylint: disable=protected-access
    out: list[dict[str, Any]] = []
    if tier == "quick":
        seeds = list(range(8))
        jobs = [{"fam": "refine", "cfg": "q3", "sizes": [2, 3]}, {"fam": "refine", "cfg": "q5", "sizes": [2]},
                {"fam": "refine", "cfg": "q6", "sizes": [2]}, {"fam": "hmmer", "cfg": "h1", "sizes": [2, 3]}]
        out += [{"fam": "seed", "tier": tier, "jobs": jobs, "chunk": i, "of": 4, "seeds": seeds} for i in range(4)]
        out += [{"fam": "setorder-pipeline", "tier": tier, "chunk": i, "of": 6, "modes": [0, 1, 2, 3]} for i in range(6)]
        out += [{"fam": "setorder-areas", "tier": tier, "chunk": 0, "of": 1, "modes": list(range(6))}]
        out += [{"fam": "setorder-t", "cfg": "q3", "sizes": [2, 3], "chunk": i, "of": 2} for i in range(2)]
        out += [{"fam": "setorder-t", "cfg": "q5", "sizes": [2, 3], "chunk": 0, "of": 1}]
        out += [{"fam": "setorder-t", "cfg": "q6", "sizes": [2, 3], "chunk": i, "of": 3} for i in range(3)]
        out += [{"fam": "layout", "cfg": "f0", "chunk": 0, "of": 1}, {"fam": "layout", "cfg": "f1", "chunk": 0, "of": 2},
                {"fam": "layout", "cfg": "f1", "chunk": 1, "of": 2}, {"fam": "layout", "cfg": "f2", "chunk": 0, "of": 1}]
        return out
    seeds = list(range(16))
    jobs = [{"fam": "refine", "cfg": "q0", "sizes": [2, 3]}, {"fam": "refine", "cfg": "q3", "sizes": [2, 3]},
            {"fam": "refine", "cfg": "q5", "sizes": [2, 3]}, {"fam": "refine", "cfg": "q6", "sizes": [2, 3]}, {"fam": "hmmer", "cfg": "h1", "sizes": [2, 3]},
            {"fam": "hmmer", "cfg": "h0", "sizes": [2, 3]}]
    out += [{"fam": "seed", "tier": tier, "jobs": jobs, "chunk": i, "of": 16, "seeds": seeds} for i in range(16)]
    out += [{"fam": "setorder-pipeline", "tier": tier, "chunk": i, "of": 16, "modes": list(range(8))} for i in range(16)]
    out += [{"fam": "setorder-areas", "tier": tier, "chunk": i, "of": 2, "modes": list(range(24))} for i in range(2)]
    for cfg in ("q0", "q1", "q2", "q3", "q5", "q6", "r6"):
        out += [{"fam": "setorder-t", "cfg": cfg, "sizes": [2, 3], "chunk": i, "of": 4} for i in range(4)]
    out += [{"fam": "setorder-t", "cfg": "q4", "sizes": [4], "chunk": i, "of": 4} for i in range(4)]
    out += [{"fam": "layout", "cfg": "f0", "sizes": [2, 3, 4], "chunk": i, "of": 4} for i in range(4)]
    out += [{"fam": "layout", "cfg": "f1", "sizes": [2, 3, 4, 5], "chunk": i, "of": 8} for i in range(8)]
    out += [{"fam": "layout", "cfg": "f2", "sizes": [2, 3, 4], "chunk": 0, "of": 1}]
    return out


def run_shard(shard: dict[str, Any], run: Any) -> None:
    fam = shard["fam"]
    if fam == "seed":
        _run_seed(shard, run)
    elif fam == "setorder-pipeline":
        _run_setorder_pipeline(shard, run)
    elif fam == "setorder-areas":
        _run_setorder_areas(shard, run)
    elif fam == "setorder-t":
        _run_setorder_t(shard, run)
    elif fam == "layout":
        _run_layout(shard, run)
    else:
        run.error(f"unknown shard {shard}")


def replay(case: dict[str, Any]) -> list[str]:
    """ re-evaluates the clauses of one stored case: in-process clauses always; the seed clauses with the
        seeds stored in the case (observed.by_variant / observed.seeds), if any """
    col = _Collector()
    plain = {k: v for k, v in case.items() if k != "observed"}
    fn = case.get("fn")
    if fn == "pipeline":
        variants = {}
        for mode in range(6):  # every order of a set of up to three
            with permuted_sets(mode):
                variants[f"perm{mode}"] = _digest(run_pipeline(plain))
        compare_pipeline(col, "setorder", plain, variants)
        seeds = sorted({int(s) for label in (_obs(case, "by_variant") or {}) for s in label.split(",") if s.isdigit()})
        if seeds:
            results = _spawn({"scenarios": [plain]}, seeds[:8], col)
            if results is not None:
                compare_pipeline(col, "seed", plain, {str(s): results[s]["pipeline"][0] for s in results})
    elif fn == "areas":
        variants = {}
        for mode in range(6):
            with permuted_sets(mode):
                variants[f"perm{mode}"] = _digest(run_areas(plain))
        compare_pipeline(col, "setorder", plain, variants)
        seeds = sorted({int(s) for label in (_obs(case, "by_variant") or {}) for s in label.split(",") if s.isdigit()})
        if seeds:
            results = _spawn({"areas": [plain]}, seeds[:8], col)
            if results is not None:
                compare_pipeline(col, "seed", plain, {str(s): results[s]["areas"][0] for s in results})
    elif fn == "refine":
        check_refine_setorder(col, plain)
        stored = _obs(case, "seeds")
        seeds = sorted({s for group in stored.values() for s in group}) if isinstance(stored, dict) else []
        if seeds:
            arg = {"t_jobs": [{"fam": "case", "case": plain}], "chunk": 0, "of": 1}
            results = _spawn(arg, seeds, col)
            if results is not None:
                outs = {results[s]["t"][0][0] for s in results}
                if len(outs) > 1:
                    col.failed.append(f"seed/hits-kept (refine): {sorted(outs)}"[:600])
    elif fn == "hmmer":
        arg = {"t_jobs": [{"fam": "case", "case": plain}], "chunk": 0, "of": 1}
        results = _spawn(arg, [0, 1, 2, 3], col)
        if results is not None:
            outs = {results[s]["t"][0][0] for s in results}
            if len(outs) > 1:
                col.failed.append(f"seed/hits-kept (hmmer): {sorted(outs)}"[:600])
    elif fn == "filter":
        check_filter_layout(col, plain["hits"])
    else:
        return [f"harness error: unknown case {case!r}"]
    wanted = _obs(case, "clause")
    if isinstance(wanted, str):
        # a case stored from a failure (e.g. the witness of a finding) is judged at the clause it failed at
        return [text for text in col.failed
                if text.startswith("harness error") or text.split(": ", 1)[0].split(" [")[0] == wanted]
    return col.failed
